"""C31 — Meta-engines return only valid plans and truthful statuses.

Payloads (grammar of lean/UPVerif/Drv/C31.lean):

  (oversub PROBLEM (reach MASK*) (script (MASK STATUS)*))
      PROBLEM   problem in the wire format of harness/upp.py; its `metrics` section holds at most one
                `(oversub ((GOAL WEIGHT)*))` entry (the driver reads the weights from there)
      MASK      `m` followed by one 0/1 per oversubscription goal in declaration order (`m` alone = no goals)
      reach     the exact goal subsets achieved by the reachable states that satisfy the hard goals
                (computed by the harness with the real simulator, re-checked by impl())
      script    answers of the deliberately INCOMPLETE underlying planner: on the query for subset MASK it
                returns STATUS instead of searching

  (toversub (weights WEIGHT*) (same-interval T|F) (reach MASK*) (script (MASK STATUS)*))
      a temporal problem with one TIMED oversubscription goal per weight (TemporalOversubscription); the underlying
      planner is a TABLE-DRIVEN stub: it decodes the subset from the timed goals it is handed and answers
      "solved" (with an empty time-triggered plan standing for a plan that achieves exactly that subset) iff the
      subset is in `reach`, unless the script names it

  (ifp PROBLEM (funs (NAME DEFAULT ((ARG*) VALUE)*)*) (script (INDEX STATUS)*) (trace STEP*))
      funs      total tables of the interpreted functions (DEFAULT for arguments without an entry)
      script    the underlying planner answers STATUS (without searching) on its INDEX-th call
      STEP      (step STATUS VALID (KEY VALUE)*) what the real sub-components answered in the successive iterations
                of the refine loop when the case was generated: status of the underlying planner on the relaxed
                problem, verdict of the real validator on the mapped-back plan (T/F, `_` when no plan) and the
                interpreted-function values it reported
      the answer also carries `(changing NAME*)`: what the real InterpretedFunctionsRemover._find_changing_fluents returns
      for the problem (sorted names) - the model computes it from PROBLEM (Core/IFChanging.lean)

  (ifchg PROBLEM)
      only `_find_changing_fluents` is run (no planning): -> (changing NAME*)
"""
import itertools
import signal
import sys
import warnings
from collections import OrderedDict, deque
from fractions import Fraction

warnings.simplefilter("ignore")
import unified_planning as up
from unified_planning.engines import Engine, PlanGenerationResult
from unified_planning.engines import PlanGenerationResultStatus as ST
from unified_planning.engines import ValidationResultStatus
from unified_planning.engines.mixins import OneshotPlannerMixin
from unified_planning.engines.plan_validator import SequentialPlanValidator
from unified_planning.engines.sequential_simulator import UPSequentialSimulator
from unified_planning.model import InterpretedFunction, Object
from unified_planning.plans import ActionInstance, SequentialPlan
import unified_planning.engines.interpreted_functions_planner as ifp_mod

import sexp
import upp
from upx import Ctx, q2s

ID = "C31"
GEN = []
EXTRA_PROPS = ["UPVerif.Props.C31Closure"]
CORR_NAME = "status-chosen-subset-call-sequence-and-changing-fluents"
RULE = ("(a) oversubscription: finite problems (2 Boolean fluents, bq(L) over 2 objects, two int[0,3] counters; 1-4 actions with "
        "0-1 parameters, literal/comparison/disjunctive preconditions, assign/increase/decrease/conditional effects), 0-1 hard goals "
        "and 0-4 DISTINCT oversubscription goals (literals, their negations, conjunctions that imply one another, comparisons) "
        "with weights from {-2,-1,-1/2,0,1/2,1,2,5/2,3} incl. ties and all-negative sets, or no metric at all; solved through the real "
        "'oversubscription[c31bfs]' with an exact breadth-first planner over the real UPSequentialSimulator; ~35% of the cases "
        "make the planner answer TIMEOUT / UNSOLVABLE_INCOMPLETELY / MEMOUT / INTERNAL_ERROR / UNSUPPORTED_PROBLEM on 1-2 chosen "
        "subset queries (biased to subsets at least as heavy as the best reachable one). "
        "(a') temporal oversubscription: 1-4 timed goals (one or several intervals) with the same weight styles, solved through "
        "'oversubscription[c31table]' with a table-driven stub planner that decodes the subset from the timed goals it receives. "
        "(b) interpreted functions: the same finite signature plus total table-defined functions f:int->int, "
        "gb:int->bool, h:int,int->bool, hl:L->bool used in preconditions (negated, under and/or, compared, 8% of the cases also "
        "nested) and in effect values (also of conditional effects on Boolean fluents), solved through the real "
        "'interpreted_functions_planning[c31bfs]' (the breadth-first planner refuses problems that still contain interpreted "
        "functions); cases decided in the first iteration are thinned out (kept with probability 1/4); ~20% with a scripted "
        "incomplete answer at the 1st-3rd call. "
        "(c) dependency chains (ChainGen): 4 int[0,3] and 3 Boolean fluents; 1-2 interpreted-function effects x := f(arg) / b := gb(arg) / "
        "b := h(arg,arg') / b := hl(l) / b := (f(arg) <= k) with arg a constant, a never-written fluent or an earlier chain fluent; "
        "behind each a chain of 0-3 effects WITHOUT interpreted function that depend on the previous fluent (numeric copy y := x, "
        "Boolean value reading it b := (x = k) / b' := not b, conditional effect whose CONDITION reads it, a link reading the ends of "
        "two chains); the effects are distributed over 1..n actions in three declaration orders (every dependent BEFORE what it depends "
        "on - one more fluent per sweep -, sources first, random); optional precondition on a chain fluent, reset action (chain fluent := "
        "constant), alternative interpreted-function effect on the head of a chain; the goal (or the precondition of a later action that "
        "sets the goal flag) asks for a value of the LAST (sometimes a middle) chain fluent that is reachable in the original problem, "
        "preferably one NOT reachable when the interpreted-function effects are deleted (needs the real value); 10% scripted. "
        "(c') `ifchg` cases, only _find_changing_fluents is run: the structures of (c) and wide random effects (arithmetic, increase/"
        "decrease, conditional effects on all fluents, bq(p0) targets, nested applications, interpreted functions in conditions). "
        "Non-trivial = (a, a') at least 2 oversubscription goals and at least 2 queries to the underlying planner, or a scripted "
        "incomplete answer that was actually asked; (b, c) at least one refinement (a relaxed plan rejected by the validator), a "
        "scripted answer reached, or (b, c, c') a fluent that depends on an interpreted function only THROUGH another fluent.")
ASSUMPTIONS = [
    "timeout=None, heuristic=None (the time bookkeeping of both _solve methods is not modelled; nothing about time-outs of the "
    "meta-engines themselves is claimed)",
    "exact planning is done on sequential problems only; for TemporalOversubscription the underlying planner is a table-driven "
    "stub (no temporal semantics is exercised: only the goal encoding, the query order and the status logic)",
    "oversubscription goals are pairwise distinct non-constant expressions (Oversubscription stores them in a dict; add_goal drops "
    "a constant TRUE goal), hard goals are not constants",
    "'reachable states' = states reachable from the initial state by applicable ground actions (real UPSequentialSimulator) "
    "that satisfy the hard goals; gain of a state = sum of the weights of the oversubscription goals true in it. The gain is "
    "computed by the harness from the final state (the real validator raises UnboundLocalError on an empty plan with an "
    "oversubscription metric: finding D-C03, owned by C03)",
    "interpreted functions occur in action preconditions and in effect VALUES (the two places InterpretedFunctionsRemover "
    "rewrites); 4% of the cases also put one in a goal or in an effect CONDITION, which the remover leaves in place although the "
    "planner's supported kind admits them (open finding D-C31-unremoved-ifun)",
    "no conditional effects on the bounded integer fluents in the cases that are SOLVED: a false conditional effect on a bounded "
    "fluent makes the real simulator raise AssertionError in is_applicable (finding D-C02a, owned by C02), which would crash the "
    "breadth-first planner (so a dependency chain enters the Boolean fluents through values/conditions and never returns to the "
    "numeric ones; the `ifchg` cases, where nothing is simulated, have conditional effects on every fluent)",
    "chain fluents of the dependency-chain cases are only copied / compared / reset, never incremented (arithmetic on a bounded "
    "fluent whose value is unknown: open finding D-C31-stale-bounded-value)",
    "the theorem C31_unchanging_independent excludes (hypothesis TargetsPlain) interpreted functions in effect conditions (open finding "
    "D-C31-unremoved-ifun) and effect targets whose ARGUMENTS contain an interpreted function or read a changing fluent; no generated "
    "case has a fluent application as argument of an effect target",
    "all fluents have initial values; state spaces are finite (bounded integers, at most 1500 states), so breadth-first search is exact",
    "the underlying planner never returns INTERMEDIATE from solve() (it is the status of callback reports only)",
    "the oracle demands what the statement demands: returned plans valid (real SequentialPlanValidator and, independently, the "
    "simulator), SOLVED_OPTIMALLY => maximal gain over all reachable states, UNSOLVABLE_PROVEN => no valid plan, and for the "
    "interpreted-functions planner with a complete underlying planner: solvable => a plan is returned (no exception). Other "
    "statuses on unsolvable problems are compared model-vs-code only",
]
MODELLED = [
    "modelled by hand (tied by correspondence): OversubscriptionPlanner._solve (powerset, weight sum, stable descending sort, "
    "exact-subset goal encoding, status logic) and InterpretedFunctionsPlanner._solve (refine loop, status logic, knowledge update, "
    "no-progress error)",
    "modelled by hand (tied by correspondence on every `ifp` and `ifchg` case: sorted names of the returned set): "
    "InterpretedFunctionsRemover._find_changing_fluents incl. its while loop with the two length counters, "
    "InterpretedFunctionsExtractor.get / FreeVarsExtractor.get as used there, for instantaneous actions",
    "abstract parameters of the model, sampled not verified: the underlying planner (here: exact BFS over UPSequentialSimulator / "
    "a table-driven stub), the rest of InterpretedFunctionsRemover (assumed to yield a relaxation for every reachable knowledge set; checked "
    "end-to-end by the oracle against exhaustive search of the ORIGINAL problem; known to fail for nested applications and for "
    "arithmetic on unknown bounded fluents: open findings), SequentialPlanValidator (C03), Problem.clone/add_goal/add_timed_goal, "
    "itertools.combinations/chain, list.sort stability, dict.update",
    "the trace of an interpreted-functions case is recorded when the case is generated and re-recorded by impl(); the model is run on "
    "the recorded sub-answers, so what correspondence pins for (b) is the control flow of the loop, not the sub-components",
]
BUDGET_S = {"quick": 70, "thorough": 700}
SEARCH_S = {"quick": 60, "thorough": 300}

INCOMPLETE = ["UNSOLVABLE_INCOMPLETELY", "MEMOUT", "INTERNAL_ERROR", "UNSUPPORTED_PROBLEM"]
MAX_STATES = 1500


# ------------------------------------------------------------------------------------------------
# the underlying planner registered in a fresh factory: exact BFS over the real simulator
# ------------------------------------------------------------------------------------------------

class TooLarge(Exception):
    pass


def has_ifuns(problem):
    k = problem.kind
    return (k.has_interpreted_functions_in_conditions() or k.has_interpreted_functions_in_durations()
            or k.has_interpreted_functions_in_boolean_assignments() or k.has_interpreted_functions_in_numeric_assignments()
            or k.has_interpreted_functions_in_object_assignments())


def explore(problem, stop_at_goal):
    """Breadth-first exploration with the real simulator.
    stop_at_goal=True  -> (plan as list of ActionInstance | None)
    stop_at_goal=False -> list of all reachable states"""
    with warnings.catch_warnings():
        warnings.simplefilter("ignore")
        sim = UPSequentialSimulator(problem, error_on_failed_checks=False)
    keys = list(problem.initial_values.keys())

    def key(s):
        return tuple(s.get_value(k) for k in keys)
    s0 = sim.get_initial_state()
    seen = {key(s0)}
    dq = deque([(s0, ())])
    states = []
    while dq:
        s, plan = dq.popleft()
        if stop_at_goal:
            if sim.is_goal(s):
                return list(plan)
        else:
            states.append(s)
        succ = sorted(sim.get_applicable_actions(s), key=lambda ap: (ap[0].name, tuple(str(x) for x in ap[1])))
        for a, ps in succ:
            n = sim.apply(s, a, ps)
            if n is None:
                continue
            k = key(n)
            if k in seen:
                continue
            seen.add(k)
            if len(seen) > MAX_STATES:
                raise TooLarge()
            dq.append((n, plan + (ActionInstance(a, tuple(ps)),)))
    return None if stop_at_goal else (sim, states)


class C31BFS(Engine, OneshotPlannerMixin):
    """exact breadth-first planner; `decide(problem, call_index)` may return the name of a status to answer
    without searching (the deliberately incomplete variants)."""

    def __init__(self, decide=None, log=None, refuse_ifuns=True):
        Engine.__init__(self)
        OneshotPlannerMixin.__init__(self)
        self._decide, self._log, self._refuse = decide, log if log is not None else [], refuse_ifuns

    @property
    def name(self):
        return "c31bfs"

    @staticmethod
    def supported_kind():
        return UPSequentialSimulator.supported_kind()

    @staticmethod
    def supports(problem_kind):
        return True

    @staticmethod
    def satisfies(optimality_guarantee):
        return True

    def _solve(self, problem, heuristic=None, timeout=None, output_stream=None):
        idx = len(self._log)
        forced = self._decide(problem, idx) if self._decide else None
        if forced is None and self._refuse and has_ifuns(problem):
            forced = "UNSUPPORTED_PROBLEM"
        if forced is not None:
            self._log.append((problem, forced, None))
            return PlanGenerationResult(ST[forced], None, self.name)
        plan = explore(problem, True)
        if plan is None:
            self._log.append((problem, "UNSOLVABLE_PROVEN", None))
            return PlanGenerationResult(ST.UNSOLVABLE_PROVEN, None, self.name)
        p = SequentialPlan(plan, problem.environment)
        self._log.append((problem, "SOLVED_SATISFICING", p))
        return PlanGenerationResult(ST.SOLVED_SATISFICING, p, self.name)


def planner(env, meta, **params):
    if "c31bfs" not in env.factory.engines:
        env.factory.add_engine("c31bfs", __name__, "C31BFS")
    return env.factory.OneshotPlanner(name=f"{meta}[c31bfs]", params=params)


# ------------------------------------------------------------------------------------------------
# building the real problem of a case
# ------------------------------------------------------------------------------------------------

def pyval(ctx, s):
    """value s-expression of a function table -> the Python value an interpreted function returns / receives"""
    if s[0] == "b":
        return s[1] == "T"
    if s[0] == "i":
        return int(s[1])
    if s[0] == "o":
        return s[1]
    raise ValueError(s)


def register_funs(ctx, funs, problem_sexp):
    """interpreted functions as TOTAL tables (Ctx.fun raises on a missing entry; here a default is returned)"""
    tables = {}
    for name, default, entries in funs:
        tables[name] = ({tuple(sexp.dumps(a) for a in args): val for args, val in entries}, default)

    def visit(s):
        if isinstance(s, list):
            if s and s[0] == "ifun":
                ref = s[1]
                k = ctx._key(ref)
                if k not in ctx.funs:
                    sig = OrderedDict((f"a{i}", ctx.ty(t)) for i, t in enumerate(ref[2]))
                    table, default = tables[ref[0]]

                    def call(*args, _t=table, _d=default):
                        key = []
                        for a in args:
                            if isinstance(a, Object):
                                key.append(sexp.dumps(["o", a.name]))
                            elif isinstance(a, bool):
                                key.append(sexp.dumps(["b", "T" if a else "F"]))
                            else:
                                key.append(sexp.dumps(["i", str(int(a))]))
                        v = _t.get(tuple(key), _d)
                        return pyval(None, v)
                    ctx.funs[k] = InterpretedFunction(ref[0], ctx.ty(ref[1]), sig, call, ctx.env)
            for x in s:
                visit(x)
    visit(problem_sexp)


def build(payload):
    ps = payload[1]
    types = [(n, None if f == "_" else f) for n, f in upp.get(ps, "types")]
    ctx = Ctx(types)
    if payload[0] == "ifp":
        register_funs(ctx, payload[2][1:], ps)
    P, ctx = upp.build_problem(ps, ctx)
    return P, ctx


def section(payload, head):
    for s in payload[2:]:
        if isinstance(s, list) and s and s[0] == head:
            return s[1:]
    return []


def soft_goals_sexp(ps):
    for m in upp.get(ps, "metrics"):
        if m[0] == "oversub":
            return m[1]
    return []


def mask_of(bits):
    return "m" + "".join("1" if b else "0" for b in bits)


def truth(sim, state, e):
    return sim._se.evaluate(e, state).bool_constant_value()


def reach_masks(P, soft):
    """exact goal subsets achieved by the reachable states satisfying the hard goals (hard problem = P without metric)"""
    hard = P.clone()
    hard.clear_quality_metrics()
    sim, states = explore(hard, False)
    out = set()
    for s in states:
        if sim.is_goal(s):
            out.add(mask_of([truth(sim, s, g) for g in soft]))
    return sorted(out)


def run_plan(P, plan):
    """(final state, simulator) of a sequential plan on P without its metric, or None if some step is inapplicable /
    the hard goals fail; independent of the validator"""
    hard = P.clone()
    hard.clear_quality_metrics()
    with warnings.catch_warnings():
        warnings.simplefilter("ignore")
        sim = UPSequentialSimulator(hard, error_on_failed_checks=False)
    s = sim.get_initial_state()
    for ai in plan.actions:
        a = hard.action(ai.action.name)
        s = sim.apply(s, a, ai.actual_parameters)
        if s is None:
            return None
    if not sim.is_goal(s):
        return None
    return s, sim


# ------------------------------------------------------------------------------------------------
# (a) oversubscription: running the real meta-engine
# ------------------------------------------------------------------------------------------------

def run_oversub(payload):
    P, ctx = build(payload)
    soft_s = soft_goals_sexp(payload[1])
    qms = P.quality_metrics
    soft = list(qms[0].goals.keys()) if qms else []
    if len(soft) != len(soft_s):
        return None, "bad-case-duplicate-goals"
    script = {m: st for m, st in section(payload, "script")}
    nhard = len(P.goals)

    def decide(problem, idx):
        enc = problem.goals[nhard:]
        if len(enc) != len(soft):
            masks.append("m?")           # not an exact-subset encoding: the query cannot be identified; just search
            return None
        m = mask_of([e is g for e, g in zip(enc, soft)])
        masks.append(m)
        return script.get(m)
    masks, log = [], []
    with planner(ctx.env, "oversubscription", decide=decide, log=log) as pl:
        res = pl.solve(P)
    return (P, ctx, soft, res, masks, log), None


def oversub_answer(payload):
    r, err = run_oversub(payload)
    if err:
        return err
    P, ctx, soft, res, masks, log = r
    if reach_masks(P, soft) != sorted(section(payload, "reach")):
        return "bad-case-stale-reach"
    got = "_"
    if res.plan is not None:
        fin = run_plan(P, res.plan)
        got = "invalid" if fin is None else mask_of([truth(fin[1], fin[0], g) for g in soft])
    return [res.status.name, got, ["calls"] + masks]


# ------------------------------------------------------------------------------------------------
# (a') temporal oversubscription with a table-driven stub planner
# ------------------------------------------------------------------------------------------------

class C31Table(Engine, OneshotPlannerMixin):
    """stub planner: `answer(problem)` -> (status name, plan or None)"""

    def __init__(self, answer=None):
        Engine.__init__(self)
        OneshotPlannerMixin.__init__(self)
        self._answer = answer

    @property
    def name(self):
        return "c31table"

    @staticmethod
    def supported_kind():
        return up.model.ProblemKind()

    @staticmethod
    def supports(problem_kind):
        return True

    @staticmethod
    def satisfies(optimality_guarantee):
        return True

    def _solve(self, problem, heuristic=None, timeout=None, output_stream=None):
        st, plan = self._answer(problem)
        return PlanGenerationResult(ST[st], plan, self.name)


def run_toversub(payload):
    from unified_planning.model import DurativeAction, Fluent, GlobalStartTiming, ClosedTimeInterval, Problem
    from unified_planning.model.metrics import TemporalOversubscription
    from unified_planning.plans import TimeTriggeredPlan
    weights = [Fraction(w) for w in section_at(payload, "weights")]
    same = section_at(payload, "same-interval") == ["T"]
    reach = set(section_at(payload, "reach"))
    script = {m: st for m, st in section_at(payload, "script")}
    ctx = Ctx()
    env = ctx.env
    P = Problem("tos", env)
    fls = [Fluent(f"t{i}", env.type_manager.BoolType(), environment=env) for i in range(len(weights))]
    for f in fls:
        P.add_fluent(f, default_initial_value=False)
    act = DurativeAction("d", _env=env)
    act.set_fixed_duration(1)
    P.add_action(act)
    ivs = [ClosedTimeInterval(GlobalStartTiming(1 if same else i + 1), GlobalStartTiming(2 if same else i + 2))
           for i in range(len(weights))]
    em = env.expression_manager
    soft = [(iv, em.FluentExp(f)) for iv, f in zip(ivs, fls)]
    if weights:
        P.add_quality_metric(TemporalOversubscription({g: w for g, w in zip(soft, weights)}, env))
    asked, achieved = [], {}

    def answer(problem):
        bits = []
        for iv, g in soft:
            lst = problem.timed_goals.get(iv, [])
            pos, neg = g in lst, em.Not(g) in lst
            bits.append("1" if pos and not neg else "0" if neg and not pos else "?")
        m = "m" + "".join(bits)
        asked.append(m)
        if m in script:
            return script[m], None
        if m in reach:
            plan = TimeTriggeredPlan([], env)
            achieved[id(plan)] = m
            keep.append(plan)
            return "SOLVED_SATISFICING", plan
        return "UNSOLVABLE_PROVEN", None
    keep = []
    if "c31table" not in env.factory.engines:
        env.factory.add_engine("c31table", __name__, "C31Table")
    with env.factory.OneshotPlanner(name="oversubscription[c31table]", params={"answer": answer}) as pl:
        pl.skip_checks = True
        res = pl.solve(P)
    got = "_" if res.plan is None else achieved.get(id(res.plan), "foreign")
    return res, got, asked, weights, sorted(reach)


def section_at(payload, head):
    for s in payload[1:]:
        if isinstance(s, list) and s and s[0] == head:
            return s[1:]
    return []


def toversub_answer(payload):
    res, got, asked, _, _ = run_toversub(payload)
    return [res.status.name, got, ["calls"] + asked]


def oracle_toversub(payload):
    res, got, asked, weights, reach = run_toversub(payload)
    gain = lambda m: sum(w for w, b in zip(weights, m[1:]) if b == "1")
    st = res.status.name
    if (res.plan is not None) != (st in ("SOLVED_SATISFICING", "SOLVED_OPTIMALLY")):
        return f"status {st} inconsistent with plan presence"
    if res.plan is not None and got not in reach:
        return "returned plan was not produced by the underlying planner"
    if st == "SOLVED_OPTIMALLY":
        best = max(gain(m) for m in reach) if reach else None
        if best is None or gain(got) != best:
            return (f"SOLVED_OPTIMALLY with a plan achieving {got} (gain {gain(got)}) but the maximal gain over the "
                    f"achievable subsets is {best}")
    if st == "UNSOLVABLE_PROVEN" and reach:
        return "UNSOLVABLE_PROVEN although some subset of the timed goals is achievable"
    return None


# ------------------------------------------------------------------------------------------------
# (b) interpreted functions: running the real meta-engine with recording sub-components
# ------------------------------------------------------------------------------------------------

class Recording:
    """observe (not alter) the validator used by InterpretedFunctionsPlanner._solve"""

    def __init__(self):
        self.validations = []

    def __enter__(self):
        rec = self
        self.saved = ifp_mod.SequentialPlanValidator

        class RecValidator(self.saved):
            def validate(self, problem, plan):
                r = super().validate(problem, plan)
                rec.validations.append(r)
                return r
        ifp_mod.SequentialPlanValidator = RecValidator
        return self

    def __exit__(self, *a):
        ifp_mod.SequentialPlanValidator = self.saved


def enc_const(c):
    if c.is_bool_constant():
        return "T" if c.bool_constant_value() else "F"
    if c.is_int_constant() or c.is_real_constant():
        return q2s(c.constant_value())
    if c.is_object_exp():
        return c.object().name
    return str(c)


class Hung(Exception):
    pass


HUNG = [False]      # set once the real code did not come back (a broken loop condition): later calls are not attempted


class Watchdog:
    """SIGALRM guard around calls into the real remover / planner: a changed library must be reported, not waited for"""

    def __init__(self, seconds):
        self.seconds = seconds

    def __enter__(self):
        def fire(signum, frame):
            raise Hung()
        self.old = signal.signal(signal.SIGALRM, fire)
        signal.alarm(self.seconds)

    def __exit__(self, *a):
        signal.alarm(0)
        signal.signal(signal.SIGALRM, self.old)


def run_ifp(payload):
    P, ctx = build(payload)
    script = {int(i): st for i, st in section(payload, "script")}
    log = []
    err = None
    with Recording() as rec:
        try:
            if HUNG[0]:
                raise Hung()
            with Watchdog(60):
                with planner(ctx.env, "interpreted_functions_planning", decide=lambda p, i: script.get(i), log=log) as pl:
                    res = pl.solve(P)
        except Hung:
            HUNG[0] = True
            res, err = None, "Hung"
        except Exception as e:
            res, err = None, type(e).__name__
    steps, vi = [], 0
    for _, st, plan in log:
        if plan is not None and vi < len(rec.validations):
            v = rec.validations[vi]
            vi += 1
            calc = sorted([str(k), enc_const(val)] for k, val in (v.calculated_interpreted_functions or {}).items())
            steps.append(["step", st, "T" if v.status == ValidationResultStatus.VALID else "F"] + calc)
        else:
            steps.append(["step", st, "_"])
    return P, ctx, res, err, steps


def real_changing(P):
    """what the REAL InterpretedFunctionsRemover._find_changing_fluents answers for the problem (names, sorted)"""
    from unified_planning.engines.compilers.interpreted_functions_remover import InterpretedFunctionsRemover
    if HUNG[0]:
        return ["did-not-return"]
    try:
        with Watchdog(10):
            return sorted(f.name for f in InterpretedFunctionsRemover()._find_changing_fluents(P))
    except Hung:
        HUNG[0] = True
        return ["did-not-return"]


def ifp_answer(payload):
    P, ctx, res, err, steps = run_ifp(payload)
    if err is not None:
        out = ["raised", err]
    else:
        got = "_"
        if res.plan is not None:
            got = "valid" if run_plan(P, res.plan) is not None else "invalid"
        out = ["done", res.status.name, got]
    return [out, ["steps"] + steps, ["changing"] + real_changing(P)]


def ifchg_answer(payload):
    ps = payload[1]
    types = [(n, None if f == "_" else f) for n, f in upp.get(ps, "types")]
    P, ctx = upp.build_problem(ps, Ctx(types))
    return ["changing"] + real_changing(P)


def impl(payload):
    if payload[0] == "oversub":
        return oversub_answer(payload)
    if payload[0] == "ifp":
        return ifp_answer(payload)
    if payload[0] == "ifchg":
        return ifchg_answer(payload)
    if payload[0] == "toversub":
        return toversub_answer(payload)
    return "bad-case"


# ------------------------------------------------------------------------------------------------
# the property itself, on the real code (written from the property text)
# ------------------------------------------------------------------------------------------------

def validator_says_valid(P, plan):
    hard = P.clone()
    hard.clear_quality_metrics()
    plan2 = SequentialPlan([ActionInstance(hard.action(ai.action.name), ai.actual_parameters) for ai in plan.actions],
                           hard.environment)
    with warnings.catch_warnings():
        warnings.simplefilter("ignore")
        r = SequentialPlanValidator(environment=hard.environment).validate(hard, plan2)
    return r.status == ValidationResultStatus.VALID


def oracle_oversub(payload):
    r, err = run_oversub(payload)
    if err:
        return None
    P, ctx, soft, res, masks, log = r
    weights = [Fraction(w) for _, w in soft_goals_sexp(payload[1])]
    gain = lambda m: sum(w for w, b in zip(weights, m[1:]) if b == "1")
    reach = reach_masks(P, soft)            # exhaustive search of the achievable goal subsets
    st = res.status.name
    if (res.plan is not None) != (st in ("SOLVED_SATISFICING", "SOLVED_OPTIMALLY")):
        return f"status {st} inconsistent with plan presence"
    if res.plan is not None:
        if not validator_says_valid(P, res.plan):
            return "returned plan is not valid for the hard goals (SequentialPlanValidator)"
        fin = run_plan(P, res.plan)
        if fin is None:
            return "returned plan is not executable / misses the hard goals (simulator)"
        g = sum(w for w, e in zip(weights, soft) if truth(fin[1], fin[0], e))
        if st == "SOLVED_OPTIMALLY":
            best = max(gain(m) for m in reach) if reach else None
            if best is None or g != best:
                return f"SOLVED_OPTIMALLY with gain {g} but the maximal gain over reachable states is {best}"
    if st == "UNSOLVABLE_PROVEN" and reach:
        return "UNSOLVABLE_PROVEN although a state satisfying the hard goals is reachable"
    return None


def oracle_ifp(payload):
    P, ctx, res, err, steps = run_ifp(payload)
    scripted = bool(section(payload, "script")) and any(s[1] in INCOMPLETE or s[1] == "TIMEOUT" for s in steps)
    # exhaustive search of the ORIGINAL problem, interpreted functions evaluated for real
    try:
        plan = explore(P, True)
    except TooLarge:
        return None
    solvable = plan is not None
    if err is not None:
        if solvable and not scripted and err != "TooLarge":
            return f"solvable problem but the planner raised {err}"
        return None
    st = res.status.name
    if (res.plan is not None) != (st in ("SOLVED_SATISFICING", "SOLVED_OPTIMALLY")):
        return f"status {st} inconsistent with plan presence"
    if res.plan is not None:
        if not validator_says_valid(P, res.plan):
            return "returned plan is not valid for the original problem (SequentialPlanValidator)"
        if run_plan(P, res.plan) is None:
            return "returned plan is not executable on the original problem (simulator)"
    if st == "UNSOLVABLE_PROVEN" and solvable:
        return "UNSOLVABLE_PROVEN although the original problem is solvable"
    if not scripted and solvable and res.plan is None:
        return f"solvable problem, complete underlying planner, but status {st}"
    return None


def oracle(payload):
    if payload[0] == "oversub":
        return oracle_oversub(payload)
    if payload[0] == "ifp":
        return oracle_ifp(payload)
    if payload[0] == "toversub":
        return oracle_toversub(payload)
    return None


# ------------------------------------------------------------------------------------------------
# known findings (cause predicates over cases; ids as in known_findings.json)
# ------------------------------------------------------------------------------------------------

def _has_nested_ifun(s, inside=False):
    if isinstance(s, list):
        if s and s[0] == "ifun":
            if inside:
                return True
            return any(_has_nested_ifun(a, True) for a in s[2:])
        return any(_has_nested_ifun(x, inside) for x in s)
    return False


def _reads(e, acc):
    """names of the fluents read by an expression s-expression"""
    if isinstance(e, list):
        if e and e[0] == "fl":
            acc.add(e[1][0])
            for a in e[2:]:
                _reads(a, acc)
        else:
            for x in e:
                _reads(x, acc)
    return acc


def changing_fluents(ps):
    """fluents whose value can become unknown to the relaxed problem: assigned a value with an interpreted function,
    or assigned from / conditioned on such a fluent (least fixpoint; mirrors the documented intent of
    InterpretedFunctionsRemover._find_changing_fluents)"""
    ch = set()
    while True:
        n = len(ch)
        for a in upp.get(ps, "actions"):
            for e in a[4][1:]:
                tgt = e[2][1][0]
                if "ifun" in sexp.dumps(e[3]) or (_reads(e[3], set()) | _reads(e[4], set())) & ch:
                    ch.add(tgt)
        if len(ch) == n:
            return ch


def known_cause(payload):
    if payload[0] != "ifp":
        return None
    ps = payload[1]
    if "ifun" in sexp.dumps(upp.get(ps, "goals")) or any(
            "ifun" in sexp.dumps(e[4]) for a in upp.get(ps, "actions") for e in a[4][1:]):
        return "D-C31-unremoved-ifun"
    if _has_nested_ifun(ps):
        return "D-C31-nested-ifun"
    ch = changing_fluents(ps)
    for a in upp.get(ps, "actions"):
        for e in a[4][1:]:
            tgt, ty = e[2][1][0], e[2][1][1]
            if tgt in ch and ty != "bool" and ty[0] in ("int", "real") and (ty[1] != "_" or ty[2] != "_"):
                arithmetic = e[1] in ("increase", "decrease") or (isinstance(e[3], list) and e[3][0] in ("plus", "minus", "times", "div"))
                if arithmetic:
                    return "D-C31-stale-bounded-value"
    return None


# ------------------------------------------------------------------------------------------------
# generator
# ------------------------------------------------------------------------------------------------

U = lambda n: ["user", n]
I03 = ["int", "0", "3"]
FL = {"b0": ["b0", "bool", []], "b1": ["b1", "bool", []], "bq": ["bq", "bool", [U("L")]],
      "c": ["c", I03, []], "d": ["d", I03, []]}
TYPES = [["L", "_"]]
OBJECTS = [["l1", "L"], ["l2", "L"]]
FUNS = {"f": ["f", I03, [I03]], "gb": ["gb", "bool", [I03]], "h": ["h", "bool", [I03, I03]], "hl": ["hl", "bool", [U("L")]]}


class Gen:
    def __init__(self, rng, ifuns=False, nested=False, stray=False):
        self.r, self.ifuns, self.nested, self.stray = rng, ifuns, nested, stray

    def lterm(self, params):
        opts = [["o", "l1", "L"], ["o", "l2", "L"]] + [["p", pn, pt] for pn, pt in params] * 3
        return self.r.choice(opts)

    def num(self, params, ifun_ok=True):
        r = self.r
        k = r.random()
        if self.ifuns and ifun_ok and k < 0.3:
            return ["ifun", FUNS["f"], self.num(params, self.nested and r.random() < 0.4)]
        if k < 0.75:
            return ["fl", FL[r.choice(["c", "d"])]]
        return ["i", str(r.choice([0, 1, 2, 3]))]

    def atom(self, params, ifun_ok=True):
        r = self.r
        k = r.random()
        if self.ifuns and ifun_ok and k < 0.55:
            j = r.random()
            if j < 0.4:
                return ["ifun", FUNS["gb"], self.num(params, self.nested)]
            if j < 0.6:
                return ["ifun", FUNS["h"], self.num(params, False), self.num(params, False)]
            if j < 0.75:
                return ["ifun", FUNS["hl"], self.lterm(params)]
            return [r.choice(["le", "lt", "eq"]), ["ifun", FUNS["f"], self.num(params, False)], self.num(params, False)]
        if k < 0.55:
            return ["fl", FL[r.choice(["b0", "b1"])]]
        if k < 0.7:
            return ["fl", FL["bq"], self.lterm(params)]
        a, b = self.num(params, False), self.num(params, False)
        if a[0] == "i" and b[0] == "i":
            a = ["fl", FL["c"]]
        return [r.choice(["le", "lt", "eq"]), a, b]

    def cond(self, params, depth=1, ifun_ok=True):
        r = self.r
        k = r.random()
        if depth <= 0 or k < 0.45:
            a = self.atom(params, ifun_ok)
            return ["not", a] if r.random() < 0.3 else a
        if k < 0.75:
            return ["and", self.cond(params, depth - 1, ifun_ok), self.cond(params, depth - 1, ifun_ok)]
        return ["or", self.cond(params, depth - 1, ifun_ok), self.cond(params, depth - 1, ifun_ok)]

    def effect(self, params):
        r = self.r
        name = r.choice(["b0", "b1", "bq", "c", "c", "d"])
        if name == "bq":
            f = ["fl", FL["bq"], self.lterm(params)]
        else:
            f = ["fl", FL[name]]
        kind = "assign"
        if name in ("b0", "b1", "bq"):
            if self.ifuns and r.random() < 0.3:
                v = self.atom(params)
            else:
                v = ["b", r.choice(["T", "T", "F"])]
        else:
            k = r.random()
            if self.ifuns and k < 0.35:
                v = ["ifun", FUNS["f"], self.num(params, False)]
            elif k < 0.55:
                kind, v = r.choice(["increase", "decrease"]), ["i", "1"]
            elif k < 0.75:
                v = ["i", str(r.choice([0, 1, 2, 3]))]
            elif k < 0.9:
                v = ["fl", FL["d" if name == "c" else "c"]]
            else:
                v = ["plus", ["fl", FL[name]], ["i", "1"]]
        # conditional effects only on Boolean fluents: a false conditional effect on a bounded numeric fluent makes the
        # real simulator raise AssertionError in is_applicable (finding D-C02a, owned by C02)
        c = ["b", "T"] if (r.random() < 0.7 or name in ("c", "d")) else self.cond(params, 0, ifun_ok=False)
        return ["eff", kind, f, v, c, []]

    def action(self, i):
        r = self.r
        params = [["p0", U("L")]] if r.random() < 0.3 else []
        pre = [self.cond(params, r.choice([0, 1])) for _ in range(r.choice([1, 1, 2] if self.ifuns else [0, 1, 1, 2]))]
        effs, seen = [], set()
        for _ in range(r.choice([1, 1, 2, 3])):
            e = self.effect(params)
            k = sexp.dumps(e[2])
            if e[2][1][0] == "bq" or k not in seen:   # one effect per plain fluent (no static conflicts)
                if e[2][1][0] == "bq" and any(x[2][1][0] == "bq" for x in effs):
                    continue
                effs.append(e)
                seen.add(k)
        return ["action", f"a{i}", params, ["pre"] + pre, ["effs"] + effs]

    def const_for(self, ref):
        if ref[1] == "bool":
            return ["b", self.r.choice(["T", "F", "F"])]
        return ["i", str(self.r.choice([0, 0, 1, 2, 3]))]

    def base(self, name):
        r = self.r
        fluents = [[ref, self.const_for(ref)] for ref in FL.values()]
        init = []
        if r.random() < 0.5:
            init.append([["fl", FL["bq"], ["o", "l1", "L"]], self.const_for(FL["bq"])])
        actions = [self.action(i) for i in range(r.choice([1, 2, 2, 3, 3, 4]))]
        return fluents, init, actions

    def pack(self, name, fluents, init, actions, goals, metrics):
        return ["problem", name, ["types"] + TYPES, ["objects"] + OBJECTS, ["fluents"] + fluents, ["init"] + init,
                ["actions"] + actions, ["goals"] + goals, ["traj"], ["metrics"] + metrics]

    def soft_goals(self):
        r = self.r
        n = r.choice([0, 1, 2, 2, 3, 3, 4])
        out, seen = [], set()
        tries = 0
        while len(out) < n and tries < 40:
            tries += 1
            k = r.random()
            if out and k < 0.2:
                g = ["not", r.choice(out)]                          # complementary goals
            elif out and k < 0.35:
                g = ["and", r.choice(out), self.cond([], 0, False)]   # one goal implies another
            else:
                g = self.cond([], r.choice([0, 0, 1]), False)
            s = sexp.dumps(g)
            if s in seen:
                continue
            seen.add(s)
            out.append(g)
        style = r.random()
        if style < 0.15:
            ws = [r.choice(["-1", "-2", "-1/2"]) for _ in out]             # all negative
        elif style < 0.35:
            w = r.choice(["1", "2", "5/2"])
            ws = [w for _ in out]                                           # all ties
        else:
            ws = [r.choice(["1", "1", "2", "3", "5/2", "1/2", "0", "-1", "-2"]) for _ in out]
        return [[g, w] for g, w in zip(out, ws)]

    def oversub_case(self):
        r = self.r
        fluents, init, actions = self.base("os")
        goals = [self.cond([], r.choice([0, 1]), False)] if r.random() < 0.55 else []
        soft = self.soft_goals()
        metrics = [["oversub", soft]] if (soft or r.random() < 0.5) else []
        ps = self.pack("os", fluents, init, actions, goals, metrics)
        payload = ["oversub", ps, ["reach"], ["script"]]
        P, ctx = build(payload)
        qms = P.quality_metrics
        sg = list(qms[0].goals.keys()) if qms else []
        if len(sg) != len(soft) or any(g.is_constant() for g in sg) or len(P.goals) != len(goals):
            return None
        reach = reach_masks(P, sg)
        script = []
        if r.random() < 0.35:
            all_masks = ["m" + "".join(b) for b in itertools.product("01", repeat=len(soft))]
            # bias towards queries that matter: heavier than / equal to the best reachable one
            w = [Fraction(x[1]) for x in soft]
            gain = lambda m: sum(wi for wi, b in zip(w, m[1:]) if b == "1")
            best = max([gain(m) for m in reach], default=None)
            cands = [m for m in all_masks if best is None or gain(m) >= best] if r.random() < 0.7 else all_masks
            for m in r.sample(cands, min(len(cands), r.choice([1, 1, 2]))):
                script.append([m, r.choice(["TIMEOUT"] + INCOMPLETE + ["UNSOLVABLE_INCOMPLETELY"])])
        return ["oversub", ps, ["reach"] + reach, ["script"] + script]

    def fun_tables(self):
        r = self.r
        out = []
        dom = [["i", str(k)] for k in range(4)]
        style = r.random()
        for name, ref in FUNS.items():
            entries = []
            if name == "hl":
                doms = [[["o", "l1"], ["o", "l2"]]]
            else:
                doms = [dom for _ in ref[2]]
            for args in itertools.product(*doms):
                if ref[1] == "bool":
                    v = ["b", "T" if r.random() < (0.4 if style < 0.7 else 0.15) else "F"]
                else:
                    v = ["i", str(r.choice([0, 1, 2, 3]))]
                entries.append([list(args), v])
            out.append([name, ["b", "F"] if ref[1] == "bool" else ["i", "0"], entries])
        return out

    def ifp_case(self):
        r = self.r
        fluents, init, actions = self.base("ifp")
        goals = [self.cond([], r.choice([0, 0, 1]), False) for _ in range(r.choice([1, 1, 1, 2]))]
        if self.stray:
            # interpreted function in a goal or in the condition of an effect on a Boolean fluent (finding D-C31-unremoved-ifun)
            if r.random() < 0.5:
                goals.append(self.atom([], True))
            else:
                a = r.choice(actions)
                a[4].append(["eff", "assign", ["fl", FL["b1"]], ["b", "T"], self.atom(a[2], True), []])
        ps = self.pack("ifp", fluents, init, actions, goals, [])
        if "ifun" not in sexp.dumps(ps):
            return None
        script = []
        if r.random() < 0.2:
            script.append([str(r.choice([0, 1, 1, 2])), r.choice(["TIMEOUT"] + INCOMPLETE)])
        payload = ["ifp", ps, ["funs"] + self.fun_tables(), ["script"] + script, ["trace"]]
        c = with_trace(payload)
        steps = section(c, "trace")
        # shape the distribution: most random problems are decided in the first iteration
        reached = any(st[1] in INCOMPLETE or st[1] == "TIMEOUT" for st in steps)
        if len(steps) <= 1 and not reached and r.random() < 0.75:
            return None
        return c


# ------------------------------------------------------------------------------------------------
# (c) dependency chains behind interpreted-function effects
# ------------------------------------------------------------------------------------------------

FLC = dict(FL)
FLC.update({"e": ["e", I03, []], "k": ["k", I03, []], "b2": ["b2", "bool", []]})


def _partition(r, items):
    """partition of `items` (given sources-before-dependents) into non-empty groups = actions, in one of three declaration
    orders: every dependent BEFORE what it depends on (a sweep over the effects then finds one more fluent per pass),
    sources first (one pass suffices), or random"""
    items = list(items)
    mode = r.choice(["reverse", "reverse", "random", "random", "forward"])
    k = r.randint(1, len(items))
    if mode == "random":
        r.shuffle(items)
        groups = [[] for _ in range(k)]
        for i, it in enumerate(items):
            groups[i if i < k else r.randrange(k)].append(it)
        r.shuffle(groups)
        for g in groups:
            r.shuffle(g)
        return groups
    if mode == "reverse":
        items.reverse()
    cuts = sorted(r.sample(range(1, len(items)), k - 1))
    return [items[a:b] for a, b in zip([0] + cuts, cuts + [len(items)])]


class ChainGen:
    """x := f(seed); y := x; z := y ... : fluents that depend on an interpreted-function result only THROUGH other fluents
    (values that read them, conditional effects whose condition reads them), in every declaration order of the actions and
    of the effects inside an action, with a goal / a later precondition that needs the REAL value of a dependent fluent."""

    def __init__(self, rng):
        self.r = rng

    def fl(self, n):
        return ["fl", FLC[n]]

    def arg(self, static, nodes):
        """argument of an interpreted function: a constant, a never-written fluent, or (rarely) an earlier chain fluent"""
        r = self.r
        k = r.random()
        nn = [n for n in nodes if FLC[n][1] != "bool"]
        if nn and k < 0.12:
            return self.fl(r.choice(nn))
        if static and k < 0.6:
            return self.fl(r.choice(static))
        return ["i", str(r.choice([0, 1, 2, 3]))]

    def source(self, x, static, nodes):
        r = self.r
        if FLC[x][1] != "bool":
            v = ["ifun", FUNS["f"], self.arg(static, nodes)]
        else:
            j = r.random()
            if j < 0.45:
                v = ["ifun", FUNS["gb"], self.arg(static, nodes)]
            elif j < 0.65:
                v = ["ifun", FUNS["h"], self.arg(static, nodes), self.arg(static, nodes)]
            elif j < 0.8:
                v = ["ifun", FUNS["hl"], ["o", r.choice(["l1", "l2"]), "L"]]
            else:
                v = [r.choice(["le", "lt", "eq"]), ["ifun", FUNS["f"], self.arg(static, nodes)], ["i", str(r.choice([0, 1, 2, 3]))]]
        return ["eff", "assign", self.fl(x), v, ["b", "T"], []]

    def reads(self, prev):
        """a Boolean expression whose value depends on the fluent `prev`"""
        r = self.r
        if FLC[prev][1] == "bool":
            return self.fl(prev) if r.random() < 0.6 else ["not", self.fl(prev)]
        a, b = self.fl(prev), ["i", str(r.choice([0, 1, 2, 3]))]
        op = r.choice(["eq", "eq", "le", "lt"])
        return [op, a, b] if r.random() < 0.7 else [op, b, a]

    def link(self, prev, y):
        """an effect on `y` without interpreted function that depends on `prev`"""
        r = self.r
        if FLC[y][1] != "bool":
            return ["eff", "assign", self.fl(y), self.fl(prev), ["b", "T"], []]       # numeric copy
        if r.random() < 0.5:
            return ["eff", "assign", self.fl(y), self.reads(prev), ["b", "T"], []]    # the VALUE reads prev
        return ["eff", "assign", self.fl(y), ["b", r.choice(["T", "T", "F"])], self.reads(prev), []]   # the CONDITION reads prev

    def structure(self):
        """-> (fluents section, effects, chains) ; chains = list of node lists (source first)"""
        r = self.r
        nums, bools = ["c", "d", "e", "k"], ["b0", "b1", "b2"]
        r.shuffle(nums)
        r.shuffle(bools)
        static = [nums.pop()] if r.random() < 0.6 else []
        pool = {"n": nums, "b": bools}
        effs, chains, nodes = [], [], []
        for s in range(r.choice([1, 1, 1, 2])):
            kind = r.choice(["n", "n", "b"])
            if not pool[kind]:
                kind = "b" if kind == "n" else "n"
            if not pool[kind] or (kind == "b" and len(pool["b"]) == 1):
                break                                   # keep one Boolean for the goal flag
            x = pool[kind].pop()
            effs.append(self.source(x, static, nodes))
            chain = [x]
            nodes.append(x)
            prev = x
            for _ in range(r.choice([1, 2, 2, 3]) if s == 0 else r.choice([0, 1, 1])):
                kind = r.choice(["n", "b"]) if FLC[prev][1] != "bool" else "b"
                if not pool[kind] or (kind == "b" and len(pool["b"]) == 1):
                    kind = "n" if (kind == "b" and FLC[prev][1] != "bool") else kind
                    if not pool[kind] or (kind == "b" and len(pool["b"]) == 1):
                        break
                y = pool[kind].pop()
                # sometimes the link also reads the end of the OTHER chain (two interpreted-function effects feeding one fluent)
                e = self.link(prev, y)
                if chains and FLC[y][1] == "bool" and r.random() < 0.4:
                    e[4] = ["and", e[4], self.reads(chains[0][-1])] if e[4] != ["b", "T"] else self.reads(chains[0][-1])
                effs.append(e)
                chain.append(y)
                nodes.append(y)
                prev = y
            chains.append(chain)
        return static, pool, effs, chains

    def problem(self):
        r = self.r
        static, pool, effs, chains = self.structure()
        if not chains:
            return None
        actions = []
        for i, grp in enumerate(_partition(r, effs)):
            pre = []
            if r.random() < 0.25:
                # a precondition on a chain fluent (its real value is needed to apply a later link)
                pre.append(self.reads(r.choice(r.choice(chains))))
            actions.append(["action", f"a{i}", [], ["pre"] + pre, ["effs"] + grp])
        if r.random() < 0.3:
            # a reset: a chain fluent gets a known constant again
            n = r.choice(r.choice(chains))
            v = ["b", r.choice(["T", "F"])] if FLC[n][1] == "bool" else ["i", str(r.choice([0, 1, 2, 3]))]
            actions.insert(r.randrange(len(actions) + 1), ["action", "rs", [], ["pre"], ["effs", ["eff", "assign", self.fl(n), v, ["b", "T"], []]]])
        if r.random() < 0.35:
            # an ALTERNATIVE interpreted-function effect on the head of a chain (the planner has to find out which one helps)
            x = r.choice(chains)[0]
            actions.insert(r.randrange(len(actions) + 1), ["action", "alt", [], ["pre"], ["effs", self.source(x, static, [])]])
        fluents = [[ref, ["b", r.choice(["F", "F", "T"])] if ref[1] == "bool" else ["i", str(r.choice([0, 0, 1, 2, 3]))]]
                   for ref in FLC.values()]
        return static, pool, chains, fluents, actions

    def case(self, solve=True):
        r = self.r
        g = Gen(r, ifuns=True)
        built = self.problem()
        if built is None:
            return None
        static, pool, chains, fluents, actions = built
        funs = g.fun_tables()
        # choose what is asked of the LAST fluent of a chain (sometimes of a middle one) from what is really reachable,
        # preferring values that are reachable ONLY through the result of an interpreted function (not reachable in the
        # problem whose interpreted-function effects are deleted, i.e. from stale values)
        probe = ["ifp", g.pack("ifp", fluents, [], actions, [], []), ["funs"] + funs, ["script"], ["trace"]]
        P, ctx = build(probe)
        sim, states = explore(P, False)
        stale_actions = [a[:4] + [[x for x in a[4] if x == "effs" or "ifun" not in sexp.dumps(x[3])]] for a in actions]
        P0, ctx0 = build(["ifp", g.pack("ifp", fluents, [], stale_actions, [], []), ["funs"] + funs, ["script"], ["trace"]])
        sim0, states0 = explore(P0, False)
        chain = chains[0] if r.random() < 0.8 else r.choice(chains)
        z = chain[-1] if r.random() < 0.8 else r.choice(chain)
        zexp, zexp0 = ctx.expr(self.fl(z)), ctx0.expr(self.fl(z))
        init = enc_const(states[0].get_value(zexp))
        vals = sorted({enc_const(s.get_value(zexp)) for s in states})
        stale = {enc_const(s.get_value(zexp0)) for s in states0}
        only_if = [v for v in vals if v not in stale]
        others = [v for v in vals if v != init]
        if FLC[z][1] == "bool":
            universe = ["T", "F"]
            atom = lambda v: self.fl(z) if v == "T" else ["not", self.fl(z)]
        else:
            universe = ["0", "1", "2", "3"]
            atom = lambda v: ["eq", self.fl(z), ["i", v]]
        if not only_if and r.random() < 0.75:
            return None                                  # thin out the cases that do not need the interpreted function
        k = r.random()
        if only_if and k < 0.8:
            want = r.choice(only_if)                    # solvable, and only with the real value of the interpreted function
        elif others and k < 0.9:
            want = r.choice(others)                     # solvable, maybe from stale values alone
        elif k < 0.96:
            want = r.choice(universe)                    # anything (maybe unreachable: the problem is unsolvable)
        else:
            want = init
        goal = atom(want)
        if pool["b"] and r.random() < 0.4:
            # the value is needed by a LATER PRECONDITION, the goal is a flag set by that action
            flag = pool["b"][-1]
            fluents = [[ref, ["b", "F"] if ref[0] == flag else d] for ref, d in fluents]
            actions.insert(r.randrange(len(actions) + 1),
                           ["action", "fin", [], ["pre", goal], ["effs", ["eff", "assign", self.fl(flag), ["b", "T"], ["b", "T"], []]]])
            goals = [self.fl(flag)]
        else:
            goals = [goal]
        ps = g.pack("ifp", fluents, [], actions, goals, [])
        if not solve:
            return ["ifchg", ps]
        script = []
        if r.random() < 0.1:
            script.append([str(r.choice([0, 1])), r.choice(["TIMEOUT"] + INCOMPLETE)])
        return with_trace(["ifp", ps, ["funs"] + funs, ["script"] + script, ["trace"]])


def wide_effects_case(rng):
    """(ifchg PROBLEM): only `_find_changing_fluents` is run, so the shapes may be wider than what the planner is run on:
    random effects over 7 fluents with arithmetic, increase/decrease, conditional effects on every fluent, parametrised
    `bq(p0)` targets, interpreted functions anywhere in values"""
    g = Gen(rng, ifuns=True, nested=rng.random() < 0.2)
    names = list(FLC)

    def num():
        k = rng.random()
        if k < 0.2:
            return ["ifun", FUNS["f"], num() if rng.random() < 0.3 else ["i", "1"]]
        if k < 0.75:
            return ["fl", FLC[rng.choice(["c", "d", "e", "k"])]]
        if k < 0.85:
            return ["plus", num(), ["i", "1"]]
        return ["i", str(rng.choice([0, 1, 2, 3]))]

    def boolean(params):
        k = rng.random()
        if k < 0.15:
            return ["ifun", FUNS["gb"], num()]
        if k < 0.45:
            return ["fl", FLC[rng.choice(["b0", "b1", "b2"])]]
        if k < 0.55:
            return ["fl", FLC["bq"], g.lterm(params)]
        if k < 0.8:
            return [rng.choice(["le", "lt", "eq"]), num(), num()]
        if k < 0.9:
            return ["not", boolean(params)]
        return [rng.choice(["and", "or"]), boolean(params), boolean(params)]
    actions = []
    for i in range(rng.choice([1, 2, 3, 3, 4, 5])):
        params = [["p0", U("L")]] if rng.random() < 0.3 else []
        effs, seen = [], set()
        for _ in range(rng.choice([1, 2, 2, 3, 4])):
            n = rng.choice(names)
            tgt = ["fl", FLC[n], g.lterm(params)] if n == "bq" else ["fl", FLC[n]]
            if sexp.dumps(tgt) in seen or (n == "bq" and any(x[2][1][0] == "bq" for x in effs)):
                continue
            seen.add(sexp.dumps(tgt))
            kind = "assign"
            if FLC[n][1] == "bool":
                v = boolean(params) if rng.random() < 0.6 else ["b", rng.choice(["T", "F"])]
            else:
                v = num()
                if rng.random() < 0.2:
                    kind = rng.choice(["increase", "decrease"])
            c = ["b", "T"] if rng.random() < 0.55 else boolean(params)
            effs.append(["eff", kind, tgt, v, c, []])
        if effs:
            actions.append(["action", f"a{i}", params, ["pre"], ["effs"] + effs])
    rng.shuffle(actions)
    fluents = [[ref, ["b", "F"] if ref[1] == "bool" else ["i", "0"]] for ref in FLC.values()]
    return ["ifchg", g.pack("ifp", fluents, [], actions, [], [])]


def with_trace(payload):
    P, ctx, res, err, steps = run_ifp(payload)
    if err is not None and err != "UPException":
        # the search space of a relaxed problem exceeded MAX_STATES (or the harness planner crashed): not a usable case
        raise TooLarge()
    out = [x for x in payload if not (isinstance(x, list) and x and x[0] == "trace")]
    return out + [["trace"] + steps]


def toversub_case(rng):
    n = rng.choice([1, 2, 2, 3, 3, 4])
    style = rng.random()
    if style < 0.15:
        ws = [rng.choice(["-1", "-2", "-1/2"]) for _ in range(n)]
    elif style < 0.35:
        ws = [rng.choice(["1", "2", "5/2"])] * n
    else:
        ws = [rng.choice(["1", "1", "2", "3", "5/2", "1/2", "0", "-1", "-2"]) for _ in range(n)]
    masks = ["m" + "".join(b) for b in itertools.product("01", repeat=n)]
    reach = sorted(rng.sample(masks, rng.randint(0, min(len(masks), 4))))
    script = []
    if rng.random() < 0.35:
        for m in rng.sample(masks, rng.choice([1, 1, 2])):
            script.append([m, rng.choice(["TIMEOUT"] + INCOMPLETE + ["UNSOLVABLE_INCOMPLETELY"])])
    return ["toversub", ["weights"] + ws, ["same-interval", "T" if rng.random() < 0.4 else "F"], ["reach"] + reach,
            ["script"] + script]


def gen_case(rng, want):
    if want == "toversub":
        return toversub_case(rng)
    for _ in range(200 if want == "ifchg-wide" else 0):
        c = wide_effects_case(rng)
        try:
            ifchg_answer(c)        # the model classes reject ill-typed values (c := 3 + 1 on int[0,3], gb(3 + 1))
        except (up.exceptions.UPException, AssertionError):
            continue
        return c
    for _ in range(200):
        g = Gen(rng, ifuns=(want == "ifp"), nested=(want == "ifp" and rng.random() < 0.08),
                stray=(want == "ifp" and rng.random() < 0.04))
        try:
            if want == "chain":
                c = ChainGen(rng).case()
            elif want == "ifchg-chain":
                c = ChainGen(rng).case(solve=False)
            else:
                c = g.oversub_case() if want == "oversub" else g.ifp_case()
        except TooLarge:
            continue
        except (up.exceptions.UPException, AssertionError):
            continue     # structurally rejected by the model classes (conflicting effects etc.)
        if c is not None:
            return c
    return None


def cases(rng, tier):
    n_os, n_if, n_chain, n_chg = (100, 70, 45, 60) if tier == "quick" else (2000, 900, 700, 1500)
    for i in range(n_os // 3):
        yield gen_case(rng, "toversub")       # cheap (stub planner): all up front
    for i in range(n_chg):
        yield gen_case(rng, "ifchg-wide" if i % 3 else "ifchg-chain")     # cheap (no planning)
    for i in range(n_chain):
        c = gen_case(rng, "chain")
        if c is not None:
            yield c
    for i in range(n_os + n_if):
        # interleave the two families so that a budget cut keeps both
        want = "ifp" if (i * n_if) // (n_os + n_if) != ((i + 1) * n_if) // (n_os + n_if) else "oversub"
        c = gen_case(rng, want)
        if c is not None:
            yield c


def search(rng, tier):
    """failing-input search after a broken obligation: the chain family first (a break of the changing-fluents
    correspondence shows end-to-end there), then the general stream"""
    for i in range(400):
        c = gen_case(rng, "chain")
        if c is not None:
            yield c
    yield from cases(rng, "thorough")


def dep_profile(ps):
    """(directly interpreted-function-assigned fluents, least fixpoint, number of sweeps over the effects in DECLARATION
    order until nothing is added, size after the first sweep) - harness-side, from the documented intent"""
    direct = {e[2][1][0] for a in upp.get(ps, "actions") for e in a[4][1:] if "ifun" in sexp.dumps(e[3])}
    ch, sweeps, first = set(), 0, None
    while True:
        n = len(ch)
        for a in upp.get(ps, "actions"):
            for e in a[4][1:]:
                if "ifun" in sexp.dumps(e[3]) or (_reads(e[3], set()) | _reads(e[4], set())) & ch:
                    ch.add(e[2][1][0])
        sweeps += 1
        if first is None:
            first = len(ch)
        if len(ch) == n:
            return direct, ch, sweeps, first


def nontrivial(payload, ans):
    if not isinstance(ans, list):
        return False
    if payload[0] == "oversub":
        calls = ans[2][1:]
        scripted = {m for m, _ in section(payload, "script")}
        return (len(soft_goals_sexp(payload[1])) >= 2 and len(calls) >= 2) or bool(scripted & set(calls))
    if payload[0] == "toversub":
        calls = ans[2][1:]
        scripted = {m for m, _ in section_at(payload, "script")}
        return (len(section_at(payload, "weights")) >= 2 and len(calls) >= 2) or bool(scripted & set(calls))
    direct, ch, sweeps, first = dep_profile(payload[1])
    if payload[0] == "ifchg":
        return len(ch) > len(direct)          # some fluent depends on an interpreted function only through another fluent
    steps = ans[1][1:]
    return (any(s[2] == "F" for s in steps) or any(s[1] in INCOMPLETE or s[1] == "TIMEOUT" for s in steps)
            or len(ch) > len(direct))


def stats(payload, ans):
    if not isinstance(ans, list):
        return [str(ans)]
    if payload[0] == "toversub":
        return ["tos:" + ans[0], f"tos:goals={len(section_at(payload, 'weights'))}", f"tos:calls={min(len(ans[2]) - 1, 9)}"]
    if payload[0] == "oversub":
        n = len(soft_goals_sexp(payload[1]))
        t = ["os:" + ans[0], f"os:goals={n}", f"os:calls={min(len(ans[2]) - 1, 9)}"]
        ws = [Fraction(w) for _, w in soft_goals_sexp(payload[1])]
        if any(w < 0 for w in ws):
            t.append("os:negative-weight")
        if len(set(ws)) < len(ws):
            t.append("os:tied-weights")
        if section(payload, "script"):
            t.append("os:scripted")
        if not section(payload, "reach"):
            t.append("os:unsolvable")
        return t
    direct, ch, sweeps, first = dep_profile(payload[1])
    t = [f"chg:direct={min(len(direct), 4)}", f"chg:indirect={min(len(ch) - len(direct), 4)}", f"chg:sweeps={min(sweeps, 6)}"]
    if first < len(ch):
        t.append("chg:first-sweep-incomplete")
        if first <= 1:
            t.append("chg:first-sweep-finds<=1-and-incomplete")
    if payload[0] == "ifchg":
        return ["chg-only"] + t
    t += ["if:" + (ans[0][1] if ans[0][0] == "done" else "raised:" + ans[0][1]), f"if:iterations={min(len(ans[1]) - 1, 9)}"]
    if section(payload, "script"):
        t.append("if:scripted")
    dep = ch - direct
    if dep and (_reads(upp.get(payload[1], "goals"), set()) | {x for a in upp.get(payload[1], "actions")
                                                               for x in _reads(a[3], set())}) & dep:
        t.append("if:goal-or-precondition-reads-indirectly-dependent-fluent")
    return t


def shrink(payload):
    if payload[0] == "toversub":
        ws, same = section_at(payload, "weights"), section_at(payload, "same-interval")
        reach, script = section_at(payload, "reach"), section_at(payload, "script")
        mk = lambda w, r, sc: ["toversub", ["weights"] + w, ["same-interval"] + same, ["reach"] + r, ["script"] + sc]
        for i in range(len(ws)):
            cut = lambda m: m[:1 + i] + m[2 + i:]
            yield mk(ws[:i] + ws[i + 1:], sorted({cut(m) for m in reach}), [[cut(m), st] for m, st in script])
        for i in range(len(reach)):
            yield mk(ws, reach[:i] + reach[i + 1:], script)
        for i in range(len(script)):
            yield mk(ws, reach, script[:i] + script[i + 1:])
        return
    ps = payload[1]

    def rebuild(nps):
        try:
            if payload[0] == "ifchg":
                return ["ifchg", nps]
            if payload[0] == "oversub":
                p0 = ["oversub", nps, ["reach"], ["script"]]
                P, ctx = build(p0)
                qms = P.quality_metrics
                sg = list(qms[0].goals.keys()) if qms else []
                n = len(sg)
                script = [[m, st] for m, st in section(payload, "script") if len(m) == n + 1]
                return ["oversub", nps, ["reach"] + reach_masks(P, sg), ["script"] + script]
            p0 = ["ifp", nps, ["funs"] + section(payload, "funs"), ["script"] + section(payload, "script"), ["trace"]]
            return with_trace(p0)
        except Exception:
            return None

    def with_section(head, items):
        return [ps[0], ps[1]] + [([head] + items) if (isinstance(s, list) and s and s[0] == head) else s for s in ps[2:]]
    acts = upp.get(ps, "actions")
    for i in range(len(acts)):
        c = rebuild(with_section("actions", acts[:i] + acts[i + 1:]))
        if c:
            yield c
    for i, a in enumerate(acts):
        for j in range(1, len(a[3])):
            na = a[:3] + [a[3][:j] + a[3][j + 1:]] + a[4:]
            c = rebuild(with_section("actions", acts[:i] + [na] + acts[i + 1:]))
            if c:
                yield c
        for j in range(1, len(a[4])):
            if len(a[4]) > 2:
                na = a[:4] + [a[4][:j] + a[4][j + 1:]]
                c = rebuild(with_section("actions", acts[:i] + [na] + acts[i + 1:]))
                if c:
                    yield c
    goals = upp.get(ps, "goals")
    for i in range(len(goals)):
        c = rebuild(with_section("goals", goals[:i] + goals[i + 1:]))
        if c:
            yield c
    if payload[0] == "oversub":
        soft = soft_goals_sexp(ps)
        for i in range(len(soft)):
            c = rebuild(with_section("metrics", [["oversub", soft[:i] + soft[i + 1:]]]))
            if c:
                c = [c[0], c[1], c[2], ["script"]]
                yield c
        sc = section(payload, "script")
        for i in range(len(sc)):
            yield [payload[0], payload[1], payload[2], ["script"] + sc[:i] + sc[i + 1:]]


MANIFEST = {
    "level_text": ("Lean 4 theorems (Props/C31.lean) about executable models of OversubscriptionPlanner._solve and "
                   "InterpretedFunctionsPlanner._solve in which the underlying planner, the interpreted-functions remover and the plan "
                   "validator are ABSTRACT parameters. Proved for every goal list, all weights (any sign, ties) and every underlying "
                   "planner: a returned plan was returned by the underlying planner for one exact-subset query, so with a sound planner it "
                   "is valid for the hard goals; with a sound and truthful planner a SOLVED_OPTIMALLY plan has maximal gain among ALL valid "
                   "plans; SOLVED_OPTIMALLY / UNSOLVABLE_PROVEN are never reported after an incomplete sub-answer, every other status repeats a "
                   "sub-answer; a complete planner makes the meta-engine complete. Interpreted-functions planner: a returned plan was "
                   "accepted by the validator on the ORIGINAL problem, a plan-less result repeats the underlying planner's status for a "
                   "reachable knowledge set, the refine loop terminates (knowledge grows strictly within a finite universe); completeness "
                   "is proved only UNDER two named assumptions on the unmodelled remover/validator (relaxation, progress). "
                   "Props/C31Closure.lean: the remover's _find_changing_fluents (which fluents get an `_is_unknown` tracking fluent) is "
                   "modelled with its loop and proved to terminate in a fixpoint that is EXACTLY the set of fluents depending on an "
                   "interpreted-function result through effect chains of any length in any declaration order, and the values of all "
                   "other fluents are proved independent of the interpreted functions along every action sequence. "
                   "The models are tied to the code by a differential correspondence check through the real factory with an exact "
                   "breadth-first planner over the real simulator (and scripted incomplete variants; a table-driven stub for timed goals), "
                   "plus the property's own oracle (exhaustive search of the original problem, real validator)."),
    "level_note": ("Partial: `C31_if_complete_partial` assumes RemoverRelaxes and ValidationProgress, which are only sampled (oracle; of the "
                   "remover only _find_changing_fluents is modelled and proved, C31Closure, with the restriction TargetsPlain) and are "
                   "known to fail on three input shapes (open findings D-C31-nested-ifun, D-C31-stale-bounded-value, D-C31-unremoved-ifun); "
                   "validity of returned plans reduces to the validator's correctness (C03). Requires the fixes in "
                   "notes/patches/C31-1..3. Trusted: Lean kernel; axioms propext, Classical.choice, Quot.sound; the correspondence "
                   "harness incl. its breadth-first planner and the recorded traces."),
    "technique": "Lean 4 proof over abstract-planner models + model/code correspondence through the real factory",
    "design_ref": "DESIGN.md §5 C31",
}
