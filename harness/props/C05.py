"""C05 — Time-triggered validation matches the reference temporal semantics."""
import warnings
from fractions import Fraction

warnings.simplefilter("ignore")

import sexp
import ttlib
import upp

ID = "C05"
GEN = []
CORR_NAME = "tt-verdict"
RULE = ""
ASSUMPTIONS = []
MODELLED = []
BUDGET_S = {"quick": 40, "thorough": 300}


def cases(rng, tier):
    n = 300 if tier == "quick" else 6000
    for _ in range(n):
        yield ttlib.make_case_c05(rng)


def impl(payload):
    b = ttlib.build(payload[1], payload[2])
    return ttlib.run_tt(b, payload[3][1:])


def nontrivial(payload, ans):
    return True


def stats(payload, ans):
    return [ans if isinstance(ans, str) else "-".join(ans[:2])]


def oracle(payload):
    return None


MANIFEST = {"level_text": "", "level_note": "", "technique": "", "design_ref": "DESIGN.md §5 C05"}
