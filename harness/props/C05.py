"""C05 — Time-triggered validation matches the reference temporal semantics."""
import warnings
from fractions import Fraction

warnings.simplefilter("ignore")

import sexp
import ttlib
import upp

ID = "C05"
GEN = []
CORR_NAME = "tt-verdict"
RULE = ("one case = a generated temporal problem (ttlib.TGen: fluents p, q : bool, r(T) : bool, n : int[0,6], m : int, u : bool "
        "sometimes undefined; 0-2 instantaneous and 1-3 durative actions with 0-1 parameter; fixed / interval durations with every "
        "combination of open and closed ends, 12% with an upper bound reading a fluent; conditions at start, at end, over "
        "start..end with every openness, and over intermediate intervals with delays; effects at start / end / with delays "
        "(assign, increase, decrease, conditional, forall, Boolean delete+add pairs, same-value double assignments, accumulating "
        "increases); 0-2 timed effects; 0-2 timed goals (point, closed/open, up to the global end); 30% with a state invariant) "
        "re-read from the REAL problem, and a time-triggered plan of 1-4 entries on a coarse time grid (0, 1/2, 1, … 4: starts, "
        "ends and delayed happenings coincide often) whose durations hit the ends of the duration interval exactly (whatever "
        "their openness), lie inside or just outside; 70% of the plans are searched for with the real validator (<= 10 tries) so "
        "that about a third of the cases are VALID and the rest near misses. Compared with the model: status, failure reason, "
        "position of the reported inapplicable action. Non-trivial = some happening coincides with another happening or with an "
        "end of a condition interval, or some interval / duration bound is open.")
ASSUMPTIONS = [
    "the validator's supported kind: condition intervals with exactly one delayed end are EXTERNAL_CONDITIONS_AND_EFFECTS for the "
    "kind computation and not generated; delays keep every effect and condition inside [start, end] of its action (durations >= 1)",
    "the domain of the reference semantics (Spec.Temporal.Admissible, decidable): nothing scheduled before the start of its action "
    "instance or before time 0, conditions over non-empty intervals; the oracle raises OutOfDomain otherwise and the case is not judged",
    "two assignments of one ground fluent by two DIFFERENT action instances at one instant are a conflict whatever the values (the "
    "validator's rule, adopted by the reference semantics: 'applied together without conflicting assignments'); all timed effects of "
    "one instant count as one instance",
    "state invariants (Always bodies, bounded types) must hold in the state in force at every time point from 0 on, the state after the "
    "last happening included",
    "no quality metrics, simulated effects, interpreted functions, continuous effects (unsupported by the validator), quantified "
    "conditions (forall effects are generated); divisors do not occur",
    "instantaneous action instances are grounded by GrounderHelper (documented contract, as in C01/C04)",
]
MODELLED = [
    "modelled by hand (tied by correspondence): TimeTriggeredPlanValidator._validate / _apply_effects / _apply_effect / "
    "_states_in_interval / _check_condition / _instantiate_timing / _instantiate_interval / _ground_expression (Core/TT.lean) on top of "
    "C01's model of evaluation, grounding and effect expansion (Core/Eval.lean, Core/Sim.lean)",
    "heapq is modelled as 'pop the least (time, id)' over a list kept in push order; dict as an insertion-ordered association list",
    "the grounder's simplifier is a parameter of the theorems (C11's model in the driver)",
    "not modelled: quality metrics, simulated effects, continuous effects",
]
BUDGET_S = {"quick": 45, "thorough": 400}
SEARCH_S = {"quick": 40, "thorough": 200}


def cases(rng, tier):
    n = 380 if tier == "quick" else 5000
    for _ in range(n):
        yield ttlib.make_case_c05(rng)


_cache = {}


def _run(payload):
    k = sexp.dumps(payload)
    if k not in _cache:
        if len(_cache) > 3000:
            _cache.clear()
        b = ttlib.build(payload[1], payload[2])
        _cache[k] = (ttlib.run_tt(b, payload[3][1:]), b)
    return _cache[k]


def impl(payload):
    return _run(payload)[0]


def _times(payload):
    """(happening times with multiplicity, interval ends, any open flag)"""
    temporal, plan = payload[2], payload[3][1:]
    das = {d[1]: d for d in ttlib.tsec(temporal, "dactions")}
    hap, ends, opened = [], [], False
    for te in ttlib.tsec(temporal, "teff"):
        hap.append(Fraction(te[0][1]))
    for tg in ttlib.tsec(temporal, "tgoal"):
        ends.append(Fraction(tg[0][0][1]))
        if tg[0][1][0] == "GS":
            ends.append(Fraction(tg[0][1][1]))
        opened = opened or tg[0][2] == "T" or tg[0][3] == "T"
    for st, name, args, du in plan:
        s = Fraction(st)
        if name in das:
            d = das[name]
            dur = Fraction(du) if du != "-" else Fraction(0)
            opened = opened or d[3][3] == "T" or d[3][4] == "T"
            for te in d[5][1:]:
                hap.append(s + (dur if te[0][0] == "E" else 0) + Fraction(te[0][1]))
            for c in d[4][1:]:
                for t in (c[0][0], c[0][1]):
                    ends.append(s + (dur if t[0] == "E" else 0) + Fraction(t[1]))
                opened = opened or c[0][2] == "T" or c[0][3] == "T"
        else:
            hap.append(s)
            ends.append(s)
    return hap, ends, opened


def nontrivial(payload, ans):
    hap, ends, opened = _times(payload)
    return opened or len(set(hap)) < len(hap) or bool(set(hap) & set(ends))


def stats(payload, ans):
    hap, ends, opened = _times(payload)
    out = [ans if isinstance(ans, str) else "-".join(ans[:2]), "len:%d" % len(payload[3][1:])]
    if len(set(hap)) < len(hap):
        out.append("coinciding-happenings")
    if set(hap) & set(ends):
        out.append("happening-at-an-interval-end")
    if opened:
        out.append("open-bound")
    if ttlib.tsec(payload[2], "teff"):
        out.append("timed-effects")
    if ttlib.tsec(payload[2], "tgoal"):
        out.append("timed-goals")
    return out


def oracle(payload):
    """the property itself on the REAL code: the validator returns VALID iff the plan is valid in the reference temporal
    semantics (ttlib.spec_valid: an independent, interval/set-based implementation written from the property text)"""
    v, b = _run(payload)
    if isinstance(v, list) and v[0] == "raise":
        return f"validation raised {v[1]}"
    try:
        want = ttlib.spec_valid(b, payload[3][1:])
    except ttlib.OutOfDomain:
        return None
    got = v == "valid"
    if got != want:
        return (f"the validator says {'VALID' if got else 'INVALID'}, the reference temporal semantics says "
                f"{'VALID' if want else 'INVALID'}")
    return None


def shrink(payload):
    ps, temporal, plan = payload[1], payload[2], payload[3][1:]
    for i in range(len(plan)):
        if len(plan) > 1:
            yield ["c05", ps, temporal, ["plan"] + plan[:i] + plan[i + 1:]]
    used = {p[1] for p in plan}
    das = ttlib.tsec(temporal, "dactions")
    teff, tgoal = ttlib.tsec(temporal, "teff"), ttlib.tsec(temporal, "tgoal")

    def T(d, te, tg):
        return ["temporal", ["dactions"] + d, ["teff"] + te, ["tgoal"] + tg]
    for i, d in enumerate(das):
        if d[1] not in used:
            yield ["c05", ps, T(das[:i] + das[i + 1:], teff, tgoal), payload[3]]
    for i in range(len(teff)):
        yield ["c05", ps, T(das, teff[:i] + teff[i + 1:], tgoal), payload[3]]
    for i in range(len(tgoal)):
        yield ["c05", ps, T(das, teff, tgoal[:i] + tgoal[i + 1:]), payload[3]]
    for i, d in enumerate(das):
        conds, effs = d[4][1:], d[5][1:]
        for j in range(len(conds)):
            d2 = d[:4] + [["conds"] + conds[:j] + conds[j + 1:], d[5]]
            yield ["c05", ps, T(das[:i] + [d2] + das[i + 1:], teff, tgoal), payload[3]]
        for j in range(len(effs)):
            if len(effs) > 1:
                d2 = d[:5] + [["effs"] + effs[:j] + effs[j + 1:]]
                yield ["c05", ps, T(das[:i] + [d2] + das[i + 1:], teff, tgoal), payload[3]]
    for name in ("goals", "traj"):
        items = upp.get(ps, name)
        for i in range(len(items)):
            ps2 = [([name] + items[:i] + items[i + 1:]) if (isinstance(s, list) and s and s[0] == name) else s for s in ps]
            yield ["c05", ps2, temporal, payload[3]]


MANIFEST = {
    "level_text": ("Lean 4 theorems (Props/C05.lean) prove for every temporal problem in the modelled kind, every simplifier and every "
                   "admissible time-triggered plan, with no size bound: the model of TimeTriggeredPlanValidator returns VALID iff the "
                   "plan is valid in a declarative reference semantics (Spec/Temporal.lean: events and conditions of the plan; the "
                   "distinct event times in ascending order; all events of one instant applied together — effect instances "
                   "evaluated in the state before the instant, consistent as in C01 and no fluent assigned by two action instances, "
                   "order-free new values; every condition true in the state in force at EVERY time point of its possibly open "
                   "interval, the state in force at an instant being the one before its effects; duration constraints; goals in the "
                   "last state), as an equality of results in both directions. Named lemmas per clause: _states_in_interval yields "
                   "exactly the states in force at the time points of the interval (whatever the right end's openness), the meaning "
                   "of the duration constraint, _apply_effects = the order-free successor of the instant, independence of the "
                   "listing order of the plan, and the loop's fuel always suffices. The model (Core/TT.lean) mirrors the repaired "
                   "plan_validator.py function by function and is tied to /repo on every run by a differential check (status, "
                   "reason, reported action) on generated temporal problems and plans with coinciding happenings and open/closed "
                   "ends, plus an independent Python implementation of the reference semantics as the property's oracle."),
    "level_note": ("Partial with respect to the validator's full kind: simulated effects, quality metrics and continuous effects "
                   "are not modelled. Admissible plans only (decidable: nothing scheduled before the start of its action or before "
                   "time 0; non-empty condition intervals). The cross-instance conflict rule is the validator's (any two assignments "
                   "of one fluent by different instances at one instant conflict). Trusted: Lean kernel; axioms propext, "
                   "Classical.choice, Quot.sound; the correspondence harness; Spec/Temporal.lean as the reading of the property. "
                   "Modelled not verified: heapq, dict, Fraction."),
    "technique": "Lean 4 proof (loop lemma over the event list, merge lemma via C01's fold, interval lemma over dense time) + model/code correspondence",
    "design_ref": "DESIGN.md §5 C05",
}
