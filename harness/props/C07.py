"""C07 — Compilers preserve solvability and every original plan (completeness)."""
import warnings

warnings.simplefilter("ignore")

import complib
import sexp
from props import C06 as _c06

ID = "C07"
GEN = []
CORR_NAME = "compiled-problem-variants"
RULE = ("cases as for C06 (compiler x small generated problem inside its supported kind x bound k; the ten compilers of the statement "
        "and six pipelines in rotation). END-TO-END (oracle, every case, real code only): EVERY instance sequence of the ORIGINAL "
        "problem of length <= k (k = 3 quick / 4 thorough, breadth-first with the real UPSequentialSimulator, <= 60 / 200 valid plans "
        "per case) that is applicable step by step, reaches the goal and satisfies the trajectory constraints (PDDL3 semantics over "
        "the state sequence) must have a counterpart in the REAL compiled problem: an applicable, goal-reaching, constraint-satisfying "
        "compiled sequence of length <= k (k+1 when the compilation added actions that map back to nothing, i.e. goal actions) whose "
        "map-back through the REAL CompilerResult is exactly the original instance sequence (depth-first search over the compiled "
        "state graph, guided by the map-back of every compiled ground instance). A documented refusal of the compiler "
        "(UPProblemDefinitionError) is a failure iff the original has a valid plan within the bound. MODEL CORRESPONDENCE as for C06. "
        "Non-trivial = at least one valid original plan of length >= 1 was looked up.")
ASSUMPTIONS = list(_c06.ASSUMPTIONS)
MODELLED = list(_c06.MODELLED)
BUDGET_S = dict(_c06.BUDGET_S)
SEARCH_S = dict(_c06.SEARCH_S)


cases = _c06.cases
model_payload = _c06.model_payload
impl = _c06.impl
compare = _c06.compare
model_stats = _c06.model_stats
shrink = _c06.shrink


def nontrivial(payload, ans):
    an = complib.analyse(payload)
    return "original-plan-len>=1" in an.tags


def stats(payload, ans):
    an = complib.analyse(payload)
    out = ["compiler:" + payload[1]] + sorted(an.tags)
    if an.skip:
        out.append("skip:" + an.skip)
    n = an.n_original_plans
    out.append("original-plans:%s" % ("0" if n == 0 else "1-9" if n < 10 else "10-99" if n < 100 else "100+"))
    if an.c07:
        out.append("c07-failure")
    return out


def oracle(payload):
    """the property itself on the real code (see RULE)"""
    return complib.analyse(payload).c07


CAUSES = [
    ("C07-noop-variant-pruned", complib.cause_noop_step),
    ("C07-dcr-overlapping-disjuncts", complib.cause_overlapping_disjuncts),
    ("C07-uin-conditional-effects", complib.cause_undefined_conditional),
    ("C07-static-conflict-coinciding-values", complib.cause_coinciding_values),
    ("C07-uin-read-simplified-away", complib.cause_undefined_read_simplified_away),
    ("C07-ncr-add-after-delete", complib.cause_bool_add_and_delete),
]


def known_cause(payload):
    for fid, pred in CAUSES:
        if pred(payload):
            return fid
    return None


EXTRA_PROPS = ["UPVerif.Props.C07Lift", "UPVerif.Props.C07Ground", "UPVerif.Props.C07BTQR", "UPVerif.Props.C07NCR"]

MANIFEST = {
    "level_text": ("Lean 4 theorems. Props/C07.lean: a generic backward-simulation theorem over abstract transition systems (every "
                   "valid original plan has a compiled counterpart of the same length, +1 with a goal action, mapping back to it; "
                   "an unsolvable compiled problem implies an unsolvable original), closed under composition, instantiated for "
                   "ConditionalEffectsRemover, StateInvariantsRemover and DisjunctiveConditionsRemover (k+1 with goal actions), "
                   "with a kernel-checked refutation of the full statement for CER (effect-less variant pruned). "
                   "Props/C07Lift.lean: the same on ALL action instances. Props/C07Ground.lean: the Grounder on all instances "
                   "(static-fluent pruning removes only instances inapplicable in every state agreeing with the initial state on "
                   "the static fluents; every applicable instance has its ground action). Props/C07BTQR.lean: BoundedTypesRemover, "
                   "QuantifiersRemover, the three-stage pipeline. Props/C07NCR.lean: NegativeConditionsRemover (same plans, "
                   "position by position). Seven compiler models tied to /repo by a differential comparison of compiled problems; "
                   "for ALL ten compilers and six pipelines the property itself is decided on the real code by an exhaustive end- "
                   "to-end differential (every valid original plan up to length 3/4). "),
    "level_note": ("Partial: hypotheses as stated for C06 (Lift: decidable per-problem conditions and walker exactness on "
                   "instances; Grounder: one-directional simplifier exactness, groundOKc, pruneWF; BTR/QR/NCR: parameterless "
                   "actions). The pruning of effect-less variants (documented, relied on by the test-suite), of statically "
                   "conflicting variants / instances, the add-after-delete of NegativeConditionsRemover and the reads that "
                   "simplification removes in UndefinedInitialNumericRemover make the full statement false: open findings, the "
                   "theorems carry decidable hypotheses that exclude exactly these causes (kernel-checked refutations without "
                   "them). No theorem for UsertypeFluentsRemover, TrajectoryConstraintsRemover, UndefinedInitialNumericRemover. "),
    "technique": "Lean 4 proof (simulation frame + per-compiler step lemmas) + model/code correspondence + exhaustive end-to-end differential",
    "design_ref": "DESIGN.md §5 C06/C07",
}
