"""C22 — Problem cloning yields an equal, independent copy that accepts the same edits."""
import warnings

warnings.simplefilter("ignore")

import buildlib as bl
import sexp
import buildsub as sublib

ID = "C22"
GEN = []
CORR_NAME = "history-classes-eq-and-stored-state-of-original-and-clone"
RULE = ("`hist` cases: Problem(initial_defaults) + the calls building a generated problem (upp.ProblemGen: 10 fluents "
        "with/without defaults, 1-3 actions with preconditions and assign/increase/decrease/conditional/forall effects, "
        "goals, state invariants, metrics), clone(), then 20 (quick) / 100 (thorough) random building calls — add_fluent, "
        "add_object, set_initial_value, add_action, action.add_precondition/add_*effect, add_goal, "
        "add_trajectory_constraint, add_timed_effect/add_increase_effect/add_decrease_effect, add_timed_goal, "
        "add_quality_metric, time-model setters; ~30% malformed — applied to original and clone in lock-step; ~8% of the "
        "calls are made on one side first (the other side is re-dumped), ~5% of the positions re-clone the edited "
        "original. `sub` cases: the same lock-step on real ContingentProblem / HierarchicalProblem / MultiAgentProblem "
        "objects (oracle only, the model covers Problem). Non-trivial = a hist case in which some call after the clone "
        "is accepted and some call (before or after) is rejected by the conflict bookkeeping or the name/type checks, "
        "or any sub case.")
ASSUMPTIONS = [
    "one user type per name (the wire format identifies a user type by its name); fluent parameters are user-typed",
    "set_initial_value is only called with objects already added to the problem (otherwise Problem.kind itself fails "
    "an internal assertion: 'more initial values than state variables')",
    "divisors inside generated expressions are non-zero constants (Problem.kind — evaluated by `==` — replaces static "
    "fluents by their initial values and raises ZeroDivisionError on e.g. the metric x/x with x initially 0)",
    "expressions handed to the API are well-typed in themselves (ill-typed VALUES are well-typed expressions of a type "
    "the target does not accept); arity errors only at the top-level fluent of an effect / initial value",
    "quality metrics only mention actions of the problem they are added to (clone looks them up by name)",
    "`==` of the real objects also compares `kind` (property C10): the model's equality is compared with the real one "
    "whenever the real kinds are equal, and the real `==` must be False when they differ",
    "operations on one side 'never change the other' is checked on a full dump of the other object, private conflict "
    "bookkeeping included; empty per-timing bookkeeping dicts are not content",
    "HierarchicalProblem.clone shares the (mutable) Method objects with the original; editing a method is not among "
    "the operations of the property's quantifier and is not exercised",
]
MODELLED = ["modelled by hand (tied by correspondence): Problem.clone/_clone_to, Problem.__eq__ (minus kind), every "
            "building call listed in RULE, Effect.__init__/clone, check_conflicting_effects, _add_user_type, "
            "is_compatible_type, InstantaneousAction.clone/__eq__, metric __eq__",
            "taken as parameters of the model and supplied per case by the real code: FNode.type (type checker, C15) for "
            "non-leaf expressions, FNode.simplify (C11) for trajectory constraints; Problem.kind (C10) is an arbitrary "
            "function of the non-bookkeeping content",
            "not modelled: events/processes, durative actions, simulated effects, ContingentProblem / HierarchicalProblem "
            "/ MultiAgentProblem (lock-step differential of real original vs real clone only)"]
BUDGET_S = {"quick": 70, "thorough": 700}


def cases(rng, tier):
    n_hist, n_post, n_sub = (70, 20, 36) if tier == "quick" else (250, 100, 150)
    gen = bl.HistGen(rng)
    subs = sublib.SubGen(rng)
    for i in range(max(n_hist, n_sub)):
        if i < n_hist:
            yield gen.case(n_post)
        if i < n_sub:
            yield subs.case(n_post // 2)


def impl(payload):
    if payload[0] == "sub":
        return "not-modelled"
    return bl.run_real(payload)


def compare(model_ans, impl_ans):
    return bl.compare_hist(model_ans, impl_ans)


def _post(ans):
    for part in ans:
        if isinstance(part, list) and part and part[0] == "post":
            return part[1:]
    return []


def nontrivial(payload, ans):
    if payload[0] == "sub":
        return True
    if not isinstance(ans, list) or ans[0] == "ctor-error":
        return False
    post = _post(ans)
    accepted = any(r[1] == "ok" for r in post if r[0] in ("both", "left", "right"))
    classes = [c for c in ans[0][1:]] + [r[1] for r in post if r[0] in ("both", "left", "right")]
    return accepted and any(c != "ok" for c in classes)


def stats(payload, ans):
    if payload[0] == "sub":
        return ["sub:" + payload[1]]
    if not isinstance(ans, list):
        return ["odd-answer"]
    if ans[0] == "ctor-error":
        return ["ctor-error"]
    t = []
    for r in _post(ans):
        if r[0] in ("both", "left", "right"):
            t.append("post:" + r[1])
        else:
            t.append("reclone")
        if r[0] in ("left", "right"):
            t.append("single-sided")
    for c in ans[0][1:]:
        t.append("pre:" + c)
    ops = [it[1][0] for it in payload[4][1:] if len(it) > 1]
    t += ["op:" + o for o in ops]
    return t


def oracle(payload):
    """The property itself on the real code: clone equal and of the same kind; every later call succeeds on both or
    fails on both (same error class), the two stay equal, a call on one side leaves the other untouched."""
    if payload[0] == "sub":
        return sublib.oracle(payload)
    env, new, pre, post = bl.case_parts(payload)
    ctx = bl.new_ctx(env)
    try:
        P = bl.new_problem(ctx, new)
    except Exception:   # noqa: BLE001 — no problem, nothing to clone
        return None
    for op in pre:
        bl.apply_op(ctx, P, op)
    try:
        C = P.clone()
    except Exception as e:   # noqa: BLE001
        return f"clone() raised {type(e).__name__}: {str(e)[:100]}"
    if not (C == P):
        return "clone() is not equal to the original"
    if C.kind != P.kind:
        return "clone() has a different kind"
    for i, it in enumerate(post):
        h = it[0]
        if h == "both":
            cp, cc = bl.apply_op(ctx, P, it[1]), bl.apply_op(ctx, C, it[1])
            if cp != cc:
                return f"post[{i}] {it[1][0]}: original -> {cp}, clone -> {cc}"
            if not (P == C) or P.kind != C.kind:
                return f"post[{i}] {it[1][0]} ({cp}): original and clone are no longer equal"
        elif h in ("left", "right"):
            target, other = (P, C) if h == "left" else (C, P)
            before, kbefore = bl.dump_problem(other), other.kind
            bl.apply_op(ctx, target, it[1])
            if bl.dump_problem(other) != before or other.kind != kbefore:
                return f"post[{i}] {it[1][0]} on the {'original' if h == 'left' else 'clone'} changed the other problem"
        elif h == "reclone":
            try:
                C = P.clone()
            except Exception as e:   # noqa: BLE001
                return f"post[{i}] clone() raised {type(e).__name__}: {str(e)[:100]}"
            if not (C == P):
                return f"post[{i}] clone() of the edited original is not equal to it"
            if C.kind != P.kind:
                return f"post[{i}] clone() of the edited original has a different kind"
    return None


def shrink(payload):
    if payload[0] == "sub":
        yield from sublib.shrink(payload)
    else:
        yield from bl.shrink_hist(payload)


MANIFEST = {
    "level_text": ("Lean 4 theorems (Props/C22.lean) about the executable model of the Problem-building API "
                   "(Core/Build.lean, 14 mutators + clone + __eq__, conflict bookkeeping included): on every state "
                   "reachable through the API clone succeeds and returns a state identical in every field, hence equal "
                   "(__eq__ as written, for any kind function) and of the same kind; for every sequence of calls the "
                   "clone and the original raise the same errors and stay equal; calls on one never change the other. "
                   "The model is tied to the code by a differential check on random histories (error class of every "
                   "call, ==, full dump of both objects incl. private bookkeeping) and the property's own oracle on the "
                   "real objects; ContingentProblem / HierarchicalProblem / MultiAgentProblem by the oracle only."),
    "level_note": ("Trusted: Lean kernel; axioms propext, Classical.choice, Quot.sound; harness. Type checker, simplifier and "
                   "kind computation are parameters of the model (supplied by the real code per case). Independence is "
                   "structural in a pure model; its code-level content (aliasing) rests on the differential check."),
    "technique": "Lean 4 proof (invariants + bisimulation) + model/code correspondence on histories",
    "design_ref": "DESIGN.md §5 C22",
}
