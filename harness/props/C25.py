"""C25 — DeltaSTN decides temporal consistency exactly."""
import signal
import warnings
from fractions import Fraction

warnings.simplefilter("ignore")
from unified_planning.model.delta_stn import DeltaSimpleTemporalNetwork

ID = "C25"
GEN = []
CORR_NAME = "check_stn-distances-model-get_constraints"
RULE = ("(1) `tree` cases: a prefix of insertions on one network, then EVERY canonical one-step extension (x,y over the "
        "events seen so far plus fresh ones, at most 4 events in all, bound in [-3,3]) inserted into its own copy_stn() of "
        "the prefix network. Prefixes are enumerated exhaustively modulo renaming of events (events named in order of first "
        "appearance): quick = all prefixes of length <=2 (i.e. ALL insertion sequences of length <=3) plus a random sample "
        "of prefixes of length 3..5; thorough = all prefixes of length <=3 (ALL sequences of length <=4) plus a larger "
        "sample of length 4..6. (2) `hist` cases: random histories (30 ops quick / 200 thorough) over up to 8 live networks "
        "with copy_stn, integer and rational (Fraction) bounds incl. huge ones, most of the insertions drawn from a hidden "
        "feasible schedule with tight slack (deep consistent networks), the rest arbitrary, plus re-insertions of the same "
        "pair with smaller/larger bounds (subsumption). Non-trivial = a sat network with a non-zero distance (propagation "
        "happened) or both verdicts occur in the case.")
ASSUMPTIONS = ["epsilon = 0 (the class default); bounds are int or Fraction (no floats)",
               "events are strings; the exhaustive part enumerates insertion sequences modulo renaming of events "
               "(the class never inspects an event beyond ==/hash)",
               "distances / model values are compared only while the network is consistent (the property says nothing "
               "about them afterwards); dict-ordered output is sorted by event name",
               "the model's while-loop is fuelled; termination for some fuel and independence of the result from the fuel are "
               "proved (C25_terminates, C25_fuel_irrelevant); the driver uses (E+2)(A+2)^2 pops per add (E events, A adds in "
               "the case) and an insufficient fuel would be reported as a disagreement (`out-of-fuel`)",
               "every run of the real code is bounded by a 10 s watchdog; exceeding it counts as 'no verdict reported'"]
MODELLED = ["modelled by hand (tied by correspondence): DeltaSimpleTemporalNetwork.add/_is_subsumed/_inc_check/copy_stn/"
            "check_stn/get_stn_model/distances/get_constraints; Python dict/deque/Fraction semantics; sharing of immutable "
            "DeltaNeighbors cells between copies is modelled as sharing of immutable list values"]
BUDGET_S = {"quick": 60, "thorough": 700}

NAMES = ["a", "b", "c", "d", "e", "f", "g", "h"]
BOUNDS = list(range(-3, 4))
MAXEV = 4


# ------------------------------------------------------------------------------------------------
# encoding
# ------------------------------------------------------------------------------------------------

def rs(v):
    v = Fraction(v)
    return str(v.numerator) if v.denominator == 1 else f"{v.numerator}/{v.denominator}"


def pb(s):
    """bound atom -> int or Fraction (an atom with '/' is a Fraction, also n/1)"""
    if "/" in s:
        n, d = s.split("/")
        return Fraction(int(n), int(d))
    return int(s)


def net_out(stn):
    keys = sorted(stn.distances.keys())
    sat = stn.check_stn()
    dist = [[k, rs(stn.distances[k]), rs(stn.get_stn_model(k))] for k in keys] if sat else []
    gc = stn.get_constraints()
    cons = [[k] + [[rs(b), dst] for (b, dst) in gc[k]] for k in keys]
    return ["net", "T" if sat else "F", ["dist"] + dist, ["cons"] + cons]


def leaf_out(stn):
    if not stn.check_stn():
        return "U"
    d = stn.distances
    return "S" + ",".join(rs(d[k]) for k in sorted(d.keys()))


class NonTermination(Exception):
    pass


class watchdog:
    """`_inc_check` is a while-loop: a broken implementation may never return.  Every run of the real code is
    bounded by WATCHDOG_S seconds of wall time (normal cases take milliseconds)."""

    def _fire(self, *a):
        raise NonTermination()

    def __enter__(self):
        self.old = signal.signal(signal.SIGALRM, self._fire)
        signal.setitimer(signal.ITIMER_REAL, WATCHDOG_S)

    def __exit__(self, *a):
        signal.setitimer(signal.ITIMER_REAL, 0)
        signal.signal(signal.SIGALRM, self.old)
        return False


WATCHDOG_S = 10


def impl(payload):
    try:
        with watchdog():
            return _impl(payload)
    except NonTermination:
        return ["error", "no-answer-within-%ds" % WATCHDOG_S]


def _impl(payload):
    try:
        if payload[0] == "hist":
            nets = [DeltaSimpleTemporalNetwork()]
            trace = []
            for op in payload[1:]:
                if op[0] == "add":
                    n = nets[int(op[1])]
                    n.add(op[2], op[3], pb(op[4]))
                    trace.append("T" if n.check_stn() else "F")
                else:
                    nets.append(nets[int(op[1])].copy_stn())
                    trace.append("T" if nets[-1].check_stn() else "F")
            return [["trace"] + trace, ["nets"] + [net_out(n) for n in nets]]
        if payload[0] == "tree":
            n0 = DeltaSimpleTemporalNetwork()
            for (x, y, b) in payload[1][1:]:
                n0.add(x, y, pb(b))
            pre = net_out(n0)
            leaves = []
            for (x, y, b) in payload[2][1:]:
                c = n0.copy_stn()
                c.add(x, y, pb(b))
                leaves.append(leaf_out(c))
            return [["pre", pre], ["leaves", ";".join(leaves)], ["post", net_out(n0)]]
    except (KeyError, AttributeError, TypeError, IndexError) as e:
        return ["error", type(e).__name__]
    raise ValueError("unknown payload")


# ------------------------------------------------------------------------------------------------
# the property itself (oracle on the real code): Floyd-Warshall reference
# ------------------------------------------------------------------------------------------------

def reference(cons):
    """cons: list of (x, y, b) meaning t(x) - t(y) <= b.  Returns None if infeasible, else the least solution with
    all times >= 0, as dict event -> Fraction."""
    ev = []
    for x, y, _ in cons:
        for e in (x, y):
            if e not in ev:
                ev.append(e)
    INF = None
    D = {u: {v: (0 if u == v else INF) for v in ev} for u in ev}      # exact: Python int / Fraction only
    for x, y, b in cons:        # edge x -> y of weight b on potentials d = -t :  d(y) <= d(x) + b
        if D[x][y] is None or b < D[x][y]:
            D[x][y] = b
    for k in ev:
        Dk = D[k]
        for i in ev:
            ik = D[i][k]
            if ik is None:
                continue
            Di = D[i]
            for j in ev:
                kj = Dk[j]
                if kj is not None and (Di[j] is None or ik + kj < Di[j]):
                    Di[j] = ik + kj
    if any(D[v][v] < 0 for v in ev):
        return None
    out = {}
    for v in ev:
        m = 0
        for u in ev:
            if D[u][v] is not None and D[u][v] < m:
                m = D[u][v]
        out[v] = -m
    return out


def check_net(stn, cons, where):
    """the first two sentences of the property for one network that received exactly `cons`"""
    ref = reference(cons)
    sat = stn.check_stn()
    if sat != (ref is not None):
        return f"{where}: check_stn()={sat} but the inserted constraints are {'feasible' if ref is not None else 'infeasible'}"
    if not sat:
        return None
    try:
        m = {e: stn.get_stn_model(e) for e in ref}
    except KeyError as e:
        return f"{where}: get_stn_model raises KeyError({e}) on an inserted event"
    for x, y, b in cons:
        if m[x] - m[y] > b:
            return f"{where}: reported model violates inserted constraint {x} - {y} <= {b}"
    for e in ref:
        if m[e] < 0:
            return f"{where}: reported model assigns a negative time to {e}"
        if m[e] != ref[e]:
            return f"{where}: reported model is not the least non-negative solution at {e} ({m[e]} vs {ref[e]})"
    if set(stn.distances.keys()) != set(ref.keys()):
        return f"{where}: events of the network differ from the inserted ones"
    return None


def snapshot(stn):
    return (stn.check_stn(), dict(stn.distances), {k: list(v) for k, v in stn.get_constraints().items()})


def oracle(payload):
    try:
        with watchdog():
            return _oracle(payload)
    except NonTermination:
        return "an operation on the network did not return within %d s (no verdict is ever reported)" % WATCHDOG_S
    except (KeyError, AttributeError, TypeError, IndexError) as e:
        return f"the network raised {type(e).__name__}({e}) on a legal history"


def _oracle(payload):
    if payload[0] == "hist":
        nets, lines = [DeltaSimpleTemporalNetwork()], [[]]
        for step, op in enumerate(payload[1:]):
            before = [snapshot(n) for n in nets]
            if op[0] == "add":
                i = int(op[1])
                nets[i].add(op[2], op[3], pb(op[4]))
                lines[i] = lines[i] + [(op[2], op[3], pb(op[4]))]
                touched = i
            else:
                i = int(op[1])
                nets.append(nets[i].copy_stn())
                lines.append(list(lines[i]))
                touched = len(nets) - 1
                if snapshot(nets[-1]) != before[i]:
                    return f"step {step}: a fresh copy differs from the network it was copied from"
            for j, snap in enumerate(before):
                if j != touched and snapshot(nets[j]) != snap:
                    return f"step {step}: network {j} changed although the operation was on network {touched} (copy independence)"
            v = check_net(nets[touched], lines[touched], f"step {step} net {touched}")
            if v:
                return v
        return None
    if payload[0] == "tree":
        n0, pre = DeltaSimpleTemporalNetwork(), []
        for k, (x, y, b) in enumerate(payload[1][1:]):
            n0.add(x, y, pb(b))
            pre.append((x, y, pb(b)))
            v = check_net(n0, pre, f"prefix step {k}")
            if v:
                return v
        snap = snapshot(n0)
        for k, (x, y, b) in enumerate(payload[2][1:]):
            c = n0.copy_stn()
            c.add(x, y, pb(b))
            v = check_net(c, pre + [(x, y, pb(b))], f"extension {k} ({x} {y} {b})")
            if v:
                return v
            if n0.check_stn() != snap[0] or n0.distances != snap[1]:
                return f"extension {k}: inserting into a copy changed the original (copy independence)"
        if snapshot(n0) != snap:
            return "inserting into copies changed the constraints of the original (copy independence)"
        return None
    raise ValueError("unknown payload")


# ------------------------------------------------------------------------------------------------
# generators
# ------------------------------------------------------------------------------------------------

def extensions(nseen, maxev=MAXEV, bounds=BOUNDS):
    """canonical one-step extensions after `nseen` events have been named"""
    out = []
    for xi in range(min(nseen + 1, maxev)):
        n1 = max(nseen, xi + 1)
        for yi in range(min(n1 + 1, maxev)):
            for b in bounds:
                out.append((xi, yi, b))
    return out


def nseen_after(seq):
    n = 0
    for xi, yi, _ in seq:
        n = max(n, xi + 1, yi + 1)
    return n


def prefixes(length):
    """all canonical sequences of exactly `length` insertions (events named in first-appearance order)"""
    def rec(seq, n):
        if len(seq) == length:
            yield list(seq)
            return
        for (xi, yi, b) in extensions(n):
            seq.append((xi, yi, b))
            yield from rec(seq, max(n, xi + 1, yi + 1))
            seq.pop()
    yield from rec([], 0)


def tree_case(seq):
    n = nseen_after(seq)
    return ["tree", ["pre"] + [[NAMES[x], NAMES[y], str(b)] for x, y, b in seq],
            ["ext"] + [[NAMES[x], NAMES[y], str(b)] for x, y, b in extensions(n)]]


def random_prefix(rng, length):
    """random canonical prefix, biased (80%) towards staying feasible so that deep prefixes are not all dead"""
    seq, n = [], 0
    keep_sat = rng.random() < 0.8
    for _ in range(length):
        for _try in range(6):
            e = rng.choice(extensions(n))
            if not keep_sat or reference([(NAMES[x], NAMES[y], b) for x, y, b in seq + [e]]) is not None:
                break
        seq.append(e)
        n = max(n, e[0] + 1, e[1] + 1)
    return seq


def rand_bound(rng):
    r = rng.random()
    if r < 0.5:
        return str(rng.randint(-5, 10))
    if r < 0.8:
        return rs(Fraction(rng.randint(-20, 40), rng.choice([2, 3, 4, 7])))
    if r < 0.88:
        return f"{rng.randint(-6, 12)}/1"            # a Fraction with denominator 1 (mixed int/Fraction arithmetic)
    if r < 0.94:
        return str(rng.choice([-1, 1]) * (10 ** 20 + rng.randint(0, 3)))
    return rs(Fraction(rng.randint(-10 ** 12, 10 ** 12), 10 ** 9 + 7))


def hist_case(rng, nops):
    nev = rng.choice([2, 3, 4, 5, 6, 8])
    evs = NAMES[:nev]
    sched = {e: Fraction(rng.randint(0, 12), rng.choice([1, 1, 2, 3])) for e in evs}
    p_sched = rng.choice([0.0, 0.6, 0.8, 0.95, 1.0, 1.0])
    p_copy = rng.choice([0.0, 0.08, 0.15])
    ops, nnets, last = [], 1, None
    for _ in range(nops):
        r = rng.random()
        if r < p_copy and nnets < 8:
            ops.append(["copy", str(rng.randrange(nnets))])
            nnets += 1
            continue
        i = rng.randrange(nnets) if rng.random() < 0.5 else nnets - 1
        r = rng.random()
        if last is not None and r < 0.15:
            # same pair again with a smaller / larger / equal bound (subsumption paths)
            x, y, b = last
            nb = pb(b) + rng.choice([-2, -1, Fraction(-1, 2), 0, 1, 3])
            c = [x, y, rs(nb)]
        elif r < 0.15 + 0.05:
            x = rng.choice(evs)
            c = [x, x, rand_bound(rng)]                                  # self loop
        elif rng.random() < p_sched:
            x, y = rng.sample(evs, 2) if nev > 1 else (evs[0], evs[0])
            slack = rng.choice([0, 0, 0, 1, Fraction(1, 2), 5])
            c = [x, y, rs(sched[x] - sched[y] + slack)]              # satisfied by the hidden schedule
        else:
            x, y = rng.choice(evs), rng.choice(evs)
            c = [x, y, rand_bound(rng)]
        last = c
        ops.append(["add", str(i)] + c)
    return ["hist"] + ops


def cases(rng, tier):
    quick = tier == "quick"
    # exhaustive part
    for L in ([0, 1, 2] if quick else [0, 1, 2, 3]):
        for seq in prefixes(L):
            yield tree_case(seq)
    # sampled deeper trees
    for L, n in ([(3, 2000), (4, 1000), (5, 500)] if quick else [(4, 6000), (5, 3000), (6, 1500)]):
        for _ in range(n):
            yield tree_case(random_prefix(rng, L))
    # random histories with copies and rational bounds
    nh, nops = (600, 30) if quick else (3000, 200)
    for _ in range(nh):
        yield hist_case(rng, rng.choice([nops // 3, nops, nops]))


def search(rng, tier):
    """failing-input search stream: short exhaustive trees first, then random trees and histories"""
    for L in (0, 1, 2):
        for seq in prefixes(L):
            yield tree_case(seq)
    while True:
        yield tree_case(random_prefix(rng, rng.choice([3, 3, 4, 5])))
        yield hist_case(rng, rng.choice([8, 20, 40]))


def nontrivial(payload, ans):
    if ans and ans[0] == "error":
        return False
    if payload[0] == "tree":
        leaves = ans[1][1].split(";")
        kinds = set(l[0] for l in leaves)
        moved = any(l[0] == "S" and any(v not in ("0", "") for v in l[1:].split(",")) for l in leaves)
        return len(kinds) == 2 or moved
    tr = ans[0][1:]
    moved = any(n[1] == "T" and any(d[1] != "0" for d in n[2][1:]) for n in ans[1][1:])
    return ("T" in tr and "F" in tr) or moved


def stats(payload, ans):
    if ans and ans[0] == "error":
        return ["error:" + ans[1]]
    if payload[0] == "tree":
        leaves = ans[1][1].split(";")
        u = sum(1 for l in leaves if l == "U")
        t = [f"tree-pre{len(payload[1]) - 1}", "pre-sat" if ans[0][1][1] == "T" else "pre-unsat"]
        if ans[0][1][1] == "T":
            t.append("leaves-unsat:" + ("0" if u == 0 else "<25%" if 4 * u < len(leaves) else ">=25%"))
        return t
    tr = ans[0][1:]
    nets = ans[1][1:]
    t = ["hist", f"hist-nets{min(len(nets), 4)}{'+' if len(nets) > 4 else ''}"]
    t.append("hist-ends-" + ("mixed" if len(set(n[1] for n in nets)) == 2 else "sat" if nets[0][1] == "T" else "unsat"))
    if any("/" in op[-1] for op in payload[1:] if op[0] == "add"):
        t.append("hist-rational")
    return t


def shrink(payload):
    if payload[0] == "tree":
        pre, ext = payload[1][1:], payload[2][1:]
        if len(ext) > 1:
            for e in ext:
                yield ["tree", ["pre"] + pre, ["ext", e]]
        for i in range(len(pre)):
            yield ["tree", ["pre"] + pre[:i] + pre[i + 1:], ["ext"] + ext]
        return
    ops = payload[1:]
    # drop a suffix, then single adds, then copies nobody refers to
    for k in range(len(ops) - 1, 0, -1):
        yield ["hist"] + ops[:k]
    for i, op in enumerate(ops):
        if op[0] == "add":
            yield ["hist"] + ops[:i] + ops[i + 1:]
    ncopies = sum(1 for op in ops if op[0] == "copy")
    for i, op in enumerate(ops):
        if op[0] == "copy":
            idx = 1 + sum(1 for o in ops[:i] if o[0] == "copy")     # index of the network this copy creates
            rest = []
            ok = True
            for o in ops[i + 1:]:
                j = int(o[1])
                if j == idx:
                    ok = False
                    break
                rest.append([o[0], str(j - 1 if j > idx else j)] + o[2:])
            if ok:
                yield ["hist"] + ops[:i] + rest
    for i, op in enumerate(ops):
        if op[0] == "add" and ("/" in op[4] or abs(pb(op[4])) > 9):
            yield ["hist"] + ops[:i] + [op[:4] + [str(int(pb(op[4])) % 7)]] + ops[i + 1:]


MANIFEST = {
    "level_text": ("Lean 4 theorems (Props/C25.lean) about an executable model of DeltaSimpleTemporalNetwork (Core/STN.lean: "
                   "add, _is_subsumed, _inc_check with its FIFO queue, copy_stn, get_stn_model, get_constraints; epsilon=0), proved "
                   "for every insertion history with rational bounds by invariants of the relaxation loop: consistent verdict => "
                   "the reported model satisfies every inserted constraint (subsumed ones included), is non-negative and is the "
                   "pointwise least non-negative solution; inconsistent verdict => no assignment satisfies the inserted "
                   "constraints; every network of a history with copies equals a fresh network fed with its own lineage only; "
                   "_inc_check terminates on every history (lattice/potential argument) and the result is independent of the fuel. "
                   "The model is tied to the code by a differential check (exhaustive short insertion sequences modulo renaming, "
                   "random rational histories with copies) plus a Floyd-Warshall oracle of the property on the real class."),
    "level_note": ("All clauses proved at full strength for the model (no size bounds, termination included). Trusted: Lean kernel; "
                   "axioms propext, Classical.choice, Quot.sound; the correspondence harness. Modelled not verified: Python "
                   "dict/deque/Fraction; epsilon fixed to 0 (the class default); floats excluded."),
    "technique": "Lean 4 proof over a hand-written executable model + model/code correspondence",
    "design_ref": "DESIGN.md §5 C25",
}
