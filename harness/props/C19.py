"""C19 — ANML write/read round trip preserves problem semantics.

Wire format of a case (model syntax of lean/UPVerif/Core/AnmlSyntax.lean):

  (aproblem (types (T _) (S T) …)
            (fluents ((name type (sigtype…)) (pname…)) …)
            (objects (o T) …)
            (init (fluent-exp const) …)                     -- explicit values + per-fluent defaults (generator side only)
            (defaults (fluentname const) …)                 -- generator side only; the model receives `init` expanded
            (actions (inst name ((p type)…) (pre e…) (effs eff…))
                     (dur name ((p type)…) (duration lo hi lopen ropen) (conds (interval e)…) (effs (timing eff)…)) …)
            (timed-effects (timing eff) …) (goals e…) (timed-goals (interval e)…) (invariants e…))
  timing   ::= (s|e|gs|ge q)          interval ::= (iv timing timing lopen ropen)
  eff      ::= (eff assign|increase|decrease fluent-exp value cond ((v type)…))

payload = (rt <aproblem>)
"""
import hashlib
import re
import warnings
from collections import OrderedDict
from fractions import Fraction
from itertools import product

warnings.simplefilter("ignore")
import unified_planning as up
import unified_planning.io.anml_writer as anml_writer_mod
from unified_planning.engines.sequential_simulator import UPSequentialSimulator
from unified_planning.exceptions import UPUsageError
from unified_planning.io import ANMLReader, ANMLWriter
from unified_planning.model import (DurativeAction, Fluent, InstantaneousAction, Problem, TimeInterval, Timepoint,
                                    TimepointKind, Timing)
from unified_planning.model.fluent import get_all_fluent_exp
from unified_planning.model.timing import DurationInterval
from unified_planning.model.operators import OperatorKind as OK

import sexp
import upp
import upx
from upx import enc_expr, enc_ty, q2s

ID = "C19"
GEN = []
CORR_NAME = "writer-tokens+reader-result"
EXTRA_PROPS = ["UPVerif.Props.C19Types"]
RULE = ("problems of the ANML fragment: the classical/numeric generator of harness/upp.py (quantifiers, conditional / universal / "
        "increase / decrease effects, defaults, state invariants) whose numeric types are DRAWN PER PROBLEM in 3 of 4 cases (for the "
        "value types of the fluents, the integer parameter of a fluent, the integer / real parameters of the actions: 12 shapes per "
        "kind -- upper bound 0, lower bound 0, [0,0], equal bounds, one-sided with and without 0, negative-only, positive-only, 0 "
        "inside, bounds of up to 19 digits, and for the reals fractional bounds around 0 and large denominators -- with initial values, "
        "assigned constants and increments chosen at and next to the bounds), type-table problems (about 9 numeric declarations each, the "
        "shapes dealt from a shuffled deck so that every run sends every shape through the real reader, plus probe actions that "
        "assign a value just across / exactly on a bound) and a temporal generator (durative actions with fixed / open / closed duration bounds, conditions over "
        "point / open / closed intervals with delays, effects at delayed timings, timed effects and goals), both renamed with "
        "adversarial identifiers (keywords, keyword prefixes, leading digits, symbols, clashes after mangling); plus every bundled "
        "example problem the ANML writer supports.  Non-trivial = writer and reader both succeed and the problem has at least one "
        "action with an effect and one compound expression.")
ASSUMPTIONS = [
    "ASCII identifiers; names are unique within the problem (the default error_used_name=True environment)",
    "the expressions handed to the model are the writer's own simplifications (Simplifier is C11's; it is applied by the real code "
    "on both sides and by the harness before the model sees an expression); the reader's final simplify() is likewise applied by the "
    "harness to the model's raw result before comparing",
    "the expansion of defaults into ground initial values (Problem.initial_values) is an input of the model",
    "every ground fluent has an initial value: writer and reader simplify every expression, and simplification is meaning-preserving "
    "on total states only (x or true becomes true and no longer reads an undefined x; C11 is stated for total interpretations)",
    "the writer's renaming (names_mapping) is observed on the real run and handed to the model as a table (C38 proves it valid and injective); "
    "the model checks both on the table it receives",
    "timed effects at global start + 0 are outside the fragment (the writer prints them like initial values)",
    "effects whose condition is not TRUE but simplifies to TRUE or FALSE, or whose forall variables disappear under simplification, are "
    "outside the fragment (the writer decides `when`/`forall` on the unsimplified effect and prints the simplified one)",
    "fluent parameters are of user types or of a bounded integer type with at most 4 values; quantified variables range over user types; "
    "no metrics, no trajectory constraints other than state invariants (the ANML writer prints neither)",
    "equivalence of the re-read problem includes its declarations: the value type and the parameter types of every fluent and the "
    "parameter types of every action are compared as values (kind, lower bound, upper bound; absent = unbounded), because a bounded "
    "type is a state invariant of the simulator and decides which arguments an action accepts; behaviourally, arguments at, next to "
    "and just outside the bounds of a numeric parameter are tried on both problems and must be accepted / refused alike",
]
MODELLED = ["modelled by hand, tied by correspondence: ANMLWriter._write_problem, ConverterToANMLString.walk_*, _convert_effect, "
            "_convert_anml_timing/_interval, the numeric type names of _get_anml_name; ANMLReader._parse_problem and the functions it calls "
            "(semantic actions on the parsed statements)",
            "modelled as a recursive-descent parser of the writer's fragment, not verified: pyparsing and anml_grammar.py",
            "not modelled (parameters): Simplifier (C11), name mangling (C38), Problem.initial_values, networkx topological sort of types"]
BUDGET_S = {"quick": 45, "thorough": 420}

KEYWORDS = sorted(anml_writer_mod.ANML_KEYWORDS)

# ------------------------------------------------------------------------------------------------
# wire format <-> real objects
# ------------------------------------------------------------------------------------------------

TP = {"gs": TimepointKind.GLOBAL_START, "ge": TimepointKind.GLOBAL_END, "s": TimepointKind.START, "e": TimepointKind.END}
TP_INV = {v: k for k, v in TP.items()}
B = sexp.B


def mk_timing(s):
    q = Fraction(s[1])
    return Timing(q.numerator if q.denominator == 1 else q, Timepoint(TP[s[0]]))


def enc_timing(t):
    return [TP_INV[t.timepoint.kind], q2s(t.delay)]


def mk_interval(s):
    return TimeInterval(mk_timing(s[1]), mk_timing(s[2]), s[3] == "T", s[4] == "T")


def enc_interval(i):
    return ["iv", enc_timing(i.lower), enc_timing(i.upper), B(i.is_left_open()), B(i.is_right_open())]


class Ctx19(upx.Ctx):
    """upx.Ctx whose fluents carry the declared parameter names"""

    def __init__(self, types=()):
        super().__init__(types)
        self.env.error_used_name = True
        self.pnames = {}

    def fluent(self, ref):
        k = self._key(ref)
        if k not in self.fluents:
            names = self.pnames.get(ref[0]) or [f"a{i}" for i in range(len(ref[2]))]
            sig = OrderedDict((n, self.ty(t)) for n, t in zip(names, ref[2]))
            self.fluents[k] = Fluent(ref[0], self.ty(ref[1]), sig, self.env)
        return self.fluents[k]


def get(ps, key):
    for s in ps[1:]:
        if isinstance(s, list) and s and s[0] == key:
            return s[1:]
    raise KeyError(key)


def add_effect(target, timing, e, ctx):
    _, kind, f, v, c, vs = e
    forall = tuple(ctx.var(n, t) for n, t in vs)
    name = {"assign": "add_effect", "increase": "add_increase_effect", "decrease": "add_decrease_effect"}[kind]
    fn = getattr(target, name)
    if timing is None:
        fn(ctx.expr(f), ctx.expr(v), ctx.expr(c), forall=forall)
    else:
        fn(timing, ctx.expr(f), ctx.expr(v), ctx.expr(c), forall=forall)


def build(ps):
    """wire format -> (real Problem, ctx).  Raises whatever the library raises for an ill-formed problem."""
    types = [(n, None if f == "_" else f) for n, f in get(ps, "types")]
    ctx = Ctx19(types)
    P = Problem("p", ctx.env)
    for ref, pn in get(ps, "fluents"):
        ctx.pnames[ref[0]] = list(pn)
    dflt = {n: v for n, v in get(ps, "defaults")} if any(s and s[0] == "defaults" for s in ps[1:] if isinstance(s, list)) else {}
    for n, f in types:
        P._add_user_type(ctx.utypes[n])
    for ref, pn in get(ps, "fluents"):
        fl = ctx.fluent(ref)
        if ref[0] in dflt:
            P.add_fluent(fl, default_initial_value=ctx.expr(dflt[ref[0]]))
        else:
            P.add_fluent(fl)
    for n, t in get(ps, "objects"):
        P.add_object(ctx.obj(n, t))
    for f, v in get(ps, "init"):
        P.set_initial_value(ctx.expr(f), ctx.expr(v))
    for a in get(ps, "actions"):
        if a[0] == "inst":
            _, name, params, pre, effs = a
            act = InstantaneousAction(name, OrderedDict((pn, ctx.ty(pt)) for pn, pt in params), ctx.env)
            for c in pre[1:]:
                act.add_precondition(ctx.expr(c))
            for e in effs[1:]:
                add_effect(act, None, e, ctx)
        else:
            _, name, params, dur, conds, effs = a
            act = DurativeAction(name, OrderedDict((pn, ctx.ty(pt)) for pn, pt in params), ctx.env)
            act.set_duration_constraint(DurationInterval(ctx.expr(dur[1]), ctx.expr(dur[2]), dur[3] == "T", dur[4] == "T"))
            for iv, c in conds[1:]:
                act.add_condition(mk_interval(iv), ctx.expr(c))
            for t, e in effs[1:]:
                add_effect(act, mk_timing(t), e, ctx)
        P.add_action(act)
    for t, e in get(ps, "timed-effects"):
        add_effect_problem(P, mk_timing(t), e, ctx)
    for g in get(ps, "goals"):
        P.add_goal(ctx.expr(g))
    for iv, g in get(ps, "timed-goals"):
        P.add_timed_goal(mk_interval(iv), ctx.expr(g))
    for i in get(ps, "invariants"):
        P.add_state_invariant(ctx.expr(i))
    return P, ctx


def add_effect_problem(P, timing, e, ctx):
    _, kind, f, v, c, vs = e
    forall = tuple(ctx.var(n, t) for n, t in vs)
    fn = {"assign": P.add_timed_effect, "increase": P.add_increase_effect, "decrease": P.add_decrease_effect}[kind]
    fn(timing, ctx.expr(f), ctx.expr(v), ctx.expr(c), forall=forall)


def enc_effect(e, fx):
    return ["eff", "assign" if e.is_assignment() else "increase" if e.is_increase() else "decrease",
            fx(e.fluent), fx(e.value), fx(e.condition), [[v.name, enc_ty(v.type)] for v in e.forall]]


def enc_prob(P, simplify=False, expand_init=True):
    """real Problem -> wire format (what the writer iterates over, in its iteration order).
    simplify: every expression slot is passed through the real Simplifier first (as ConverterToANMLString.convert does)."""
    simp = P.environment.simplifier.simplify
    fx = (lambda e: enc_expr(simp(e))) if simplify else enc_expr
    types = [[t.name, t.father.name if t.father is not None else "_"] for t in P.user_types]
    fl = [[[f.name, enc_ty(f.type), [enc_ty(p.type) for p in f.signature]], [p.name for p in f.signature]] for f in P.fluents]
    ivs = P.initial_values if expand_init else P.explicit_initial_values
    acts = []
    for a in P.actions:
        params = [[p.name, enc_ty(p.type)] for p in a.parameters]
        if isinstance(a, InstantaneousAction):
            acts.append(["inst", a.name, params, ["pre"] + [fx(c) for c in a.preconditions],
                         ["effs"] + [enc_effect(e, fx) for e in a.effects]])
        elif isinstance(a, DurativeAction):
            d = a.duration
            acts.append(["dur", a.name, params, ["duration", fx(d.lower), fx(d.upper), B(d.is_left_open()), B(d.is_right_open())],
                         ["conds"] + [[enc_interval(i), fx(c)] for i, cl in a.conditions.items() for c in cl],
                         ["effs"] + [[enc_timing(t), enc_effect(e, fx)] for t, el in a.effects.items() for e in el]])
        else:
            raise ValueError("action kind outside the wire format")
    invs = []
    for t in P.trajectory_constraints:
        if t.node_type != OK.ALWAYS:
            raise ValueError("trajectory constraint outside the wire format")
        invs.append(fx(t.arg(0)))
    return ["aproblem", ["types"] + types, ["fluents"] + fl, ["objects"] + [[o.name, o.type.name] for o in P.all_objects],
            ["init"] + [[fx(f), fx(v)] for f, v in ivs.items()],
            ["actions"] + acts,
            ["timed-effects"] + [[enc_timing(t), enc_effect(e, fx)] for t, el in P.timed_effects.items() for e in el],
            ["goals"] + [fx(g) for g in P.goals],
            ["timed-goals"] + [[enc_interval(i), fx(g)] for i, gl in P.timed_goals.items() for g in gl],
            ["invariants"] + invs]


# ------------------------------------------------------------------------------------------------
# text <-> tokens
# ------------------------------------------------------------------------------------------------

TOKEN_RE = re.compile(r"\s+|//[^\n]*|(?P<dec>\d+\.\d+)|(?P<num>\d+)|(?P<word>[A-Za-z_][A-Za-z0-9_]*)|(?P<str>\"[^\"\n]*\")"
                      r"|(?P<sym>:=|:increase|:decrease|::|<=|>=|==|!=|[-+*/<>(){}\[\],;:.])")


def tokenize(text):
    """ANML text -> flat token list.  (id s) identifiers, (kw s) ANML keywords, (num n), (dec i frac digits), (str s), (sym s)"""
    out, i = [], 0
    while i < len(text):
        m = TOKEN_RE.match(text, i)
        if m is None:
            raise ValueError(f"untokenisable text at {text[i:i + 20]!r}")
        i = m.end()
        if m.lastgroup == "dec":
            a, b = m.group("dec").split(".")
            out.append(["dec", str(int(a)), str(int(b)), str(len(b))])
        elif m.lastgroup == "num":
            out.append(["num", str(int(m.group("num")))])
        elif m.lastgroup == "word":
            w = m.group("word")
            out.append(["kw" if w in anml_writer_mod.ANML_KEYWORDS else "id", w])
        elif m.lastgroup == "str":
            out.append(["str", m.group("str")[1:-1]])
        elif m.lastgroup == "sym":
            out.append(["sym", m.group("sym")])
    return out


def render(tokens):
    """tokens -> ANML text: one blank between tokens, a newline after every `;`; `-` sticks to what follows and `/` to both
    neighbours (the bounds of the numeric types are single lexemes: `-2`, `5/2`)"""
    parts = []
    for t in tokens:
        if t[0] == "dec":
            parts.append(f"{t[1]}.{int(t[2]):0{int(t[3])}d}")
        elif t[0] == "str":
            parts.append(f'"{t[1]}"')
        elif t == ["sym", "/"]:
            if parts and parts[-1] == " ":
                parts.pop()
            parts.append("/")
            continue
        elif t == ["sym", "-"]:
            parts.append("-")
            continue
        else:
            parts.append(t[1])
        parts.append("\n" if t == ["sym", ";"] else " ")
    return "".join(parts)


# ------------------------------------------------------------------------------------------------
# the real writer, observed
# ------------------------------------------------------------------------------------------------

def item_key(item):
    """key of a names_mapping entry in the renaming table handed to the model"""
    if isinstance(item, up.model.Type):
        if item.is_user_type():
            return ["type", item.name]
        return None
    if isinstance(item, up.model.Action):
        return ["action", item.name]
    if isinstance(item, up.model.Fluent):
        return ["fluent", item.name]
    if isinstance(item, up.model.Object):
        return ["object", item.name]
    if isinstance(item, up.model.Parameter):
        return ["param", item.name, enc_ty(item.type)]
    if isinstance(item, up.model.Variable):
        return ["var", item.name, enc_ty(item.type)]
    raise ValueError(f"unexpected item {item!r}")


def write_observed(P):
    """(text, renaming table) of the real ANMLWriter; the table is read off the calls of _get_anml_name"""
    table = OrderedDict()
    orig = anml_writer_mod._get_anml_name

    def spy(item, names_mapping):
        r = orig(item, names_mapping)
        k = item_key(item)
        if k is not None:
            table[sexp.dumps(k)] = (k, r)
        return r
    anml_writer_mod._get_anml_name = spy
    try:
        text = ANMLWriter(P).get_problem()
    finally:
        anml_writer_mod._get_anml_name = orig
    # objects / fluents / actions that were never asked for keep no entry (they are not printed)
    return text, [[k, r] for k, r in table.values()]


def read_back(text):
    return ANMLReader().parse_problem_string(text, "p")


_cache = {}


def run_real(payload):
    """build, write (observed), tokenise, read.  Cached per payload (impl, model_payload and oracle share it)."""
    key = sexp.dumps(payload)
    if key in _cache:
        return _cache[key]
    if len(_cache) > 64:
        _cache.clear()
    r = {"error": None}
    try:
        P, ctx = build(payload[1])
        r["P"] = P
    except Exception as e:
        r["error"] = ["build-error", type(e).__name__]
        _cache[key] = r
        return r
    try:
        text, ren = write_observed(P)
        r["text"], r["ren"] = text, ren
        r["tokens"] = tokenize(text)
    except Exception as e:
        r["error"] = ["write-error", type(e).__name__]
        _cache[key] = r
        return r
    if payload[0] == "w":
        _cache[key] = r
        return r
    try:
        r["Q"] = read_back(render(r["tokens"]))
    except Exception as e:
        r["error"] = ["read-error", type(e).__name__]
        r["detail"] = str(e)[:300]
    _cache[key] = r
    return r


def canon_q(q):
    """the re-read problem as compared between model and code: user types as a sorted set (the real order is by first use)"""
    out = []
    for s in q:
        if isinstance(s, list) and s and s[0] == "types":
            out.append(["types"] + sorted(s[1:]))
        else:
            out.append(s)
    return out


_light = {}


def _answers(payload):
    """(impl answer, model payload) of one case, computed on ONE run of the real code and kept for the whole check: the order of
    the variables of a simplified quantifier comes out of a Python set of objects of the case's own Environment, so two builds of
    one payload need not print them in the same order"""
    key = sexp.dumps(payload)
    if key in _light:
        return _light[key]
    r = run_real(payload)
    if r["error"] and r["error"][0] in ("build-error", "write-error"):
        out = (r["error"], ["skip", r["error"]])
    else:
        mp = [payload[0], enc_prob(r["P"], simplify=True), ["ren"] + r["ren"]]
        if payload[0] == "w":
            ans = [["tokens"] + r["tokens"]]
        elif r["error"]:
            ans = [["tokens"] + r["tokens"], r["error"]]
        else:
            ans = [["tokens"] + r["tokens"], ["reread", canon_q(enc_prob(r["Q"], expand_init=False))]]
        out = (ans, mp)
    _light[key] = out
    return out


def impl(payload):
    return _answers(payload)[0]


def model_payload(payload):
    return _answers(payload)[1]


# -- the model returns raw (unsimplified) expressions: apply the real Simplifier where the reader does ------------

def _simp_expr(ctx, e):
    return enc_expr(ctx.expr(e).simplify())


def _simp_eff(ctx, e):
    _, kind, f, v, c, vs = e
    if vs and c[0] == "and" and len(c) == 3 and c[2] == ["b", "T"]:
        # forall + when: the reader builds And(simplified condition, TRUE) and does not simplify again
        cc = ["and", _simp_expr(ctx, c[1]), ["b", "T"]]
    else:
        cc = _simp_expr(ctx, c)
    return ["eff", kind, _simp_expr(ctx, f), _simp_expr(ctx, v), cc, vs]


def simplify_reread(q):
    types = [(n, None if f == "_" else f) for n, f in get(q, "types")]
    # fathers first for Ctx
    order, names = [], set()
    while len(order) < len(types):
        progressed = False
        for n, f in types:
            if n not in names and (f is None or f in names):
                order.append((n, f))
                names.add(n)
                progressed = True
        if not progressed:
            raise ValueError("type hierarchy of the model answer is not a forest")
    ctx = Ctx19(order)
    for ref, pn in get(q, "fluents"):
        ctx.pnames[ref[0]] = list(pn)
    sx = lambda e: _simp_expr(ctx, e)
    acts = []
    for a in get(q, "actions"):
        if a[0] == "inst":
            acts.append(["inst", a[1], a[2], ["pre"] + [sx(c) for c in a[3][1:]], ["effs"] + [_simp_eff(ctx, e) for e in a[4][1:]]])
        else:
            d = a[3]
            acts.append(["dur", a[1], a[2], ["duration", sx(d[1]), sx(d[2]), d[3], d[4]],
                         ["conds"] + [[iv, sx(c)] for iv, c in a[4][1:]], ["effs"] + [[t, _simp_eff(ctx, e)] for t, e in a[5][1:]]])
    return ["aproblem", ["types"] + get(q, "types"), ["fluents"] + get(q, "fluents"), ["objects"] + get(q, "objects"),
            ["init"] + [[sx(f), sx(v)] for f, v in get(q, "init")], ["actions"] + acts,
            ["timed-effects"] + [[t, _simp_eff(ctx, e)] for t, e in get(q, "timed-effects")],
            ["goals"] + [sx(g) for g in get(q, "goals")],
            ["timed-goals"] + [[iv, sx(g)] for iv, g in get(q, "timed-goals")],
            ["invariants"] + [sx(i) for i in get(q, "invariants")]]


def group_by_key(pairs):
    """flat (key, x) list -> stable grouping by key (Python dict insertion order), flattened again"""
    d = OrderedDict()
    for k, x in pairs:
        d.setdefault(sexp.dumps(k), []).append([k, x])
    return [p for l in d.values() for p in l]


def dict_order(q):
    """what a Python dict does to the flat lists of the model's re-read problem: group by timing / interval, first value wins the position"""
    out = []
    for s in q:
        if isinstance(s, list) and s and s[0] in ("timed-effects", "timed-goals"):
            out.append([s[0]] + group_by_key(s[1:]))
        elif isinstance(s, list) and s and s[0] == "actions":
            acts = []
            for a in s[1:]:
                if a[0] == "dur":
                    a = a[:4] + [["conds"] + group_by_key(a[4][1:]), ["effs"] + group_by_key(a[5][1:])]
                acts.append(a)
            out.append(["actions"] + acts)
        elif isinstance(s, list) and s and s[0] == "init":
            d = OrderedDict()
            for f, v in s[1:]:
                d[sexp.dumps(f)] = [f, v]
            out.append(["init"] + list(d.values()))
        else:
            out.append(s)
    return out


def sort_qvars(e):
    """variable lists of quantifiers, sorted (their order after Simplifier.walk_exists/forall is a set order)"""
    if isinstance(e, list):
        if len(e) == 3 and e[0] in ("exists", "forall") and isinstance(e[1], list):
            return [e[0], sorted(e[1], key=repr), sort_qvars(e[2])]
        return [sort_qvars(x) for x in e]
    return e


def compare(model_ans, impl_ans):
    if not (isinstance(model_ans, list) and isinstance(impl_ans, list) and len(model_ans) == 2 and len(impl_ans) == 2
            and model_ans[0] and model_ans[0][0] == "tokens"):
        return model_ans == impl_ans      # errors and writer-only cases
    if model_ans[0] != impl_ans[0]:
        return False
    m, a = model_ans[1], impl_ans[1]
    if m and m[0] == "reread" and a and a[0] == "reread":
        try:
            return sort_qvars(canon_q(dict_order(simplify_reread(m[1])))) == sort_qvars(a[1])
        except Exception:
            return False
    if m and m[0] == "read-error" and a and a[0] == "read-error":
        return True
    return m == a


# ------------------------------------------------------------------------------------------------
# generator
# ------------------------------------------------------------------------------------------------

ADVERSARIAL = ["start", "end", "all", "when", "type", "and", "not", "forall", "exists", "duration", "goal", "fluent", "constant",
               "action", "instance", "true", "false", "infinity", "integer", "float", "boolean", "in", "or", "implies", "object",
               "2u", "4ction", "a-b", "a_b", "a b", "goal_x", "notx", "not_", "forall_", "typeT", "startx", "end_", "start_",
               "x_0", "x_1", "f_2u", "o_2u", "UNDEFINED", "Object", "with", "xor", "set", "in_", "when_0", "_x", "x.y", "a_b_0",
               "rational", "Start", "END", "p_2u", "x__", "f_", "t-1", "t_1", "9", "o_9", "a", "f", "p", "o", "x"]


def rename_sexp(e, m):
    """apply the identifier substitution m (kind -> {old: new}) to a wire-format problem"""
    def ty(t):
        if isinstance(t, list) and t and t[0] == "user":
            return ["user", m["type"].get(t[1], t[1])]
        return t

    def ref(r):
        return [m["fluent"].get(r[0], r[0]), ty(r[1]), [ty(t) for t in r[2]]]

    def ex(x):
        h = x[0]
        if h in ("b", "i", "r"):
            return x
        if h == "o":
            return ["o", m["object"].get(x[1], x[1]), m["type"].get(x[2], x[2])]
        if h == "p":
            return ["p", m["param"].get(x[1], x[1]), ty(x[2])]
        if h == "v":
            return ["v", m["var"].get(x[1], x[1]), ty(x[2])]
        if h == "fl":
            return ["fl", ref(x[1])] + [ex(a) for a in x[2:]]
        if h in ("exists", "forall"):
            return [h, [[m["var"].get(n, n), ty(t)] for n, t in x[1]], ex(x[2])]
        return [h] + [ex(a) for a in x[1:]]

    def eff(x):
        return ["eff", x[1], ex(x[2]), ex(x[3]), ex(x[4]), [[m["var"].get(n, n), ty(t)] for n, t in x[5]]]

    def params(ps):
        return [[m["param"].get(n, n), ty(t)] for n, t in ps]

    acts = []
    for a in get(e, "actions"):
        if a[0] == "inst":
            acts.append(["inst", m["action"].get(a[1], a[1]), params(a[2]), ["pre"] + [ex(c) for c in a[3][1:]],
                         ["effs"] + [eff(x) for x in a[4][1:]]])
        else:
            d = a[3]
            acts.append(["dur", m["action"].get(a[1], a[1]), params(a[2]), ["duration", ex(d[1]), ex(d[2]), d[3], d[4]],
                         ["conds"] + [[iv, ex(c)] for iv, c in a[4][1:]], ["effs"] + [[t, eff(x)] for t, x in a[5][1:]]])
    return ["aproblem",
            ["types"] + [[m["type"].get(n, n), "_" if f == "_" else m["type"].get(f, f)] for n, f in get(e, "types")],
            ["fluents"] + [[ref(r), [m["param"].get(n, n) for n in pn]] for r, pn in get(e, "fluents")],
            ["objects"] + [[m["object"].get(n, n), m["type"].get(t, t)] for n, t in get(e, "objects")],
            ["init"] + [[ex(f), ex(v)] for f, v in get(e, "init")],
            ["defaults"] + [[m["fluent"].get(n, n), ex(v)] for n, v in get(e, "defaults")],
            ["actions"] + acts,
            ["timed-effects"] + [[t, eff(x)] for t, x in get(e, "timed-effects")],
            ["goals"] + [ex(g) for g in get(e, "goals")],
            ["timed-goals"] + [[iv, ex(g)] for iv, g in get(e, "timed-goals")],
            ["invariants"] + [ex(i) for i in get(e, "invariants")]]


def names_of(e):
    """identifiers of a wire-format problem, per kind"""
    out = {"type": [], "fluent": [], "object": [], "action": [], "param": [], "var": []}

    def add(k, n):
        if n not in out[k]:
            out[k].append(n)

    def ex(x):
        if not isinstance(x, list) or not x:
            return
        h = x[0]
        if h == "p":
            add("param", x[1])
        elif h == "v":
            add("var", x[1])
        elif h in ("exists", "forall"):
            for n, _ in x[1]:
                add("var", n)
            ex(x[2])
        elif h == "fl":
            for a in x[2:]:
                ex(a)
        elif h not in ("b", "i", "r", "o"):
            for a in x[1:]:
                ex(a)

    def eff(x):
        ex(x[2]), ex(x[3]), ex(x[4])
        for n, _ in x[5]:
            add("var", n)
    for n, _ in get(e, "types"):
        add("type", n)
    for r, pn in get(e, "fluents"):
        add("fluent", r[0])
        for n in pn:
            add("param", n)
    for n, _ in get(e, "objects"):
        add("object", n)
    for a in get(e, "actions"):
        add("action", a[1])
        for n, _ in a[2]:
            add("param", n)
        if a[0] == "inst":
            for c in a[3][1:]:
                ex(c)
            for x in a[4][1:]:
                eff(x)
        else:
            ex(a[3][1]), ex(a[3][2])
            for _, c in a[4][1:]:
                ex(c)
            for _, x in a[5][1:]:
                eff(x)
    for _, x in get(e, "timed-effects"):
        eff(x)
    for g in get(e, "goals") + get(e, "invariants"):
        ex(g)
    for _, g in get(e, "timed-goals"):
        ex(g)
    return out


def adversarial_names(rng, e, rate):
    """injective substitution of identifiers; the global kinds (type, fluent, object, action) never share a new name
    (the default environment rejects that), parameters and variables may collide with anything"""
    names = names_of(e)
    taken = set(n for k in ("type", "fluent", "object", "action") for n in names[k])
    m = {k: {} for k in names}
    for k in ("type", "fluent", "object", "action"):
        for n in names[k]:
            if rng.random() < rate:
                cand = rng.choice(ADVERSARIAL)
                if cand not in taken:
                    taken.discard(n)
                    taken.add(cand)
                    m[k][n] = cand
    for k in ("param", "var"):
        used = set(names[k])
        for n in names[k]:
            if rng.random() < rate:
                cand = rng.choice(ADVERSARIAL)
                if cand not in used:
                    used.discard(n)
                    used.add(cand)
                    m[k][n] = cand
    return rename_sexp(e, m)


# ------------------------------------------------------------------------------------------------
# numeric type bounds, drawn per case
# ------------------------------------------------------------------------------------------------
# The bounds of an integer / real type are printed by _get_anml_name and read back by _parse_type_reference; what can go
# wrong there depends on the VALUE and the POSITION of a bound (0 is falsy, a sign, a fraction, `infinity` on one side only,
# many digits), so every case draws its own table of numeric types instead of the fixed one of harness/upp.py
# (int[0,4], int[-2,3], real[0,5/2], unbounded).  A shape is a named way to draw one (lower, upper) pair.

def _ch(r, xs):
    return r.choice(xs)


F = Fraction
INT_SHAPES = OrderedDict([
    ("ub0", lambda r: (-_ch(r, [1, 2, 3, 7]), 0)),                       # upper bound exactly 0
    ("lb0", lambda r: (0, _ch(r, [1, 2, 4, 9]))),                        # lower bound exactly 0
    ("both0", lambda r: (0, 0)),
    ("eq", lambda r: (lambda k: (k, k))(_ch(r, [-3, -1, 1, 2, 17]))),    # equal bounds, not 0
    ("ub-only0", lambda r: (None, 0)),
    ("lb-only0", lambda r: (0, None)),
    ("ub-only", lambda r: (None, _ch(r, [-4, -1, 1, 3, 250]))),
    ("lb-only", lambda r: (_ch(r, [-250, -2, -1, 1, 5]), None)),
    ("neg", lambda r: (lambda a, b: (-a - b, -a))(_ch(r, [1, 2, 5]), _ch(r, [1, 3, 10]))),      # negative-only range
    ("pos", lambda r: (lambda a, b: (a, a + b))(_ch(r, [1, 2, 5]), _ch(r, [1, 3, 10]))),        # positive-only range
    ("span0", lambda r: (-_ch(r, [1, 2, 3]), _ch(r, [1, 3, 4]))),                              # 0 strictly inside
    ("large", lambda r: _ch(r, [(-1000, 1000000), (10, 123456789012), (-99999999999, -100), (0, 10 ** 12), (-10 ** 9, 0),
                                (-2 ** 63, 2 ** 63 - 1)])),
])
REAL_SHAPES = OrderedDict([
    ("ub0", lambda r: (-_ch(r, [F(1, 2), F(1), F(5, 2), F(7, 3)]), F(0))),
    ("lb0", lambda r: (F(0), _ch(r, [F(1, 2), F(1), F(5, 2), F(7, 3)]))),
    ("both0", lambda r: (F(0), F(0))),
    ("eq", lambda r: (lambda q: (q, q))(_ch(r, [F(-3, 2), F(1, 3), F(2), F(-1)]))),
    ("ub-only0", lambda r: (None, F(0))),
    ("lb-only0", lambda r: (F(0), None)),
    ("ub-only", lambda r: (None, _ch(r, [F(-7, 2), F(-1), F(1, 10), F(3), F(22, 7)]))),
    ("lb-only", lambda r: (_ch(r, [F(-22, 7), F(-1), F(-1, 10), F(1, 2), F(4)]), None)),
    ("neg", lambda r: _ch(r, [(F(-7, 2), F(-1, 4)), (F(-3), F(-1)), (F(-1, 3), F(-1, 10))])),
    ("pos", lambda r: _ch(r, [(F(1, 2), F(5, 2)), (F(1, 10), F(3, 10)), (F(1), F(4))])),
    ("span0", lambda r: _ch(r, [(F(-1, 2), F(1, 2)), (F(-1, 10), F(1, 3)), (F(-2), F(5, 2)), (F(-1, 1000), F(1, 1000))])),
    ("large", lambda r: _ch(r, [(F(-1000001, 1000), F(10 ** 9)), (F(1, 123456789), F(5)), (F(0), F(2 * 10 ** 12 + 1, 2)),
                                (F(-10 ** 15, 7), F(0))])),
])
LEGACY_NUM_TYPES = [["int", "_", "_"], ["int", "0", "4"], ["int", "-2", "3"], ["int", "0", "10"], ["int", "0", "3"],
                    ["real", "_", "_"], ["real", "0", "5/2"]]


def bq(x):
    return "_" if x is None else q2s(Fraction(x))


def mk_num_type(kind, lo, hi):
    return [kind, bq(lo), bq(hi)]


def draw_type(r, kind, shapes=None):
    """a numeric type of the wire format with freshly drawn bounds; `shapes` restricts the shape names"""
    table = INT_SHAPES if kind == "int" else REAL_SHAPES
    name = r.choice(list(shapes) if shapes else list(table))
    lo, hi = table[name](r)
    return mk_num_type(kind, lo, hi)


def narrow(r, ty, width=3):
    """the bounded numeric type `ty` cut down to at most width + 1 integers, keeping one of its two bounds"""
    lo, hi = bounds_of(ty)
    if hi - lo <= width:
        return ty
    return mk_num_type(ty[0], lo, lo + width) if r.random() < 0.5 else mk_num_type(ty[0], hi - width, hi)


def bounds_of(ty):
    return (None if ty[1] == "_" else Fraction(ty[1])), (None if ty[2] == "_" else Fraction(ty[2]))


def inside(q, ty):
    lo, hi = bounds_of(ty)
    return (lo is None or lo <= q) and (hi is None or q <= hi) and (ty[0] == "real" or Fraction(q).denominator == 1)


def const_of(q):
    q = Fraction(q)
    return ["i", str(q.numerator)] if q.denominator == 1 else ["r", q2s(q)]


def values_in(ty):
    """constants of the numeric type `ty`, the ones at and next to its bounds first (a wrong bound only shows at the edge)"""
    lo, hi = bounds_of(ty)
    step = Fraction(1) if ty[0] == "int" else Fraction(1, 2)
    if lo is not None and hi is not None:
        c = [lo, hi, lo + step, hi - step, (lo + hi) / 2, Fraction(0)]
    elif lo is not None:
        c = [lo, lo + step, lo + 3]
    elif hi is not None:
        c = [hi, hi - step, hi - 3]
    else:
        c = [Fraction(0), Fraction(1), Fraction(-1), Fraction(2), Fraction(3)] + ([Fraction(1, 2), Fraction(3, 10)] if ty[0] == "real" else [])
    if ty[0] == "int":
        c = [Fraction(q.numerator // q.denominator) for q in c]
    out = []
    for q in c:
        if inside(q, ty) and q not in out:
            out.append(q)
    return out


def shape_tags(ty):
    """which of the bound shapes a numeric wire-format type exhibits (for the measured distribution)"""
    lo, hi = bounds_of(ty)
    k = ty[0]
    t = []
    if hi is not None and hi == 0:
        t.append(f"{k}-upper-bound-0")
    if lo is not None and lo == 0:
        t.append(f"{k}-lower-bound-0")
    if (lo is None) != (hi is None):
        t.append(f"{k}-one-sided")
    if lo is not None and lo == hi:
        t.append(f"{k}-equal-bounds")
    if hi is not None and hi < 0:
        t.append(f"{k}-negative-only")
    if lo is not None and lo > 0:
        t.append(f"{k}-positive-only")
    if any(b is not None and abs(b) >= 1000 for b in (lo, hi)):
        t.append(f"{k}-large-bound")
    if any(b is not None and b.denominator != 1 for b in (lo, hi)):
        t.append(f"{k}-fractional-bound")
    if any(b is not None and b.denominator != 1 and abs(b) < 1 for b in (lo, hi)):
        t.append(f"{k}-fraction-near-0")
    return t


def numeric_types_of(ps):
    """(where, type) for every numeric type occurrence in the declarations of a wire-format problem"""
    out = []
    isnum = lambda t: isinstance(t, list) and t and t[0] in ("int", "real")
    for ref, _pn in get(ps, "fluents"):
        if isnum(ref[1]):
            out.append(("fluent-type", ref[1]))
        for t in ref[2]:
            if isnum(t):
                out.append(("fluent-parameter", t))
    for a in get(ps, "actions"):
        for _n, t in a[2]:
            if isnum(t):
                out.append(("action-parameter", t))
    return out


class VarGen(upp.ProblemGen):
    """upp.ProblemGen whose numeric fluent types are drawn per problem (upp's own table stays the default: nothing is drawn until
    draw_types() is called) and whose initial values / assigned constants / increments are chosen inside the drawn bounds, so that
    most problems are accepted by the library (it rejects a constant outside the type at construction)."""

    def retype(self, name, ty):
        self.FL[name][1] = ty     # the ExprGen tables hold the same list object

    def draw_types(self):
        r = self.rng
        self.retype("xb", draw_type(r, "int"))
        self.retype("xq", draw_type(r, "int"))
        self.retype("zb", draw_type(r, "real"))
        if r.random() < 0.3:
            self.retype("x", draw_type(r, "int", ["ub-only0", "lb-only0", "ub-only", "lb-only", "large"]))
        if r.random() < 0.3:
            self.retype("z", draw_type(r, "real", ["ub-only0", "lb-only0", "ub-only", "lb-only", "large"]))
        if "k" in self.FL:       # read by the durations: never negative
            self.retype("k", draw_type(r, "int", ["lb0", "both0", "lb-only0", "pos", "lb0", "lb0"]))

    def const_for(self, ref):
        ty = ref[1]
        if isinstance(ty, list) and ty[0] in ("int", "real"):
            vs = values_in(ty)
            return const_of(self.rng.choice(vs[:2] + vs))
        return super().const_for(ref)

    def value_for(self, name, params, scope, depth=1):
        ty = self.FL[name][1]
        if isinstance(ty, list) and ty[0] in ("int", "real") and ty not in LEGACY_NUM_TYPES[:1] + LEGACY_NUM_TYPES[5:6]:
            if self.rng.random() < 0.7:
                vs = values_in(ty)
                return const_of(self.rng.choice(vs[:2] + vs))
            return self.num(params, scope, depth, real_ok=ty[0] == "real")
        return super().value_for(name, params, scope, depth)

    def effect(self, params):
        e = super().effect(params)
        ty = e[2][1][1]
        if e[1] != "assign" and isinstance(ty, list) and ty[0] in ("int", "real") and e[3][0] in ("i", "r") \
                and not inside(Fraction(e[3][1]), ty):
            # `f += c` is rejected unless c itself lies in f's type: take such a c if there is a positive one,
            # else write the same step as an assignment (accepted whenever the shifted interval still meets the type)
            pos = [q for q in values_in(ty) if q > 0]
            if pos:
                e[3] = const_of(self.rng.choice(pos))
            else:
                e = ["eff", "assign", e[2], ["plus" if e[1] == "increase" else "minus", e[2], e[3]], e[4], e[5]]
        return e


class Gen19:
    def __init__(self, rng, vary=0.75):
        self.rng = rng
        self.vary = vary      # share of the problems whose numeric type bounds are drawn (the others keep upp.py's table)

    def base(self, temporal):
        r = self.rng
        g = VarGen(r, undefined=False, invariants=True, metrics=False, quantifiers=True, big=r.random() < 0.15)
        g.eg.empty_type = False
        U = lambda n: ["user", n]
        # two fluents no effect ever writes: printed as `constant`
        g.FL["k"] = ["k", ["int", "0", "10"], []]
        g.FL["conn"] = ["conn", "bool", [U("T"), U("S")]]
        g.eg.bool_fl = g.eg.bool_fl + [g.FL["conn"]]
        g.eg.int_fl = g.eg.int_fl + [g.FL["k"]]
        varied = r.random() < self.vary
        if varied:               # the bounds of the numeric types are drawn for this problem (else: the fixed table of upp.py)
            g.draw_types()
        cq = None
        if varied and r.random() < 0.5:
            # a fluent whose PARAMETER is of a bounded integer type (few values: every ground instance gets an initial value)
            cq = ["cq", r.choice(["bool", draw_type(r, "int")]),
                  [narrow(r, draw_type(r, "int", ["ub0", "lb0", "both0", "eq", "neg", "pos", "span0"]))]]
        ps = g.problem()
        fluents, defaults = [], []
        for ref, d in get(ps, "fluents")[0:]:
            pn = [f"{'abcdefg'[i]}{ref[0]}" if r.random() < 0.5 else f"q{i}" for i in range(len(ref[2]))]
            fluents.append([ref, pn])
            if d != "_":
                defaults.append([ref[0], d])
        acts = [["inst", a[1], a[2], a[3], a[4]] for a in upp.get(ps, "actions")]
        out = {"types": upp.get(ps, "types"), "fluents": fluents, "objects": upp.get(ps, "objects"), "init": upp.get(ps, "init"),
               "defaults": defaults, "actions": acts, "timed-effects": [], "goals": upp.get(ps, "goals"), "timed-goals": [],
               "invariants": [t[1] for t in upp.get(ps, "traj")]}
        if r.random() < (0.6 if varied else 0.3):     # action parameters of Boolean / integer / real type
            for a in acts:
                if r.random() < 0.5:
                    a[2].append(["pb", "bool"])
                    a[3].append(r.choice([["p", "pb", "bool"], ["iff", ["p", "pb", "bool"], ["fl", g.FL["b0"]]]]))
                if r.random() < 0.5:
                    t = draw_type(r, "int") if varied else ["int", "0", "3"]
                    a[2].append(["pn", t])
                    a[3].append(["le", ["p", "pn", t], ["fl", g.FL["xb"]]])
                if varied and r.random() < 0.4:
                    t = draw_type(r, "real")
                    a[2].append(["pq", t])
                    a[3].append(["lt", ["fl", g.FL["zb"]], ["plus", ["p", "pq", t], ["i", "1"]]])
        if cq is not None:       # the fluent with the integer parameter, read and written through constants and a parameter
            t = cq[2][0]
            dflt = const_of(r.choice(values_in(cq[1]))) if cq[1] != "bool" else ["b", r.choice("TF")]
            out["fluents"].append([cq, [r.choice(["n", "q0", "acq"])]])
            if r.random() < 0.5:
                out["defaults"].append(["cq", dflt])
            else:
                lo, hi = bounds_of(t)
                for i in range(int(lo), int(hi) + 1):
                    v = const_of(r.choice(values_in(cq[1]))) if cq[1] != "bool" else ["b", r.choice("TF")]
                    out["init"].append([["fl", cq, const_of(i)], v])
            for a in acts:
                arg = const_of(r.choice(values_in(t)))
                if r.random() < 0.6:
                    a[2].append(["pc", t])
                    arg = ["p", "pc", t]
                if cq[1] == "bool":
                    a[3].append(["fl", cq, const_of(r.choice(values_in(t)))])
                    a[4].append(["eff", "assign", ["fl", cq, arg], ["b", r.choice("TF")], ["b", "T"], []])
                else:
                    a[3].append(["le", ["fl", cq, const_of(r.choice(values_in(t)))], const_of(values_in(cq[1])[-1])])
                    a[4].append(["eff", "assign", ["fl", cq, arg], dflt, ["b", "T"], []])
        if temporal:
            self.temporal(g, out)
        return ["aproblem"] + [[k] + v for k, v in out.items()]

    TIMINGS_IN = [["s", "0"], ["e", "0"], ["s", "1"], ["s", "3/2"], ["e", "-1"], ["e", "-1/2"], ["s", "2"]]

    def interval(self, inside):
        r = self.rng
        if inside:
            k = r.random()
            if k < 0.35:
                t = r.choice(self.TIMINGS_IN)
                return ["iv", t, t, "F", "F"]
            lo = r.choice([["s", "0"], ["s", "0"], ["s", "1"], ["s", "1/2"]])
            hi = r.choice([["e", "0"], ["e", "0"], ["e", "-1"], ["e", "-1/2"]])
            return ["iv", lo, hi, r.choice("TF"), r.choice("TF")]
        k = r.random()
        if k < 0.3:
            t = ["gs", r.choice(["2", "6", "7/2", "10"])]
            return ["iv", t, t, "F", "F"]
        if k < 0.6:
            return ["iv", ["gs", r.choice(["0", "1", "2"])], ["gs", r.choice(["5", "6", "13/2"])], r.choice("TF"), r.choice("TF")]
        return ["iv", ["gs", r.choice(["0", "0", "3"])], ["ge", "0"], r.choice("TF"), r.choice("TF")]

    def temporal(self, g, out):
        r = self.rng
        k_ref = ["fl", g.FL["k"]]
        n = r.choice([1, 1, 2])
        for i in range(n):
            a = g.action(100 + i)
            params = a[2]
            d = r.random()
            if d < 0.3:
                c = r.choice([["i", "3"], ["i", "1"], ["r", "5/2"], ["plus", k_ref, ["i", "1"]]])
                dur = ["duration", c, c, "F", "F"]
            elif d < 0.8:
                dur = ["duration", r.choice([["i", "1"], ["i", "2"], ["r", "1/2"]]), r.choice([["i", "4"], ["r", "9/2"], ["plus", k_ref, ["i", "3"]]]),
                       r.choice("TF"), r.choice("TF")]
            else:
                dur = ["duration", k_ref, ["times", ["i", "2"], ["plus", k_ref, ["i", "1"]]], "F", r.choice("TF")]
            conds = [[self.interval(True), c] for c in a[3][1:]]
            effs = [[r.choice([["s", "0"], ["e", "0"], ["e", "0"], ["s", "1"], ["s", "3/2"], ["e", "-1"]]), e] for e in a[4][1:]]
            out["actions"].append(["dur", f"d{i}", params, dur, ["conds"] + conds, ["effs"] + effs])
            if r.random() < 0.4 and out["actions"] and out["actions"][0][0] == "inst":
                out["actions"].pop(0)
        for _ in range(r.choice([0, 0, 1, 2])):
            out["timed-effects"].append([["gs", r.choice(["1", "5", "7/2", "12"])], g.effect([])])
        for _ in range(r.choice([0, 0, 1, 2])):
            out["timed-goals"].append([self.interval(False), g.cond([], (), 1)])


class ShapeDeck:
    """deals the shapes of a table in shuffled rounds: every shape is used once before any is used twice"""

    def __init__(self, rng, kind):
        self.rng, self.kind, self.left = rng, kind, []
        self.table = INT_SHAPES if kind == "int" else REAL_SHAPES

    def draw(self, only=None):
        if only is not None:
            pool = [n for n in self.left if n in only]
            if not pool:
                name = self.rng.choice(sorted(only))
            else:
                name = pool[0]
                self.left.remove(name)
        else:
            if not self.left:
                self.left = list(self.table)
                self.rng.shuffle(self.left)
            name = self.left.pop(0)
        lo, hi = self.table[name](self.rng)
        return mk_num_type(self.kind, lo, hi)


BOUNDED_SHAPES = ["ub0", "lb0", "both0", "eq", "neg", "pos", "span0"]


def type_table_problem(r, ints, reals):
    """A declaration-heavy, expression-light problem (the real reader spends its time on expressions): numeric fluents, a fluent
    with an integer parameter and an action with numeric parameters whose types come from the decks, every fluent initialised at
    one of its bounds, and `probe` actions that try to move a fluent just across / exactly onto a bound (bounded types are state
    invariants of the simulator: the first must stay inapplicable, the second applicable, after the round trip as well)."""
    fl, init, acts = [], [], []

    def add(name, ty, sig=(), pnames=()):
        ref = [name, ty, list(sig)]
        fl.append([ref, list(pnames)])
        return ref
    nums = [add(f"n{i}", ints.draw()) for i in range(2)] + [add(f"r{i}", reals.draw()) for i in range(2)]
    for ref in nums:
        vs = values_in(ref[1])
        init.append([["fl", ref], const_of(r.choice(vs[:2]))])
    # probes: src holds a value next to a bound of dst; `dst := src`
    step = {"int": Fraction(1), "real": Fraction(1, 2)}
    order = list(nums)
    r.shuffle(order)
    n_probe = 0
    for ref in order:
        lo, hi = bounds_of(ref[1])
        opts = []
        if hi is not None:
            opts += [("over", hi + step[ref[1][0]]), ("top", hi)]
        if lo is not None:
            opts += [("under", lo - step[ref[1][0]]), ("bottom", lo)]
        if not opts or n_probe >= 2:
            continue
        what, val = r.choice(opts[:1] + opts[2:3] + opts)       # the two outside values twice as often
        src = add(f"s{n_probe}", [ref[1][0], "_", "_"])
        init.append([["fl", src], const_of(val)])
        acts.append(["inst", f"{what}{n_probe}", [], ["pre"], ["effs", ["eff", "assign", ["fl", ref], ["fl", src], ["b", "T"], []]]])
        n_probe += 1
    # a fluent with an integer parameter
    pt = narrow(r, ints.draw(only=BOUNDED_SHAPES), 2)
    cq = add("cq", r.choice(["bool", ints.draw()]), [pt], ["n"])
    lo, hi = bounds_of(pt)
    for i in range(int(lo), int(hi) + 1):
        init.append([["fl", cq, const_of(i)], ["b", r.choice("TF")] if cq[1] == "bool" else const_of(r.choice(values_in(cq[1])[:2]))])
    # an action with numeric parameters: they index cq and are copied into unbounded sinks
    ti, tr = ints.draw(), reals.draw()
    xs, zs = add("xs", ["int", "_", "_"]), add("zs", ["real", "_", "_"])
    init += [[["fl", xs], ["i", "0"]], [["fl", zs], ["i", "0"]]]
    effs = [["eff", "assign", ["fl", xs], ["p", "pi", ti], ["b", "T"], []], ["eff", "assign", ["fl", zs], ["p", "pr", tr], ["b", "T"], []]]
    v = ["b", r.choice("TF")] if cq[1] == "bool" else const_of(r.choice(values_in(cq[1])))
    effs.append(["eff", "assign", ["fl", cq, ["p", "pc", pt]], v, ["b", "T"], []])
    acts.append(["inst", "setp", [["pi", ti], ["pr", tr], ["pc", pt]], ["pre"], ["effs"] + effs])
    goals = [["le", ["fl", xs], ["i", "0"]]] if r.random() < 0.5 else []
    return ["aproblem", ["types"], ["fluents"] + fl, ["objects"], ["init"] + init, ["defaults"], ["actions"] + acts,
            ["timed-effects"], ["goals"] + goals, ["timed-goals"], ["invariants"]]


def all_effects(P):
    for a in P.actions:
        if isinstance(a, InstantaneousAction):
            yield from a.effects
        elif isinstance(a, DurativeAction):
            for el in a.effects.values():
                yield from el
    for el in P.timed_effects.values():
        yield from el


def outside_fragment(P):
    """reading decisions (ASSUMPTIONS): why the real problem P is not a case of this check, or None"""
    simp = P.environment.simplifier.simplify
    fvo = P.environment.free_vars_oracle
    for e in all_effects(P):
        c = simp(e.condition)
        if e.is_conditional() and c.is_true():
            return "an effect condition that is not TRUE simplifies to TRUE (printed as `when true {…}`)"
        if e.is_conditional() and c.is_false():
            return "an effect condition simplifies to FALSE"
        fv = set(fvo.get_free_variables(simp(e.fluent))) | set(fvo.get_free_variables(simp(e.value))) | set(fvo.get_free_variables(c))
        if any(v not in fv for v in e.forall):
            return "a forall variable disappears when the effect is simplified"
    for t in P.timed_effects:
        if t.is_global() and t.is_from_start() and t.delay == 0:
            return "timed effect at global start + 0"
    return None


def _buildable(ps):
    try:
        P, _ = build(ps)
    except Exception:
        return None
    return None if outside_fragment(P) else P


def example_cases():
    """every bundled example problem the ANML writer supports (the filter of test_anml_io), as wire-format payloads"""
    from unified_planning.test.examples import get_example_problems
    out = []
    for name, ex in sorted(get_example_problems().items()):
        p = ex.problem
        try:
            k = p.kind
            if (not k.has_action_based() or k.has_increase_continuous_effects() or k.has_decrease_continuous_effects()
                    or k.has_interpreted_functions_in_durations() or k.has_interpreted_functions_in_boolean_assignments()
                    or k.has_interpreted_functions_in_numeric_assignments() or k.has_interpreted_functions_in_object_assignments()
                    or k.has_interpreted_functions_in_conditions() or type(p) is not Problem):
                continue
            ps = enc_prob(p, expand_init=False)
            ps.insert(5, ["defaults"] + [[f.name, enc_expr(v)] for f, v in p.fluents_defaults.items()])
            q = _buildable(ps)
            if q is None:
                continue
            # only the examples the wire format carries completely (no metrics needed: the ANML writer does not print them)
            if sexp.dumps(enc_prob(q)) != sexp.dumps(enc_prob(p)):
                continue
            out.append(["rt", ps])
        except Exception:
            continue
    return out


def used_fluents(ps):
    names = set()

    def ex(x):
        if isinstance(x, list) and x:
            if x[0] == "fl":
                names.add(x[1][0])
                for a in x[2:]:
                    ex(a)
            elif x[0] in ("exists", "forall"):
                ex(x[2])
            elif x[0] not in ("b", "i", "r", "o", "p", "v"):
                for a in x[1:]:
                    ex(a)

    def eff(x):
        ex(x[2]), ex(x[3]), ex(x[4])
    for a in get(ps, "actions"):
        if a[0] == "inst":
            for c in a[3][1:]:
                ex(c)
            for x in a[4][1:]:
                eff(x)
        else:
            ex(a[3][1]), ex(a[3][2])
            for _, c in a[4][1:]:
                ex(c)
            for _, x in a[5][1:]:
                eff(x)
    for _, x in get(ps, "timed-effects"):
        eff(x)
    for g in get(ps, "goals") + get(ps, "invariants"):
        ex(g)
    for _, g in get(ps, "timed-goals"):
        ex(g)
    return names


def prune(rng, ps):
    """a small problem out of a generated one: one action with few statements, at most one goal, only the fluents it mentions"""
    secs = OrderedDict((s[0], s[1:]) for s in ps[1:])
    acts = secs["actions"]
    durs = [a for a in acts if a[0] == "dur"]
    a = rng.choice(durs) if durs else rng.choice(acts)
    if a[0] == "inst":
        a = a[:3] + [a[3][:1] + a[3][1:][:rng.choice([0, 1, 1, 2])], a[4][:1] + a[4][1:][:rng.choice([1, 1, 2])]]
    else:
        a = a[:4] + [a[4][:1] + a[4][1:][:rng.choice([0, 1, 2])], a[5][:1] + a[5][1:][:rng.choice([1, 1, 2])]]
    secs["actions"] = [a]
    secs["goals"] = secs["goals"][:rng.choice([0, 1])]
    secs["timed-effects"] = secs["timed-effects"][:rng.choice([0, 1])]
    secs["timed-goals"] = secs["timed-goals"][:rng.choice([0, 1])]
    secs["invariants"] = secs["invariants"][:rng.choice([0, 1])]
    out = ["aproblem"] + [[k] + v for k, v in secs.items()]
    keep = used_fluents(out)
    secs["fluents"] = [f for f in secs["fluents"] if f[0][0] in keep]
    secs["defaults"] = [d for d in secs["defaults"] if d[0] in keep]
    secs["init"] = [i for i in secs["init"] if i[0][1][0] in keep]
    return ["aproblem"] + [[k] + v for k, v in secs.items()]


COUNTS = {"quick": {"examples": 5, "types": 6, "mini": 18, "medium": 3, "w": 250},
          "thorough": {"examples": 10 ** 6, "types": 24, "mini": 54, "medium": 6, "w": 2500}}


def cases(rng, tier):
    """`rt` cases run writer and reader (the real reader needs seconds for a page of ANML: few, small cases);
    `w` cases run the writer only (many, full size)"""
    n = COUNTS[tier]
    g = Gen19(rng)

    def fresh(temporal, small):
        for _ in range(200):
            ps = g.base(temporal=temporal)
            if small:
                ps = prune(rng, ps)
            ps = adversarial_names(rng, ps, rng.choice([0.0, 0.0, 0.15, 0.4, 0.8]))
            if _buildable(ps) is not None:
                return ps
        raise RuntimeError("generator cannot build a problem")
    # the order is by value per second: run_check stops running cases when the tier's time budget is spent (a loaded machine)
    ints, reals = ShapeDeck(rng, "int"), ShapeDeck(rng, "real")
    for i in range(n["types"]):      # every bound shape, in every position, goes through the real reader in every run
        for _ in range(50):
            ps = type_table_problem(rng, ints, reals)
            if rng.random() < 0.3:
                ps = adversarial_names(rng, ps, 0.4)
            if _buildable(ps) is not None:
                break
        else:
            raise RuntimeError("generator cannot build a type-table problem")
        yield ["rt", ps]
    for i in range(n["w"]):
        yield ["w", fresh(rng.random() < 0.45, rng.random() < 0.3)]
    for i in range(n["mini"]):
        yield ["rt", fresh(rng.random() < 0.45, True)]
    ex = example_cases()
    if len(ex) > n["examples"]:     # quick tier: a seed-dependent sample of the smaller examples
        ex = rng.sample(sorted(ex, key=lambda c: len(sexp.dumps(c)))[:len(ex) // 2], n["examples"])
    for c in ex:
        yield c
    for i in range(n["medium"]):
        yield ["rt", fresh(rng.random() < 0.45, False)]


def nontrivial(payload, ans):
    if not (isinstance(ans, list) and ans and isinstance(ans[0], list) and ans[0] and ans[0][0] == "tokens"):
        return False
    if len(ans) == 2 and ans[1][0] != "reread":
        return False
    s = sexp.dumps(payload)
    return "(eff " in s and any(k in s for k in ("(and ", "(or ", "(not ", "(plus ", "(le ", "(lt ", "(exists ", "(forall "))


def stats(payload, ans):
    s = sexp.dumps(payload)
    t = []
    if isinstance(ans, list) and ans and isinstance(ans[0], str):
        return [ans[0]]
    t.append("writer-only" if len(ans) == 1 else "reread" if ans[1][0] == "reread" else "read-error")
    for k, tag in (("(dur ", "durative"), ("(timed-effects (", "timed-effects"), ("(timed-goals (", "timed-goals"), ("(invariants (", "invariants"),
                   ("(exists ", "exists"), ("(forall ", "forall"), (" increase ", "increase"), (" decrease ", "decrease"), ("(r ", "rational"),
                   ("(i -", "negative-int"), ("(iff ", "iff"), ("(implies ", "implies")):
        if k in s:
            t.append(tag)
    r = run_real(payload)
    if r.get("ren") and any(k[-1] != v and k[0] in ("type", "fluent", "object", "action") for k, v in r["ren"]):
        t.append("renamed-global")
    if r.get("ren") and any(k[1] != v and k[0] in ("param", "var") for k, v in r["ren"]):
        t.append("renamed-local")
    if "constant" in (r.get("text") or ""):
        t.append("constant-fluent")
    nts = numeric_types_of(payload[1])
    for where in ("fluent-parameter", "action-parameter"):
        if any(w == where for w, _ in nts):
            t.append("numeric-" + where)
    if any(ty not in LEGACY_NUM_TYPES for _, ty in nts):
        t.append("drawn-type-bounds")
    for tag in sorted(set(x for _, ty in nts for x in shape_tags(ty))):
        t.append(tag)
        if t[0] == "reread":       # the shapes that went through the real READER (the writer-only cases stop at the text)
            t.append("reread/" + tag)
    return t


# ------------------------------------------------------------------------------------------------
# the property itself, on the real code
# ------------------------------------------------------------------------------------------------

def const_val(c):
    if c is None:
        return "undef"
    if c.is_bool_constant():
        return c.bool_constant_value()
    if c.is_int_constant() or c.is_real_constant():
        return Fraction(c.constant_value())
    if c.is_object_exp():
        return ("obj", c.object().name)
    return ("exp", str(c))


def ground_fluents(P):
    out = []
    for f in P.fluents:
        out.extend(get_all_fluent_exp(P, f))
    return out


class Side:
    def __init__(self, P):
        self.P = P
        self.sim = UPSequentialSimulator(P, error_on_failed_checks=False)

    def step(self, st, a, objs):
        if a is None:
            return None
        try:
            return self.sim.apply(st, a, objs)
        except UPUsageError as e:
            if "not compatible with the given action's parameters" in " ".join(str(x) for x in e.args):
                return ("refused-arguments",)
            return ("err", type(e).__name__)
        except Exception as e:
            return ("err", type(e).__name__)

    def is_goal(self, st):
        try:
            return bool(self.sim.is_goal(st))
        except Exception as e:
            return ("err", type(e).__name__)


def is_temporal(P):
    return any(isinstance(a, DurativeAction) for a in P.actions) or bool(P.timed_effects) or bool(P.timed_goals)


def structure_diff(P, Q, ren):
    """types / objects / fluents / initial state of P and Q under the writer's renaming `ren` (kind -> old -> new)"""
    rt = lambda n: ren["type"].get(n, n)
    ro = lambda n: ren["object"].get(n, n)
    rf = lambda n: ren["fluent"].get(n, n)

    def tyname(t, r=rt):
        """a type as a value: kind and, for the numeric types, BOTH bounds (exact fractions in lowest terms; -inf / inf = unbounded)"""
        if t.is_user_type():
            return ("user", r(t.name))
        if t.is_int_type() or t.is_real_type():
            return ("int" if t.is_int_type() else "real", "-inf" if t.lower_bound is None else q2s(Fraction(t.lower_bound)),
                    "inf" if t.upper_bound is None else q2s(Fraction(t.upper_bound)))
        return ("builtin", str(t))
    same = lambda n: n

    def show(x):
        return "(" + " ".join(show(y) for y in x) + ")" if isinstance(x, tuple) else str(x)
    tp = sorted((rt(t.name), rt(t.father.name) if t.father else None) for t in P.user_types)
    tq = sorted((t.name, t.father.name if t.father else None) for t in Q.user_types)
    if tp != tq:
        return f"user types differ: {tp} vs {tq}"
    op = sorted((ro(o.name), rt(o.type.name)) for o in P.all_objects)
    oq = sorted((o.name, o.type.name) for o in Q.all_objects)
    if op != oq:
        return f"objects differ: {op} vs {oq}"
    fp = sorted((rf(f.name), tyname(f.type), tuple(tyname(p.type) for p in f.signature)) for f in P.fluents)
    fq = sorted((f.name, tyname(f.type, same), tuple(tyname(p.type, same) for p in f.signature)) for f in Q.fluents)
    if fp != fq:
        dq = {x[0]: x for x in fq}
        x = [x for x in fp if x not in fq][:1] or [x for x in fq if x not in fp][:1]
        return f"fluents differ (name, type, parameter types): {show(x[0]) if x[0] in fp else 'absent'} vs {show(dq.get(x[0][0], 'absent'))}"

    def keyP(fe):
        return (rf(fe.fluent().name),) + tuple(ro(x.object().name) if x.is_object_exp() else str(x) for x in fe.args)

    def keyQ(fe):
        return (fe.fluent().name,) + tuple(x.object().name if x.is_object_exp() else str(x) for x in fe.args)

    def val(c):
        v = const_val(c)
        return v

    ip = {keyP(fe): val(v) for fe, v in P.initial_values.items()}
    ip = {k: (("obj", ro(v[1])) if isinstance(v, tuple) and v[0] == "obj" else v) for k, v in ip.items()}
    iq = {keyQ(fe): val(v) for fe, v in Q.initial_values.items()}
    if ip != iq:
        d = sorted(k for k in set(ip) | set(iq) if ip.get(k, "absent") != iq.get(k, "absent"))
        return f"initial state differs at {d[0]}: {ip.get(d[0], 'absent')} vs {iq.get(d[0], 'absent')}"
    ap = sorted((ren["action"].get(a.name, a.name), type(a).__name__, tuple(tyname(p.type) for p in a.parameters)) for a in P.actions)
    aq = sorted((a.name, type(a).__name__, tuple(tyname(p.type, same) for p in a.parameters)) for a in Q.actions)
    if ap != aq:
        dq = {x[0]: x for x in aq}
        x = [x for x in ap if x not in aq][:1] or [x for x in aq if x not in ap][:1]
        return f"actions differ (name, kind, parameter types): {show(x[0]) if x[0] in ap else 'absent'} vs {show(dq.get(x[0][0], 'absent'))}"
    return None


def param_values(t, outside):
    """argument values tried for a parameter of the numeric type t: the values at and next to each bound and, if `outside`, the
    nearest values beyond them (both problems must refuse those: the type of a parameter is part of the action's applicability)"""
    isint = t.is_int_type()
    step = 1 if isint else Fraction(1, 2)
    lo, hi = t.lower_bound, t.upper_bound
    vals = []
    if lo is not None:
        vals += [lo, lo + step] + ([lo - step] if outside else [])
    if hi is not None:
        vals += [hi, hi - step] + ([hi + step] if outside else [])
    if lo is None and hi is None:
        vals += [0, 1, -1]
    elif lo is None:
        vals += [hi - 5]
    elif hi is None:
        vals += [lo + 5]
    else:
        m = (Fraction(lo) + Fraction(hi)) / 2
        vals += [m.numerator // m.denominator if isint else m]
    out = []
    for v in vals:
        if not outside and ((lo is not None and v < lo) or (hi is not None and v > hi)):
            continue
        if v not in out:
            out.append(v)
    return out


def ground_actions(P, cap=40, outside=True):
    out = []
    for a in P.actions:
        doms = []
        for p in a.parameters:
            if p.type.is_user_type():
                doms.append(list(P.objects(p.type)))
            elif p.type.is_bool_type():
                doms.append([True, False])
            elif p.type.is_int_type() or p.type.is_real_type():
                doms.append(param_values(p.type, outside))
            else:
                doms = None
                break
        if doms is None:
            continue
        combos = list(product(*doms))
        per = max(4, cap // max(1, len(P.actions)))     # per action: one with many parameters does not crowd out the others
        if len(combos) > per:
            step = len(combos) / per
            combos = [combos[int(i * step)] for i in range(per)]
        for combo in combos:
            out.append((a, combo))
    return out


def q_args(Q, combo, ren):
    out = []
    for o in combo:
        if isinstance(o, up.model.Object):
            out.append(Q.object(ren["object"].get(o.name, o.name)))
        else:
            out.append(o)
    return tuple(out)


def bisim_diff(P, Q, ren, depth, width=5):
    ro = lambda n: ren["object"].get(n, n)
    rf = lambda n: ren["fluent"].get(n, n)
    try:
        sp = Side(P)
    except Exception as e:
        sp = ("err", type(e).__name__)
    try:
        sq = Side(Q)
    except Exception as e:
        sq = ("err", type(e).__name__)
    if isinstance(sp, tuple) or isinstance(sq, tuple):
        if isinstance(sp, tuple) and isinstance(sq, tuple):
            return None
        return f"the simulator accepts only one of the two problems: {sp if isinstance(sp, tuple) else 'ok'} vs {sq if isinstance(sq, tuple) else 'ok'}"
    gfp, gfq = ground_fluents(P), ground_fluents(Q)

    def smap(fes, st, key, obj):
        out = {}
        for fe in fes:
            try:
                v = const_val(st.get_value(fe))
            except Exception:
                v = "undef"
            if isinstance(v, tuple) and v[0] == "obj":
                v = ("obj", obj(v[1]))
            out[key(fe)] = v
        return out
    keyP = lambda fe: (rf(fe.fluent().name),) + tuple(ro(x.object().name) if x.is_object_exp() else str(x) for x in fe.args)
    keyQ = lambda fe: (fe.fluent().name,) + tuple(x.object().name if x.is_object_exp() else str(x) for x in fe.args)
    gas = ground_actions(P)
    inits = []
    for side in (sp, sq):
        try:
            inits.append(side.sim.get_initial_state())
        except Exception as e:      # e.g. the initial state violates a state invariant / a bounded type
            inits.append(("err", type(e).__name__))
    if isinstance(inits[0], tuple) or isinstance(inits[1], tuple):
        if isinstance(inits[0], tuple) and isinstance(inits[1], tuple):
            return None
        return (f"only one of the two problems has an initial state the simulator accepts: "
                f"{inits[0] if isinstance(inits[0], tuple) else 'ok'} vs {inits[1] if isinstance(inits[1], tuple) else 'ok'}")
    frontier = [(inits[0], inits[1], [])]
    for d in range(depth + 1):
        nxt = []
        for stp, stq, path in frontier:
            mp, mq = smap(gfp, stp, keyP, ro), smap(gfq, stq, keyQ, lambda n: n)
            if mp != mq:
                k = sorted(k for k in mp if mp[k] != mq.get(k))[0]
                return f"states differ after {path} at {k}: {mp[k]} vs {mq.get(k)}"
            gp, gq = sp.is_goal(stp), sq.is_goal(stq)
            if gp != gq:
                return f"goal verdict differs after {path}: {gp} vs {gq}"
            if d == depth:
                continue
            succ = []
            for a, combo in gas:
                qn = ren["action"].get(a.name, a.name)
                qa = Q.action(qn) if Q.has_action(qn) else None
                np_ = sp.step(stp, a, combo)
                nq = sq.step(stq, qa, q_args(Q, combo, ren))
                if (np_ == ("refused-arguments",)) != (nq == ("refused-arguments",)):
                    return (f"the arguments {[str(o) for o in combo]} of {a.name} are accepted by only one of the two problems "
                            f"(original: {np_ != ('refused-arguments',)}, re-read: {nq != ('refused-arguments',)})")
                if isinstance(np_, tuple) or isinstance(nq, tuple):
                    continue    # the simulator itself failed (C01/C02's business): inconclusive for this action
                if (np_ is None) != (nq is None):
                    return f"applicability of {a.name}{[str(o) for o in combo]} differs after {path}: {np_ is not None} vs {nq is not None}"
                if np_ is not None:
                    succ.append((np_, nq, path + [(a.name, [str(o) for o in combo])]))
            if len(succ) > width:
                step = len(succ) / width
                succ = [succ[int(i * step)] for i in range(width)]
            nxt.extend(succ)
        if len(nxt) > 25:
            step = len(nxt) / 25
            nxt = [nxt[int(i * step)] for i in range(25)]
        frontier = nxt
    return None


def tt_verdict(P, plan):
    from unified_planning.engines.plan_validator import TimeTriggeredPlanValidator
    try:
        res = TimeTriggeredPlanValidator(environment=P.environment).validate(P, plan)
        return str(res.status).split(".")[-1]
    except Exception as e:
        return "err:" + type(e).__name__


def temporal_diff(P, Q, ren, rng, n_plans):
    """same verdict of the real TimeTriggeredPlanValidator on small enumerated plans"""
    from unified_planning.plans import ActionInstance, TimeTriggeredPlan
    gas = ground_actions(P, cap=12, outside=False)
    cands = []
    durs = [Fraction(1, 2), Fraction(1), Fraction(2), Fraction(5, 2), Fraction(3), Fraction(4), Fraction(9, 2), Fraction(5), Fraction(11)]
    starts = [Fraction(0), Fraction(1), Fraction(3), Fraction(6)]
    plans = [[]]
    for a, combo in gas:
        for _ in range(2):
            if isinstance(a, DurativeAction):
                plans.append([(rng.choice(starts), a, combo, rng.choice(durs))])
            else:
                plans.append([(rng.choice(starts), a, combo, None)])
    for _ in range(n_plans):
        if len(gas) >= 1:
            steps = []
            for _ in range(rng.choice([2, 2, 3])):
                a, combo = rng.choice(gas)
                steps.append((rng.choice(starts) + Fraction(rng.randint(0, 3), 2), a, combo, rng.choice(durs) if isinstance(a, DurativeAction) else None))
            plans.append(steps)
    if len(plans) > n_plans:
        plans = plans[:1] + rng.sample(plans[1:], n_plans - 1)
    for steps in plans:
        pp = TimeTriggeredPlan([(s, ActionInstance(a, tuple(P.environment.expression_manager.auto_promote(*combo)) if combo else ()), d)
                                for s, a, combo, d in steps], P.environment)
        try:
            qq = TimeTriggeredPlan([(s, ActionInstance(Q.action(ren["action"].get(a.name, a.name)),
                                                       tuple(Q.environment.expression_manager.auto_promote(*q_args(Q, combo, ren))) if combo else ()), d)
                                    for s, a, combo, d in steps], Q.environment)
        except Exception as e:
            return f"plan {[(str(s), a.name, [str(o) for o in c], str(d)) for s, a, c, d in steps]} cannot be rebuilt on the re-read problem: {type(e).__name__}"
        vp, vq = tt_verdict(P, pp), tt_verdict(Q, qq)
        if vp != vq:
            return (f"TimeTriggeredPlanValidator verdict differs on {[(str(s), a.name, [str(o) for o in c], str(d)) for s, a, c, d in steps]}: "
                    f"{vp} vs {vq}")
    return None


def ren_maps(ren):
    m = {"type": {}, "fluent": {}, "object": {}, "action": {}}
    for k, v in ren:
        if k[0] in m:
            m[k[0]][k[1]] = v
    return m


ORACLE_DEPTH = 2
ORACLE_PLANS = 10


def oracle(payload):
    r = run_real(payload)
    if r["error"]:
        if r["error"][0] == "build-error":
            return None
        return f"{r['error'][0]} {r['error'][1]}: {r.get('detail', '')[:200]}"
    if payload[0] == "w":
        return None       # writer-only case: the property needs the reader (see the `rt` cases)
    P, Q = r["P"], r["Q"]
    ren = ren_maps(r["ren"])
    d = structure_diff(P, Q, ren)
    if d:
        return d
    h = int(hashlib.sha1(sexp.dumps(payload).encode()).hexdigest()[:8], 16)
    import random as _random
    rng = _random.Random(h)
    if is_temporal(P) or is_temporal(Q):
        if is_temporal(P) != is_temporal(Q):
            return "one of the two problems is temporal, the other is not"
        return temporal_diff(P, Q, ren, rng, ORACLE_PLANS)
    return bisim_diff(P, Q, ren, ORACLE_DEPTH)


def shrink(payload):
    if payload[0] == "w":
        yield ["rt", payload[1]]
    ps = payload[1]
    secs = {s[0]: s[1:] for s in ps[1:]}

    def mk(**kw):
        d = dict(secs)
        d.update(kw)
        return [payload[0], ["aproblem"] + [[k] + v for k, v in d.items()]]
    for k in ("actions", "goals", "timed-effects", "timed-goals", "invariants", "init", "defaults"):
        for i in range(len(secs[k])):
            yield mk(**{k: secs[k][:i] + secs[k][i + 1:]})
    keep = used_fluents(ps)
    for f in secs["fluents"]:      # a fluent nothing mentions, with its initial values
        n = f[0][0]
        if n not in keep and len(secs["fluents"]) > 1:      # (the problem without any declaration is a corpus case of its own)
            yield mk(fluents=[g for g in secs["fluents"] if g[0][0] != n], defaults=[d for d in secs["defaults"] if d[0] != n],
                     init=[i for i in secs["init"] if i[0][1][0] != n])
    for i, a in enumerate(secs["actions"]):      # a parameter nothing mentions
        for j, (pn, pt) in enumerate(a[2]):
            if sexp.dumps(["p", pn, pt]) not in sexp.dumps(a[3:]):
                yield mk(actions=secs["actions"][:i] + [a[:2] + [a[2][:j] + a[2][j + 1:]] + a[3:]] + secs["actions"][i + 1:])
    for i, a in enumerate(secs["actions"]):
        if a[0] == "inst":
            for j in range(1, len(a[3])):
                yield mk(actions=secs["actions"][:i] + [a[:3] + [a[3][:j] + a[3][j + 1:], a[4]]] + secs["actions"][i + 1:])
            for j in range(1, len(a[4])):
                yield mk(actions=secs["actions"][:i] + [a[:4] + [a[4][:j] + a[4][j + 1:]]] + secs["actions"][i + 1:])
        else:
            for j in range(1, len(a[4])):
                yield mk(actions=secs["actions"][:i] + [a[:4] + [a[4][:j] + a[4][j + 1:], a[5]]] + secs["actions"][i + 1:])
            for j in range(1, len(a[5])):
                yield mk(actions=secs["actions"][:i] + [a[:5] + [a[5][:j] + a[5][j + 1:]]] + secs["actions"][i + 1:])


MANIFEST = {
    "level_text": ("Lean 4 theorems (Props/C19.lean) about an executable model of the ANML writer (Core/AnmlPrint.lean: problem -> token "
                   "list, statement by statement as ANMLWriter._write_problem / ConverterToANMLString lay it out) and of the reader "
                   "(Core/AnmlRead.lean: tokens -> statement trees -> problem, the second stage mirroring anml_reader.py): `roundtrip` "
                   "proves, for EVERY problem of the ANML fragment (type hierarchy, static/non-static fluents of Boolean / bounded "
                   "numeric / user types, objects, expanded initial values, instantaneous and durative actions with quantified "
                   "conditions over point/open/closed intervals, conditional / universal / increase / decrease effects at delayed "
                   "timings, timed effects and goals, state invariants) and EVERY renaming that gives different items different names "
                   "(C38), that reading the printed tokens succeeds and returns the renamed problem re-spelt with binary operators and "
                   "unsigned literals; `respell_den` proves that this re-spelling has the same reference denotation under every "
                   "interpretation; `static_preserved` that constant/fluent declarations are kept; Props/C19Types.lean spells out the "
                   "declared types: `int_type_roundtrip` / `real_type_roundtrip` (a numeric type is read back with exactly its two "
                   "bounds, for EVERY value of a bound incl. 0, negative, equal, one-sided, fractional), `fluent_types_preserved` and "
                   "`action_params_preserved` (the re-read problem has exactly the renamed fluents, with value and parameter types, "
                   "and every action its renamed parameter list); the parser fuel (number of tokens "
                   "+ 1) is proved sufficient. The models are tied to the code by a differential correspondence (the real writer's "
                   "tokens; the real reader's result on the same text) and the property itself (types, objects, fluents, initial "
                   "state, bisimulation with the real simulator / verdicts of the real time-triggered validator) is evaluated on "
                   "the real writer and reader for every round-trip case, including the bundled example problems."),
    "level_note": ("Partial: pyparsing and anml_grammar.py are represented by a hand-written recursive-descent parser of the forms the "
                   "writer emits (stage 1 of Core/AnmlRead.lean), tied by sampling only; the Simplifier (applied by the real writer "
                   "before printing and by the real reader after parsing; C11), the concrete renaming (C38) and "
                   "Problem.initial_values are parameters of the model. Trusted: Lean kernel, axioms propext / Classical.choice / "
                   "Quot.sound, the correspondence harness (tokeniser, renderer, encoders). Needs notes/patches/C19-*.patch in /repo."),
    "technique": "Lean 4 proof of print/read inversion on an executable model + model/code correspondence + behavioural oracle",
    "design_ref": "DESIGN.md §5 C18/C19/C21",
}
