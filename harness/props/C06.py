"""C06 — Plans of compiled problems map back to valid plans (compiler soundness)."""
import warnings

warnings.simplefilter("ignore")

import random

import complib
import ncrlib
import sexp

ID = "C06"
GEN = []
CORR_NAME = "compiled-problem-variants"
RULE = ("one case = (compiler, small generated problem inside the compiler's supported kind, length bound k): the ten compilers of "
        "the statement (grounder, conditional-effects, disjunctive-conditions, negative-conditions, quantifiers, usertype-fluents, "
        "bounded-types, state-invariants, trajectory-constraints, undefined-initial-numeric removers) and six pipelines of them, in "
        "rotation. Problems: upp.ProblemGen's C01 grammar restricted to the kind (types T>S,U; Boolean/int/real/object fluents with "
        "parameters; quantified, disjunctive, negated conditions; conditional / forall / assign / increase / decrease effects; bounded "
        "types; state invariants) plus PDDL3 trajectory constraints (sometime, at-most-once, sometime-before/after, always, "
        "quantified) and the shapes the compilers split on (conditional assignment next to an unconditional one on one fluent, "
        "disjunctive condition on an increase, Boolean delete + conditional add, negated Boolean preconditions, fluent-valued Boolean "
        "assignments); ~80% of the goals are read off a state reachable within k steps so that valid plans exist. END-TO-END (oracle, "
        "every case, real code only): EVERY applicable instance sequence of the REAL compiled problem of length <= k (k = 3 quick / 4 "
        "thorough; breadth-first with the real UPSequentialSimulator over the memoised state graph, <= 1500 / 6000 sequences) that "
        "reaches the compiled goal and satisfies the compiled trajectory constraints is mapped back with the REAL CompilerResult "
        "(map_back_action_instance per instance; plan_back_conversion on the whole plan before reporting) and must be valid for the "
        "ORIGINAL problem: applicable step by step and goal-reaching by the real simulator (re-judged by the real "
        "SequentialPlanValidator before a failure is reported), trajectory constraints by their PDDL3 semantics over the state "
        "sequence. MODEL CORRESPONDENCE (modelled compilers only): the real compiled problem and the Lean model's are compared as "
        "sorted lists of action variants (origin action, parameters, sorted preconditions, effects), goals, trajectory constraints and "
        "the initial values of all ground fluents; "
        "the origin is read off the real map-back of one ground instance per variant (i-th parameter = (i mod n)-th object of its type), "
        "which must also keep the argument tuple (the model's backLifted). "
        "for the Grounder (40 / 400 further grounder-only cases) the real compiler is run with prune_actions True (its default) AND "
        "False and every ground action is compared IN ORDER: name, action and arguments it maps back to (lift_action_instance), "
        "preconditions in order, effects. "
        "For NegativeConditionsRemover also the quality metrics and WHEN the compiler raises are compared; each round adds one problem "
        "aimed at it (harness/ncrlib.py: negated equalities over subtypes / numbers, negated comparisons, iff / implies, negation "
        "under quantifiers and in trajectory constraints, writers of negated fluents, taken fresh names, quality metrics) at bound "
        "k-1 (every other round in the thorough tier). "
        "Non-trivial = at least one valid compiled plan of length >= 1 was mapped back and judged.")
ASSUMPTIONS = [
    "validity of a plan = applicable step by step from the initial state and goal-satisfying in the final state according to the real "
    "UPSequentialSimulator (properties C01/C02 tie it to the documented semantics), plus the problem's trajectory constraints by their "
    "PDDL3 semantics over the state sequence (the real SequentialPlanValidator ignores non-invariant trajectory constraints); a "
    "failure is reported only if the real SequentialPlanValidator agrees on both sides",
    "a compiler that raises on a problem inside its supported kind is property C08's subject: such cases are counted (tag "
    "compile-raised:*) and not judged; a documented refusal (UPProblemDefinitionError, e.g. TrajectoryConstraintsRemover's 'PROBLEM NOT "
    "SOLVABLE') is judged by C07 only",
    "action, fluent and quantifier parameters are user-typed; divisors are non-zero constants; multi-variable Exists are nested "
    "(as in C01); no metrics, no simulated effects, no interpreted functions, instantaneous actions only",
    "forall assignments keep their bound variable in the target (a forall assignment of several values to one fluent never applies); "
    "forall effects whose bound variable disappears when the condition is simplified are kept out: the simulator's grounding then "
    "drops the quantifier, i.e. the multiplicity of the instances (C01's reading of the grounder contract), QuantifiersRemover keeps it",
    "problems whose initial state violates their own invariants are rejected by get_initial_state (documented) and not generated",
    "pipelines: a refusal of a later stage on the intermediate problem kind is a skip",
]
MODELLED = [
    "modelled by hand in Lean (tied by the variant correspondence): " + ", ".join(complib.MODELLED) + " (see Core/Compile/*.lean); "
    "for NegativeConditionsRemover also WHEN the compiler raises is compared",
    "NOT modelled (no theorem; end-to-end differential only): UsertypeFluentsRemover, TrajectoryConstraintsRemover, "
    "UndefinedInitialNumericRemover, CompilersPipeline composition on real problems",
    "Grounder (Core/Compile/Grounder.lean): grounding_actions_map = None, user-typed action parameters, instantaneous actions, no "
    "MinimizeActionCosts metric (ground_minimize_action_costs_metric is outside the model); the cache of GrounderHelper is not "
    "modelled; the simplifier is C11's verified model, configured with the problem's static fluents / initial values when "
    "prune_actions (Simplifier(env, problem)) and without problem otherwise (env.simplifier)",
    "the simplifier and the DNF walker are parameters of the theorems (properties C11 / C12 own their models)",
]
BUDGET_S = {"quick": 40, "thorough": 400}
SEARCH_S = {"quick": 60, "thorough": 240}

N_PER_COMPILER = {"quick": 20, "thorough": 200}
# further grounder-only cases (cheap: depth 2 / tier depth), for the model correspondence of Core/Compile/Grounder.lean
N_GROUNDER_EXTRA = {"quick": 40, "thorough": 400}


def tier_depth(tier):
    return 3 if tier == "quick" else 4


def cases(rng, tier):
    complib.set_tier(tier)
    n = N_PER_COMPILER["quick" if tier == "quick" else "thorough"]
    depth = tier_depth(tier)
    # the grounder-only cases come first (the generation budget of run_check cuts the END of this stream); they draw
    # from a generator derived from `rng` without advancing it, so the rotation below is what it always was
    sub = random.Random()
    sub.setstate(rng.getstate())
    for _ in range(997):
        sub.random()
    for _ in range(N_GROUNDER_EXTRA["quick" if tier == "quick" else "thorough"]):
        for _try in range(400):
            c = complib.gen_case(sub, "grounder", 2 if tier == "quick" else depth)
            if c is not None:
                yield c
                break
    for _i in range(n):
        for comp in complib.COMPILERS:
            for _try in range(400):
                c = complib.gen_case(rng, comp, depth)
                if c is not None:
                    yield c
                    break
        # NegativeConditionsRemover: the shapes its walker cases on (harness/ncrlib.py), at a smaller bound
        if tier != "quick" and _i % 2:
            continue
        for _try in range(50):
            c = ncrlib.gen_ncr_case(rng, depth - 1)
            if c is not None:
                yield c
                break


def model_payload(payload):
    return ["case", payload[1], payload[3]]


# the exceptions the model of NegativeConditionsRemover predicts (its `none`): the walker's refusals
# (negative_conditions_remover.py:111,144,146), Effect.__init__ on the mirrored effect, the assertions of
# add_trajectory_constraint / bool_constant_value
NCR_PREDICTED = ("UPExpressionDefinitionError", "UPUsageError", "UPUnboundedVariablesError", "AssertionError")


def impl(payload):
    if payload[1] not in complib.MODELLED:
        return ["not-modelled"]
    ans = complib.variants(payload)
    if payload[1] == "ncr" and ans[0] == "raised" and ans[1] in NCR_PREDICTED:
        return ["raised"]        # compared with the model's answer
    return ans


def _split_hyps(model_ans):
    """the model's answer without its trailing `(hyps tag…)` element, and the tags (see Drv/C06.lean)"""
    if (isinstance(model_ans, list) and model_ans and isinstance(model_ans[-1], list) and model_ans[-1]
            and model_ans[-1][0] == "hyps"):
        return model_ans[:-1], [str(t) for t in model_ans[-1][1:]]
    return model_ans, []


def compare(model_ans, impl_ans):
    if isinstance(impl_ans, list) and impl_ans and (impl_ans[0] == "skip" or impl_ans[0] == "raised" and len(impl_ans) > 1):
        # the real compiler raised an exception the model does not predict (C08's subject) or the case is outside the
        # supported kind: nothing to compare
        return True
    return _split_hyps(model_ans)[0] == impl_ans


def model_stats(payload, model_ans):
    """which decidable hypotheses of the BoundedTypesRemover / QuantifiersRemover theorems hold on the generated problem
    (evaluated by the Lean driver, Core/Compile/Hyps.lean)"""
    return ["thm-hyps:%s:%s" % (payload[1], t) for t in _split_hyps(model_ans)[1]]


def nontrivial(payload, ans):
    an = complib.analyse(payload)
    return "compiled-plan-len>=1" in an.tags


def stats(payload, ans):
    an = complib.analyse(payload)
    out = ["compiler:" + payload[1]] + sorted(an.tags)
    if an.skip:
        out.append("skip:" + an.skip)
    n = an.n_compiled_plans
    out.append("compiled-plans:%s" % ("0" if n == 0 else "1-9" if n < 10 else "10-99" if n < 100 else "100+"))
    if an.c06:
        out.append("c06-failure")
    return out


def oracle(payload):
    """the property itself on the real code (see RULE)"""
    return complib.analyse(payload).c06


CAUSES = [
    ("C06-dcr-overlapping-disjuncts", complib.cause_overlapping_disjuncts),
    ("C06-ncr-add-after-delete", complib.cause_bool_add_and_delete),
    ("C06-utf-conflicting-object-assignments", complib.cause_object_fluent_conflict),
    ("C06-uin-conditional-effects", complib.cause_undefined_conditional),
    ("C06-static-conflict-coinciding-values", complib.cause_static_conflict_sound),
]


def known_cause(payload):
    for fid, pred in CAUSES:
        if pred(payload):
            return fid
    return None


def shrink(payload):
    yield from complib.shrink_case(payload)


EXTRA_PROPS = ["UPVerif.Props.C06Lift", "UPVerif.Props.C06Ground", "UPVerif.Props.C06BTQR", "UPVerif.Props.C06NCR"]

MANIFEST = {
    "level_text": ("Lean 4 theorems. Props/C06.lean: a generic forward-simulation theorem over abstract transition systems "
                   "(soundness of plan map-back for every plan length, trace preservation), closed under composition (pipelines), "
                   "instantiated with the documented successor semantics of C01 (Spec/Successor.lean) for the models of "
                   "ConditionalEffectsRemover (repaired), StateInvariantsRemover and DisjunctiveConditionsRemover (action split "
                   "and goal action). Props/C06Lift.lean: the same three lifted to ALL action instances, with the simplifier / DNF "
                   "walker instantiated by the C11 / C12 models. Props/C06Ground.lean: the Grounder (both prune modes) on all "
                   "instances: a ground action's step is the step of the instance it maps back to, static fluents keep their "
                   "initial value, soundness and trace preservation. Props/C06BTQR.lean: BoundedTypesRemover (simulation up to "
                   "viability through the fluent renaming), QuantifiersRemover (identity simulation where the action is strictly "
                   "defined; definedness proved for typed problems) and the three-stage pipeline. Props/C06NCR.lean: "
                   "NegativeConditionsRemover (complementary-fluent relation preserved by every step). Seven compiler models are "
                   "tied to /repo by a differential comparison of the compiled problems (variants, goals, constraints, initial "
                   "values; Grounder action by action in order; NCR also metrics and raises); the driver evaluates the decidable "
                   "hypotheses of the BTR/QR theorems on every generated problem; for ALL ten compilers and six pipelines the "
                   "property itself is decided on the real code by an exhaustive end-to-end differential (every plan of the "
                   "compiled problem up to length 3/4). "),
    "level_note": ("Partial. Lifted theorems carry decidable per-problem hypotheses (cerLiftOK, sirLiftOK, DcrLiftOK) and walker "
                   "exactness on the instances, discharged from C11/C12 where the instantiated expressions are defined (state "
                   "typing and definedness stay hypotheses); quantifier-free invariants; DCR without split effect conditions. "
                   "Grounder: exactness of the simplifier parameter on closed instances in states agreeing with the initial state "
                   "on static fluents, decidable checks (no forall variable vanishes, dropped effects have simple targets), and "
                   "for the simulator's reading a hypothesis excluding finding C06-static-conflict-coinciding-values. BTR/QR/NCR "
                   "theorems are for the parameterless actions: BTR with quantifier-free Always bodies; QR without Always and "
                   "under strict definedness; NCR without negated equalities, forall effects on negated fluents, trajectory "
                   "constraints, fluent defaults, and under a decidable hypothesis excluding finding C06-ncr-add-after-delete "
                   "(kernel-checked refutation without it). No theorem for UsertypeFluentsRemover, TrajectoryConstraintsRemover, "
                   "UndefinedInitialNumericRemover (end-to-end differential only). Open findings (unsound compilations on the "
                   "unchanged tree) are listed in known_findings.json. "),
    "technique": "Lean 4 proof (simulation frame + per-compiler step lemmas) + model/code correspondence + exhaustive end-to-end differential",
    "design_ref": "DESIGN.md §5 C06/C07",
}
