"""C18 — PDDL write/read round trip preserves problem semantics and plans.

Payloads (grammar in lean/UPVerif/Drv/C18.lean):
  (rt   <problem'> (kind F*) (ren R*) (raw <problem>))   problem' = the problem with every expression a fixed point of the
                                                         real simplifier; kind/ren = what the real code computed for it
  (read <domain-tree> <problem-tree>)                    PDDL trees in forms the writer never emits
  (plan (ren R*) (steps (a o*)*) <problem'>)             plan text round trip
  (num  q)                                               one rational constant
  (ttplan (ren R*) <sig> <plan> <problem> <temporal>)    plan text, character level: a time-triggered (or sequential) plan of a
                                                         temporal problem, written and read back
  (ttread (ren R*) <sig> (text c*) <problem> <temporal>) a plan text in a form the writer never emits (or a broken one), read
       sig / plan / text: lean/UPVerif/Drv/C18TTPlan.lean; problem / temporal: upp.build_problem / ttlib.build
"""
import hashlib
import random
import warnings
from fractions import Fraction

warnings.simplefilter("ignore")
import unified_planning as up
from unified_planning.io import PDDLReader, PDDLWriter
from unified_planning.io.pddl_writer import ConverterToPDDLString

import c18_pddl as cp
import c18_ttplan as tp
import sexp
import upp

ID = "C18"
GEN = []
CORR_NAME = "writer-trees / reader-problem / plan-text / decimal-constants"
RULE = ("rt: generated problems of the PDDL fragment (flat or hierarchical user types, 1-2 objects per type, Boolean and "
        "unbounded int/real fluents over user-typed parameters, defaults and explicit initial values, 1-3 instantaneous actions "
        "with and/or/not/implies/iff/exists/forall/comparison/equality preconditions, constant Boolean and numeric "
        "assign/increase/decrease effects, conditional and universal effects, goals, optional action-cost / plan-length / "
        "final-value metric; half of them with adversarial identifiers: PDDL keywords, upper case, leading digits, symbols, "
        "mangled forms of other names); the real writer's tokenised text and the UP reader's result on it are compared with "
        "pddlPrint / pddlRead(pddlPrint) and pddlNorm. read: the written text of plain-name problems rewritten into forms the "
        "writer never emits (multi-typed lists, objects as constants, untyped parameters, reordered :types, nested and/or, "
        ">=/>, unary minus, n-ary +/*, upper case, empty preconditions, negative init literals, `- number`, comments). "
        "plan: 3-step plans over ground instances. num: finite-decimal rationals of 1-40 digits and non-finite ones. "
        "Non-trivial = an rt case whose text has a conditional or universal effect, a quantifier, a numeric expression "
        "with >= 3 operands or a renamed identifier; a read case on which at least one rewrite fired and the reader "
        "succeeds; every plan case with a renamed name; every num case with > 10 significant digits or a leading-zero fraction. "
        "ttplan: generated temporal problems (1-3 user types, 2-4 objects, 1-2 durative actions with fixed / interval durations "
        "and at-start / over-all / at-end conditions, 1-2 instantaneous actions; half with adversarial identifiers), "
        "time-triggered plans of 1-5 entries mixing durative and instantaneous actions in every order (half of them schedules the "
        "validator can accept), starts and durations over integers, finite decimals of 1-22 digits (below 1e-4, above 1e16) and, "
        "in a quarter of the cases, rationals without a finite decimal expansion; some sequential plans of the same problems. The "
        "real writer's text is compared character by character with writePlan, the plans both real readers return on it with "
        "parsePlanString. ttread: written texts rewritten (blanks / tabs / \\x1f around every token, every line boundary of "
        "str.splitlines, upper case, comment and blank lines, `5.` `05` `.5` `1e3` `-1` number forms, `[ 5 ]` and broken duration "
        "brackets, missing / doubled parentheses, trailing junk, names of other kinds, unknown and unmangled names, wrong arity, "
        "swapped arguments, sequential lines before / after timed ones, glued tokens) and the rounded texts of the inexact "
        "ttplan cases; both real readers' result (plan or exception class) is compared with parsePlanString. Non-trivial = a "
        "ttplan case with a durative and an instantaneous entry, or a non-integer time, or a renamed name; a ttread case on "
        "which a rewrite fired.")
ASSUMPTIONS = [
    "ASCII identifiers (DESIGN 2.11)",
    "PDDL-expressible fragment = user-typed parameters, Boolean and UNBOUNDED numeric fluents (PDDL has no bounded numeric "
    "type; the writer drops bounds silently), constant Boolean assignments (or rewrite_bool_assignments=True, oracle only), "
    "no object-valued fluents, every Boolean ground fluent has an initial value (closed world)",
    "rational constants with a finite decimal expansion (the property's quantifier); other rationals are rounded by design, with a warning",
    "goals do not simplify to `false` (PDDL has no constant; the writer raises) and final-value metrics are not constant "
    "(the UP reader's grammar has no bare number as metric)",
    "every user type has an object and quantified variables range over declared types (the simplifier the writer calls drops "
    "quantifiers over object-less types: D-C11e; a type used only by a quantified variable is not registered in Problem.user_types)",
    "effects that become unconditional after simplification are not statically conflicting (the library rejects such actions "
    "when a reader rebuilds them; they are never applicable in the original either)",
    "no + or * with two syntactically equal operands: the external `pddl` 0.4.10 parser used by the AI-planning reader collapses "
    "equal operands (finding D-C21a, outside /repo)",
    "a text that the external `pddl` parser does not parse (negative literals, missing :precondition, its own requirement "
    "checks) is not 'read by the AI-planning reader': that reader is then skipped, the default PDDLReader falls back to the UP reader",
    "undefined numeric fluents: only objects and initial state are compared (the simulator raises on partial states)",
    "every action has at least one effect (the writer emits an action's cost inside its :effect section only: an effect-less "
    "action loses its cost — noted, not repaired)",
    "plan texts: start times and durations are >= 0 (the plan grammar of the reader has no sign; Props/C18TTPlan.lean refutes the "
    "round trip for a negative start) and a time-triggered plan has at least one entry (the empty text carries no plan kind: it "
    "is read as the empty SequentialPlan; refuted in Lean as well); names are resolved through the writer's get_item_named",
    "plan validity is the verdict of TimeTriggeredPlanValidator on the ORIGINAL problem for the written and the re-read plan "
    "(parse_plan_string maps names back to the original problem's actions and objects)",
    "model side: expressions are fixed points of the real simplifier (checked per case), kind features and the renaming are "
    "taken from the real code (C10, C38 own their models)",
]
MODELLED = [
    "modelled by hand (tied by correspondence): ConverterToPDDLString walkers, _write_domain/_write_problem/_write_effect/"
    "_write_plan layout, domain_constants, initial_values enumeration order; UPPDDLReader._parse_problem/_parse_exp/_add_effect/"
    "cost extraction, parse_plan_string; the repaired convert_fraction",
    "modelled by hand at character level (Core/PddlTTPlan.lean): _write_plan / _format_action_instance / the repaired time "
    "format, str.splitlines, the three regular expressions of parse_plan_string as deterministic scanners, line.lower(), "
    "Fraction(group), the is_tt switch, get_item_named, the isinstance / arity assertions and the type check of ActionInstance, "
    "TimeTriggeredPlan(actions) on a mixed list",
    "modelled not verified (plan texts): Python's `re` engine (the scanners are argued equivalent in the file header and tied by "
    "the ttread cases), non-ASCII characters of \\s / \\w / \\d / str.lower, `format(Decimal(text), 'f')` on a positional "
    "decimal text (identity), the rounding branch of convert_fraction (the model answers `inexact`)",
    "modelled not verified: pyparsing tokenisation and name lexing (the model starts from trees), str.lower(), the simplifier "
    "(inputs are its fixed points; `when` conditions are compared after simplifying both sides), ProblemKind computation and "
    "name mangling (parameters), type checking and static effect-conflict rejection inside the model builder, "
    "Python set order of :constants and of the variables of a quantifier the simplifier rebuilt (sorted on both sides), the order of Problem.user_types (type table compared sorted), "
    "the external `pddl` package",
]
BUDGET_S = {"quick": 60, "thorough": 480}
EXTRA_PROPS = ["UPVerif.Props.C18TTPlan"]
SEARCH_S = {"quick": 45, "thorough": 240}


# ------------------------------------------------------------------------------------------------
# case generation
# ------------------------------------------------------------------------------------------------

def make_rt(rng, adversarial, **kw):
    """one rt payload (None if no simplifier fixed point is reached)"""
    try:
        ps, P, ctx = cp.gen_problem(rng, adversarial=adversarial, **kw)
    except RuntimeError:
        return None
    r = cp.simplify_problem(ps)
    if r is None:
        return None
    ps2, P2, ctx2 = r
    if cp.outside_fragment(P2):
        return None
    try:
        w, dom, prob, kind, ren = cp.derive(P2)
    except Exception:
        # the writer raises on a generated problem: the oracle must see it
        return ["rt", ps2, ["kind"], ["ren"], ["raw", ps]]
    return ["rt", ps2, kind, ren, ["raw", ps]]


def make_read(rng):
    """a `read` payload: written text of a plain-name problem, rewritten"""
    try:
        ps, P, ctx = cp.gen_problem(rng, adversarial=False, metrics=rng.random() < 0.6)
    except RuntimeError:
        return None
    try:
        w = PDDLWriter(P)
        with cp.ordered_constants():
            dom, prob = cp.tokenize(w.get_domain()), cp.tokenize(w.get_problem())
    except Exception:
        return None
    v = cp.Variants(rng, p=rng.choice([0.15, 0.3, 0.5]))
    d2, p2 = v.domain(dom, prob)
    return ["read", d2, p2]


def make_plan(rng):
    c = make_rt(rng, rng.random() < 0.6, metrics=False)
    if c is None or len(c[3]) == 1:
        return None
    ps = c[1]
    written = set(r[1] for r in c[3][1:] if r[0] == "action")      # actions with a false precondition are not written
    gas = [g for g in upp.ground_instances(ps) if g[0] in written]
    if not gas:
        return None
    steps = [rng.choice(gas) for _ in range(rng.choice([1, 2, 3, 3]))]
    return ["plan", c[3], ["steps"] + [[a] + os for a, os in steps], ps]


NUM_POOL = ["1/2", "5/2", "-7/4", "1/8", "1/10", "3/100", "1/100000", "1/10000000", "12345678901/100", "-12345678901/100",
            "123456789012345678901/1000", "1/1024", "1/3", "-22/7", "2", "0", "-3", "10000000000000000", "1/5", "7/20",
            "99999999999/10000000000", "1/1000000000000000000000", "314159265358979/100000000000000", "5/3", "1/7"]


def make_num(rng):
    if rng.random() < 0.5:
        return ["num", rng.choice(NUM_POOL)]
    digits = rng.choice([1, 3, 9, 10, 11, 12, 17, 25, 40])
    n = rng.randint(0, 10 ** digits)
    d = 2 ** rng.randint(0, 6) * 5 ** rng.randint(0, 6)
    if rng.random() < 0.15:
        d *= rng.choice([3, 7, 11])
    q = Fraction(n, d) * rng.choice([1, 1, -1])
    return ["num", cp.q2s(q)]


def make_ttplan(rng):
    """a `ttplan` payload (None when the builders or the writer reject the generated problem)"""
    ps, temporal = tp.gen_tproblem(rng, adversarial=rng.random() < 0.5)
    try:
        prep = tp.prepare(ps, temporal)
    except Exception:
        return None
    if rng.random() < 0.12:
        plan = tp.gen_seq_plan(rng, ps, temporal)
    else:
        plan = tp.gen_tt_plan(rng, ps, temporal, allow_nonfinite=rng.random() < 0.25)
    if plan is None:
        return None
    return ["ttplan", prep.ren, prep.sig, plan, ps, temporal]


def make_ttread(rng, base=None):
    """a `ttread` payload: the text the real writer prints for a ttplan case, rewritten; for an inexact base case the
    rounded text itself"""
    c = base or make_ttplan(rng)
    if c is None:
        return None
    try:
        prep = tp.prepare(c[4], c[5])
        text, inexact = tp.write_text(prep, tp.real_plan(prep, c[3]))
    except Exception:
        return None
    if base is None:
        text, _tags = tp.mutate_text(rng, prep, text)
    return ["ttread", c[1], c[2], tp.text_codes(text), c[4], c[5]]


def _inexact_plan(plan):
    return plan[0] == "tt" and any(not _finite(q) for e in plan[1:] for q in (e[0], e[3]) if q != "-")


def _finite(q):
    d = Fraction(q).denominator
    for p in (2, 5):
        while d % p == 0:
            d //= p
    return d == 1


def cases(rng, tier):
    n_rt, n_read, n_plan, n_num = (24, 50, 15, 40) if tier == "quick" else (250, 600, 150, 400)
    n_ttplan, n_ttread = (60, 60) if tier == "quick" else (600, 600)
    for i in range(n_rt):
        c = None
        for _ in range(5):
            k = rng.random()
            c = make_rt(rng, adversarial=(i % 2 == 1), undefined_numeric=(k < 0.08))
            if c is not None:
                break
        if c is not None:
            yield c
    for i in range(n_read):
        c = make_read(rng)
        if c is not None:
            yield c
    for i in range(n_plan):
        c = make_plan(rng)
        if c is not None:
            yield c
    for i in range(n_num):
        yield make_num(rng)
    for i in range(n_ttplan):
        c = make_ttplan(rng)
        if c is not None:
            yield c
            if _inexact_plan(c[3]):
                c2 = make_ttread(rng, base=c)
                if c2 is not None:
                    yield c2
    for i in range(n_ttread):
        c = make_ttread(rng)
        if c is not None:
            yield c


# ------------------------------------------------------------------------------------------------
# real code
# ------------------------------------------------------------------------------------------------

def up_read(dom_text, prob_text):
    return cp.up_read_cached(dom_text, prob_text)


def read_texts(payload):
    """the PDDL texts of a `read` case (layout and comments drawn from the payload's own hash)"""
    rng = random.Random(int(hashlib.sha1(sexp.dumps(payload).encode()).hexdigest()[:8], 16))
    return cp.render_text(rng, payload[1]), cp.render_text(rng, payload[2])


def const_names_of(dom_tree):
    for sec in dom_tree:
        if isinstance(sec, list) and sec and sec[0] == ":constants":
            return set(x for g, _ in cp._groups(sec[1:]) for x in g)
    return set()


def impl(payload):
    kind = payload[0]
    if kind == "rt":
        try:
            P, ctx = upp.build_problem(payload[1])
        except Exception as e:
            return ["build-error", type(e).__name__]
        try:
            w, dom, prob, k, ren = cp.derive(P)
        except Exception as e:
            return "unsupported"
        if k != payload[2] or ren != payload[3]:
            return ["stale-derived-data"]
        dt, pt = cp.tokenize(dom), cp.tokenize(prob)
        try:
            Q = up_read(dom, prob)
        except Exception as e:
            return "error"
        rb = cp.canon_read_problem(upp.enc_problem(Q), const_names_of(dt))
        return ["ok", cp.canon_domain_tree(dt), cp.sort_quant_tree(pt), rb, "T"]
    if kind == "read":
        dom, prob = read_texts(payload)
        try:
            Q = up_read(dom, prob)
        except Exception as e:
            return "error"
        return ["ok", cp.canon_read_problem(upp.enc_problem(Q))]
    if kind == "plan":
        P, ctx = upp.build_problem(payload[3])
        w, dom, prob, k, ren = cp.derive(P)
        if ren != payload[1]:
            return ["stale-derived-data"]
        steps = [(P.action(s[0]), [P.object(o) for o in s[1:]]) for s in payload[2][1:]]
        plan = cp.seq_plan(P, steps)
        try:
            text = w.get_plan(plan)
        except Exception:
            return "unsupported"
        trees = [cp.tokenize(l) for l in text.splitlines() if l.strip()]
        try:
            back = cp.reader("up").parse_plan_string(P, text, w.get_item_named)
            bs = [[ai.action.name] + [p.object().name for p in ai.actual_parameters] for ai in back.actions]
        except Exception:
            bs = "error"
        return ["ok", trees, bs]
    if kind == "num":
        q = Fraction(payload[1])
        conv = ConverterToPDDLString(up.environment.get_environment(), lambda x: x.name)
        with warnings.catch_warnings(record=True) as wl:
            warnings.simplefilter("always")
            s = str(conv.convert_fraction(q))
        if any("cannot exactly represent" in str(x.message) for x in wl):
            return "inexact"
        try:
            back = Fraction(s)       # what both readers do with a numeric token
        except Exception:
            return ["ok", s, "error"]
        return ["ok", s, cp.q2s(back)]
    if kind in ("ttplan", "ttread"):
        try:
            prep = tp.prepare(payload[4], payload[5])
        except Exception as e:
            return ["build-error", type(e).__name__]
        if prep.ren != payload[1] or prep.sig != payload[2]:
            return ["stale-derived-data"]
        if not prep.ren_ok:
            return ["hypothesis-violated", "RenOK"]      # the hypothesis of the Lean round-trip theorem, on the real writer
        if kind == "ttread":
            u, d = tp.read_both(prep, tp.codes_text(payload[3]))
            return ["read", u, d]
        try:
            text, inexact = tp.write_text(prep, tp.real_plan(prep, payload[3]))
        except Exception:
            return "unsupported"
        if inexact:
            return "inexact"
        u, d = tp.read_both(prep, text)
        return ["ok", tp.text_codes(text), u, d]
    return ["unknown-case"]


def compare(m, a):
    """model answer vs code answer"""
    if isinstance(a, list) and a and a[0] == "read" and len(a) == 3:           # ttread: both real readers vs the reader model
        return m == a[1] and m == a[2]
    if isinstance(a, list) and a and a[0] == "ok" and len(a) == 4 and isinstance(a[1], list) and a[1][:1] == ["text"]:   # ttplan
        return isinstance(m, list) and len(m) == 3 and m[0] == "ok" and m[1] == a[1] and m[2] == a[2] and m[2] == a[3]
    if isinstance(m, list) and m and m[0] == "ok" and isinstance(a, list) and a and a[0] == "ok" and len(m) == 5 and len(a) == 5:
        consts = const_names_of(m[1])
        return (cp.canon_domain_tree(m[1]) == a[1] and cp.sort_quant_tree(m[2]) == a[2]
                and cp.canon_read_problem(m[3], consts) == a[3] and m[4] == a[4])
    if isinstance(m, list) and m and m[0] == "ok" and isinstance(a, list) and a and a[0] == "ok" and len(m) == 2 and len(a) == 2:
        try:
            return cp.canon_read_problem(m[1]) == a[1]
        except Exception:
            return False
    return m == a


# ------------------------------------------------------------------------------------------------
# evidence helpers
# ------------------------------------------------------------------------------------------------

def _text_features(tree, acc):
    if isinstance(tree, list):
        if tree and isinstance(tree[0], str):
            h = tree[0]
            if h in ("when", "forall", "exists", "imply", "or", ":constants", "increase", "decrease", "assign"):
                acc.add(h)
            if h in ("+", "*") and len(tree) == 3 and isinstance(tree[2], list) and tree[2] and tree[2][0] == h:
                acc.add("nested-arith")
        for t in tree:
            _text_features(t, acc)


def _tt_tags(payload, ans):
    k = payload[0]
    out = []
    if k == "ttplan":
        plan = payload[3]
        if plan[0] == "seq":
            out.append("ttplan:sequential")
        else:
            acts = {a[0]: a for a in payload[2][3][1:]}
            dnames = set(d[1] for d in payload[5][1][1:])
            kinds = set("durative" if e[1] in dnames else "instantaneous" for e in plan[1:])
            if len(kinds) == 2:
                out.append("ttplan:mixed-kinds")
            qs = [Fraction(q) for e in plan[1:] for q in (e[0], e[3]) if q != "-"]
            if any(q.denominator != 1 for q in qs):
                out.append("ttplan:non-integer-time")
            if any(q != 0 and (q < Fraction(1, 10000) or q >= 10 ** 16) and q.denominator != 1 for q in qs):
                out.append("ttplan:float-exponent-range")
            if any(not _finite(q) for q in qs):
                out.append("ttplan:non-finite-decimal")
            if any(e[3] == "0" for e in plan[1:]):
                out.append("ttplan:zero-duration")
            if any(e[3] == "-" for e in plan[1:]) and any(e[3] != "-" for e in plan[1:]):
                out.append("ttplan:with-and-without-duration")
            out.append(f"ttplan:len-{len(plan) - 1}")
            if isinstance(ans, list) and ans and ans[0] == "ok":
                try:
                    prep = tp.prepare(payload[4], payload[5])
                    out.append("ttplan:verdict-" + tp.validate_tt(prep, tp.real_plan(prep, plan)))
                except Exception:
                    pass
        if any(len(r) >= 3 and r[0] in ("action", "obj") and r[-1] != r[1] for r in payload[1][1:]):
            out.append("ttplan:renamed")
    if k == "ttread" and isinstance(ans, list) and ans and ans[0] == "read":
        u = ans[1]
        out.append("ttread:" + (u[0] if u[0] != "error" else "error-" + u[1]))
        text = tp.codes_text(payload[3])
        if any(c in text for c in "\r\x0b\x0c\x1c\x1d\x1e\x85"):
            out.append("ttread:other-line-boundary")
        if text != text.lower():
            out.append("ttread:upper-case")
        if any(l.strip().startswith(";") for l in text.splitlines()):
            out.append("ttread:comment-line")
    return out


def stats(payload, ans):
    k = payload[0]
    out = [k]
    if k in ("ttplan", "ttread"):
        if isinstance(ans, str):
            out.append(f"{k}:{ans}")
        return out + _tt_tags(payload, ans)
    if not (isinstance(ans, list) and ans and ans[0] == "ok"):
        out.append(f"{k}:{ans if isinstance(ans, str) else ans[0]}")
        return out
    if k == "rt":
        acc = set()
        _text_features(ans[1], acc)
        _text_features(ans[2], acc)
        out += [f"rt:{x}" for x in sorted(acc)]
        if any(len(r) >= 3 and r[-1] != r[1] and r[-1].lstrip("?") != r[1] for r in payload[3][2:]):
            out.append("rt:renamed")
        if any(m for m in upp.get(payload[1], "metrics")):
            out.append("rt:metric-" + upp.get(payload[1], "metrics")[0][0])
        if "HIERARCHICAL_TYPING" in payload[2]:
            out.append("rt:hierarchical")
    if k == "read":
        v = _read_tags(payload)
        out += [f"read:{t}" for t in v]
    return out


def _read_tags(payload):
    """which non-writer forms a read payload contains (recomputed from the trees)"""
    tags = set()

    def walk(t):
        if isinstance(t, list):
            if t and isinstance(t[0], str):
                h = t[0].lower()
                if h in (">=", ">"):
                    tags.add("ge/gt")
                if h == "-" and len(t) == 2:
                    tags.add("unary-minus")
                if h in ("and", "or") and any(isinstance(x, list) and x and x[0] == t[0] for x in t[1:]):
                    tags.add("nested-" + h)
                if h in ("+", "*") and len(t) > 3:
                    tags.add("n-ary-arith")
                if h == ":parameters":
                    pass
            for i, x in enumerate(t):
                if isinstance(x, str) and x != x.lower():
                    tags.add("upper-case")
                walk(x)
    walk(payload[1])
    walk(payload[2])
    for sec in payload[1]:
        if isinstance(sec, list) and sec and sec[0] in (":constants",):
            tags.add("constants")
        if isinstance(sec, list) and sec and sec[0] == ":action":
            for i, x in enumerate(sec):
                if x == ":parameters":
                    gs = cp._groups(sec[i + 1])
                    if any(len(ns) > 1 for ns, t in gs):
                        tags.add("multi-typed-list")
                    if any(t is None for ns, t in gs):
                        tags.add("untyped")
                if x == ":precondition" and sec[i + 1] in ([], ["and"]):
                    tags.add("empty-precondition")
    for sec in payload[2]:
        if isinstance(sec, list) and sec and sec[0] == ":init" and any(isinstance(x, list) and x and x[0] == "not" for x in sec[1:]):
            tags.add("negative-init-literal")
    return sorted(tags)


def nontrivial(payload, ans):
    k = payload[0]
    if k == "ttplan":
        t = _tt_tags(payload, ans)
        return isinstance(ans, list) and ans[0] == "ok" and any(x in t for x in ("ttplan:mixed-kinds", "ttplan:non-integer-time",
                                                                                  "ttplan:renamed"))
    if k == "ttread":
        return isinstance(ans, list) and ans[0] == "read"
    if not (isinstance(ans, list) and ans and ans[0] == "ok"):
        return False
    if k == "rt":
        acc = set()
        _text_features(ans[1], acc)
        _text_features(ans[2], acc)
        renamed = any(len(r) >= 3 and r[-1].lstrip("?") != r[1] for r in payload[3][2:])
        return bool(acc & {"when", "forall", "exists", "nested-arith"}) or renamed
    if k == "read":
        return bool(_read_tags(payload))
    if k == "plan":
        return any(len(r) >= 3 and r[0] in ("action", "obj") and r[-1] != r[1] for r in payload[1][1:])
    if k == "num":
        s = ans[1]
        digits = s.replace("-", "").replace(".", "").lstrip("0")
        return len(digits) > 10 or s.lstrip("-").startswith("0.0")
    return False


# ------------------------------------------------------------------------------------------------
# the property itself, on the real code
# ------------------------------------------------------------------------------------------------

def _needs_rewrite(P):
    return any(e.value.type.is_bool_type() and not e.value.is_bool_constant() for a in P.actions for e in a.effects)


def _oracle_problem(ps, depth, pick):
    try:
        P, ctx = upp.build_problem(ps)
    except Exception:
        return None        # not a problem the library accepts: outside the quantifier
    why = cp.outside_fragment(P)
    if why:
        return None
    kw = {"rewrite_bool_assignments": True} if _needs_rewrite(P) else None
    undefined = any(v is None for f in cp.ground_fluents(P) for v in [P.initial_value(f)])
    why, info = cp.roundtrip_check(P, -1 if undefined else depth, writer_kw=kw, pick=pick)
    return why


def oracle(payload):
    k = payload[0]
    pick = int(hashlib.sha1(sexp.dumps(payload).encode()).hexdigest()[:6], 16)
    depth = 3
    if k == "rt":
        # the problem as generated (its simplified copy, which the model sees, denotes the same problem)
        return _oracle_problem(payload[4][1] if len(payload) > 4 else payload[1], depth, pick)
    if k == "read":
        # the property applied to the problem this text denotes: write it, read it back, compare (every other case:
        # one pyparsing pass costs ~0.3 s)
        if pick % 2:
            return None
        dom, prob = read_texts(payload)
        try:
            Q = up_read(dom, prob)
        except Exception:
            return None
        if cp.outside_fragment(Q):
            return None
        undefined = any(Q.initial_value(f) is None for f in cp.ground_fluents(Q))
        why, info = cp.roundtrip_check(Q, -1 if undefined else 1, readers=("up",), pick=pick)
        return why
    if k == "plan":
        a = impl(payload)
        if not (isinstance(a, list) and a[0] == "ok"):
            return f"plan could not be written: {a}"
        want = [s for s in payload[2][1:]]
        if a[2] != want:
            return f"plan written by the writer parses back to {a[2]}, expected {want}"
        return None
    if k == "ttplan":
        return _oracle_ttplan(payload[4], payload[5], payload[3])
    if k == "ttread":
        # the property applied to the plan this text denotes (if the reader accepts it): write it, read it back
        try:
            prep = tp.prepare(payload[4], payload[5])
        except Exception:
            return None
        u, d = tp.read_both(prep, tp.codes_text(payload[3]))
        if u[0] == "error" or (u[0] == "tt" and len(u) == 1):
            return None
        return _oracle_ttplan(payload[4], payload[5], u)
    if k == "num":
        q = Fraction(payload[1])
        d = q.denominator
        for p in (2, 5):
            while d % p == 0:
                d //= p
        if d != 1:
            return None      # no finite decimal expansion: outside the quantifier
        a = impl(payload)
        if a == "inexact" or not isinstance(a, list) or a[2] != cp.q2s(q):
            return f"rational {payload[1]} with a finite decimal expansion is written as {a}"
        return None
    return None


def _oracle_ttplan(ps, temporal, plan):
    """C18's last clause on the real code: the plan written by the writer parses back, with either reader, to an equal plan
    with the same validator verdict.  Quantifier: times with a finite decimal expansion, >= 0."""
    if plan[0] == "tt":
        qs = [Fraction(q) for e in plan[1:] for q in (e[0], e[3]) if q != "-"]
        if any(not _finite(q) or q < 0 for q in qs):
            return None
    try:
        prep = tp.prepare(ps, temporal)
        real = tp.real_plan(prep, plan)
    except Exception:
        return None          # not a plan of a problem the library accepts
    try:
        text, inexact = tp.write_text(prep, real)
    except Exception as e:
        return f"the writer raises {type(e).__name__} on the plan {sexp.dumps(plan)[:200]}"
    if inexact:
        return f"the writer cannot represent a finite-decimal time exactly: {text!r}"
    for rname, rd in tp.readers(prep):
        try:
            back = tp.ttlib.guarded(lambda: rd.parse_plan_string(prep.P, text, prep.w.get_item_named), 20)
        except Exception as e:
            return f"{rname} raises {type(e).__name__} on the written plan {text!r}"
        if not (back == real):
            return f"{rname} reads the written plan {text!r} back as {sexp.dumps(tp.enc_plan(back))[:300]}"
        if plan[0] == "tt":
            v1, v2 = tp.validate_tt(prep, real), tp.validate_tt(prep, back)
            if v1 != v2:
                return f"validity differs after the round trip through {rname}: {v1} vs {v2} on {text!r}"
    return None


def known_cause(payload):
    # D-C18-empty-tt-plan: the empty TimeTriggeredPlan is written as the empty text, which carries no plan kind
    if payload[0] == "ttplan" and payload[3] == ["tt"]:
        return "D-C18-empty-tt-plan"
    return None


# ------------------------------------------------------------------------------------------------
# shrinking
# ------------------------------------------------------------------------------------------------

def _without(lst, i):
    return lst[:i] + lst[i + 1:]


def shrink(payload):
    k = payload[0]
    if k == "rt":
        raw = payload[4][1] if len(payload) > 4 else payload[1]
        for cand in _shrink_problem(raw):
            r = cp.simplify_problem(cand)
            if r is None:
                continue
            ps2, P2, ctx2 = r
            try:
                w, dom, prob, kind, ren = cp.derive(P2)
            except Exception:
                kind, ren = ["kind"], ["ren"]
            yield ["rt", ps2, kind, ren, ["raw", cand]]
    elif k == "read":
        d, p = payload[1], payload[2]
        for i, sec in enumerate(d):
            if isinstance(sec, list) and sec and sec[0] == ":action":
                yield ["read", _without(d, i), p]
        for i, sec in enumerate(p):
            if isinstance(sec, list) and sec and sec[0] == ":init":
                for j in range(1, len(sec)):
                    yield ["read", d, p[:i] + [_without(sec, j)] + p[i + 1:]]
    elif k == "plan":
        steps = payload[2]
        for i in range(1, len(steps)):
            yield ["plan", payload[1], _without(steps, i), payload[3]]
    elif k == "ttplan":
        plan = payload[3]
        for i in range(1, len(plan)):
            if len(plan) > 2:
                yield ["ttplan", payload[1], payload[2], _without(plan, i), payload[4], payload[5]]
        if plan[0] == "tt":
            for i in range(1, len(plan)):
                e = plan[i]
                for st, du in ((("0", e[3]), (e[0], "1"), (e[0], "-"))):
                    if (st, du) != (e[0], e[3]):
                        yield ["ttplan", payload[1], payload[2], plan[:i] + [[st, e[1], e[2], du]] + plan[i + 1:], payload[4], payload[5]]
    elif k == "ttread":
        text = tp.codes_text(payload[3])
        lines = text.split("\n")
        for i in range(len(lines)):
            if len(lines) > 1:
                yield ["ttread", payload[1], payload[2], tp.text_codes("\n".join(_without(lines, i))), payload[4], payload[5]]


def _shrink_problem(ps):
    secs = {s[0]: i for i, s in enumerate(ps) if isinstance(s, list) and s}

    def put(key, val):
        out = list(ps)
        out[secs[key]] = [key] + val
        return out
    acts = upp.get(ps, "actions")
    for i in range(len(acts)):
        ms = [m for m in upp.get(ps, "metrics")]
        ms2 = []
        for m in ms:
            if m[0] == "min-action-costs":
                ms2.append([m[0], [c for c in m[1] if c[0] != acts[i][1]], m[2] if m[2] != "_" else ["i", "1"]])
            else:
                ms2.append(m)
        out = put("actions", _without(acts, i))
        out[secs["metrics"]] = ["metrics"] + ms2
        yield out
    if upp.get(ps, "metrics"):
        yield put("metrics", [])
    goals = upp.get(ps, "goals")
    for i in range(len(goals)):
        yield put("goals", _without(goals, i))
    for ai, a in enumerate(acts):
        for j in range(1, len(a[3])):
            na = ["action", a[1], a[2], _without(a[3], j), a[4]]
            yield put("actions", acts[:ai] + [na] + acts[ai + 1:])
        for j in range(1, len(a[4])):
            if len(a[4]) > 2:
                na = ["action", a[1], a[2], a[3], _without(a[4], j)]
                yield put("actions", acts[:ai] + [na] + acts[ai + 1:])
        for j in range(1, len(a[4])):
            e = a[4][j]
            if e[4] != ["b", "T"]:
                na = ["action", a[1], a[2], a[3], a[4][:j] + [["eff", e[1], e[2], e[3], ["b", "T"], e[5]]] + a[4][j + 1:]]
                yield put("actions", acts[:ai] + [na] + acts[ai + 1:])


MANIFEST = {
    "level_text": ("Lean 4 theorems (Props/C18.lean) about an executable model of PDDLWriter and UPPDDLReader on s-expression "
                   "trees: exact decimal constants round-trip, every expression of the fragment printed by the writer model is "
                   "read back as its renamed normal form and that normal form has the same denotation, plan text round-trips (sequential "
                   "plans on trees; time-triggered and sequential plans character by character, Props/C18TTPlan.lean: the text "
                   "written for a plan whose names are renamed and whose times are >= 0 with a finite decimal expansion is read "
                   "back by the model of parse_plan_string — splitlines, the three regular expressions, the is_tt switch — as "
                   "exactly that plan, hence with the same validity); "
                   "the whole-problem round trip `pddlRead (pddlPrint P) = pddlNorm P` is stated in full, proved for its "
                   "expression/number/plan components and evaluated by the compiled model on every generated problem. The model "
                   "is tied to the real writer and reader by a differential correspondence (tokenised text, problem read back, "
                   "texts in forms the writer never emits), and the property itself (objects, initial state, bisimulation, goals, "
                   "plan validity under the writer's renaming) is run on the real code for every case."),
    "level_note": ("Partial: the parsers (pyparsing, external pddl package) are tied by sampling only. Trusted: Lean kernel, "
                   "axioms propext/Classical.choice/Quot.sound, correspondence harness. Parameters taken from the real code: "
                   "ProblemKind features (C10), renaming (C38), simplifier fixed points (C11)."),
    "technique": "Lean 4 proof about writer/reader models + model/code correspondence + behavioural oracle",
    "design_ref": "DESIGN.md §5 C18",
}
