"""C09 — Declared resulting problem kind over-approximates the compiled problem's kind."""
import hashlib
import random
import warnings
from collections import OrderedDict
from fractions import Fraction

warnings.simplefilter("ignore")
import unified_planning as up
from unified_planning.engines import CompilationKind
from unified_planning.engines.engine import OperationMode
from unified_planning.exceptions import UPNoSuitableEngineAvailableException
from unified_planning.model import (DurativeAction, InstantaneousAction, Problem, StartTiming, EndTiming,
                                    GlobalStartTiming, ClosedTimeInterval, OpenTimeInterval, TimePointInterval,
                                    FixedDuration, ClosedDurationInterval, OpenDurationInterval,
                                    LeftOpenDurationInterval, UPState)
from unified_planning.model.metrics import MinimizeMakespan, MinimizeActionCosts, TemporalOversubscription
from unified_planning.model.contingent import ContingentProblem
from unified_planning.model.problem_kind import ProblemKind, all_features, get_valid_features
from unified_planning.model.problem_kind_versioning import FEATURES_VERSIONS, LATEST_PROBLEM_KIND_VERSION

import sexp
import upp

ID = "C09"
GEN = ["Features", "Kinds"]
CORR_NAME = "declared-kinds-and-pipeline-acceptance"
RULE = ("seven case shapes. (probs) one real problem — a bundled example (unified_planning.test.examples, incl. the "
        "multi-agent ones), a problem of harness/upp.py ProblemGen (classical/numeric, metrics, invariants, undefined "
        "values, bounded/object/real fluents; 30% with their metric replaced by a number-pure NumGen metric) or its temporal "
        "variant (durative actions with fixed/interval/fluent "
        "durations, start/end/intermediate/overall conditions and effects, timed effects and goals, makespan), or (40% of the "
        "generated problems) a NumGen problem `num` / its rich temporal variant `tnum`: small problems built around ONE "
        "number-typed family of the kind kept pure (only real or only integer numbers, because a feature set cannot show a "
        "change the other number type already hides) — Oversubscription / TemporalOversubscription goals that COINCIDE after a "
        "rewriting (g, g and true, g or false, not not g, g and g, Forall/Exists over a one-object type, Forall v. bq(v) vs the "
        "written-out conjunction, Exists vs the disjunction, at == t1 vs t1 == at, x <= 2 vs not (2 < x)) with non-integer real gains "
        "adding up to an integer within a group (1/2+1/2, 1/3+2/3, 3/2+1/2, 1/3+1/3+1/3 ...), all-real, all-integer or mixed gains; "
        "action costs that are real expressions with an integer value (1/2*2, 4/2, 3/2-1/2), non-integer ones, static real "
        "fluents with integer or non-integer values (0-ary and over the action's parameter), integer expressions, with/without "
        "default, for some or all actions; final-value metrics over numeric fluents; numeric fluents of one type only "
        "(none/int/real/both), static ones used only in costs or durations; durations of one number type (real expressions "
        "with an integer value, divisions, static fluents); plus quantified/negative/disjunctive/equality conditions, "
        "conditional effects, bounded types, an object fluent and a state invariant so that every remover has work to do — is given "
        "to EVERY compiler class whose supports() accepts its kind; compared: the real resulting_problem_kind(kind) and the "
        "features of the compiled problem's kind outside it, against the model's transformer and `<=` on the observed "
        "kinds. (pipe) the same problems through Factory.Compiler(problem_kind=kind, compilation_kinds=cks) for ordered "
        "1-3 subsets of the compilation kinds (30% planted so that the second compiler is selectable only for the kind the "
        "first one DECLARES): selected engines, per stage whether supports(actual kind) holds and the "
        "features outside the declared chain. (rk) resulting_problem_kind of every class on random and realistic kinds, "
        "versions None/1..latest. (rk, old versions) for EVERY class and each explicit version 1..latest-1, and without "
        "declared version, kinds over the features that exist at that version — drawn from the class's own supported kind "
        "(so that most are supported), the features deprecated since, the features that trigger the additions of "
        "utils.rewritten_problem_kind, and random others. (up) utils._kind_at_latest_version alone on kinds of every version. (sk) supported_kind and supports_compilation of every class. (chain) the factory's "
        "declared chain on random/realistic kinds. Non-trivial = (probs) some compiler compiled the problem and changed its "
        "kind (distribution: number-type-gained:<class>:<feature> counts the compilations after which the compiled kind has an "
        "INT_/REAL_ number feature the input lacks, metric:* the metric family / purity of the generated problem); (pipe) a pipeline of >= 2 stages ran to the end; (rk) the transformer changed the kind (an older kind: the result has features the "
        "upgrade or the body added) or failed its version assertion; (up) the kind was older and got upgraded; (chain) >= 2 stages selected or no engine found.")
ASSUMPTIONS = [
    "a compiler that raises on a problem inside its supported kind (or does not finish within 8 s: a DNF can blow up) "
    "produces no compiled problem: that is C08's subject; such cases are counted (distribution: compile-error:<class>) "
    "and make no demand here",
    "Ks0Compiler is given two possible_initial_states when the problem is not a ContingentProblem (it cannot be run "
    "otherwise): the problem's initial state and the one with its first Boolean fluent flipped",
    "only the compilers shipped in unified_planning/engines/compilers are registered in the factory (no external grounders); "
    "TarskiGrounder cannot be imported here, its declarations are translated and compared but it compiles nothing",
    "problem kinds carry the explicit latest version (Problem.kind always builds them so); kind-level cases also use "
    "versions None/1/2",
    "a declaration that raises declares no kind: for a constructible kind (of any version) that the class supports, "
    "resulting_problem_kind raising is read as a failure of clause 1 (there is no 'kind the compiler declares as its "
    "result for the input kind'), and Factory.Compiler(problem_kind, compilation_kinds) raising anything but the "
    "no-suitable-engine error as a failure of clause 2 (no pipeline was selected although none was refused)",
    "kinds given to Factory.Compiler contain no feature deprecated at their version (ProblemKind.__le__ strips such "
    "features from its operands in place, see C32/C33)",
]
MODELLED = ["regenerated from source on every run (harness/translate_C09.py): every supported_kind / supports / "
            "supports_compilation / resulting_problem_kind body of engines/compilers/*.py as a first-order program, the "
            "factory's preference order of the compilers, FEATURES (which has_*/set_*/unset_* exist and what they test)",
            "utils._kind_at_latest_version and problem_kind_versioning.equalize_versions are matched statement by statement "
            "against the bodies modelled as KindProg.kindAtLatest / Kind.equalize (a changed body is TRANSLATION-BROKEN); "
            "which classes start from it (Decl.atLatest) is read from the source",
            "modelled by hand (tied by correspondence): ProblemKindMeta._set/_unset/_has, clone, ProblemKind.__le__ (C33), "
            "the ProblemKind constructor's assertions, the compilers-pipeline branch of Factory._get_engine and "
            "_get_engine_class for the COMPILER mode",
            "read from the code by hand: WHICH compiler classes simplify durations / action costs (Grounder, "
            "TrajectoryConstraintsRemover, UsertypeFluentsRemover) or sum oversubscription gains (BoundedTypesRemover, "
            "StateInvariantsRemover) — the table numberRewriters of Props/C09Numbers.lean; the oracle watches every class for "
            "number-type features outside its declaration, so a class missing from the table is a VIOLATION, not a silent gap",
            "NOT modelled: the compilers themselves and Problem.kind (clause 1 of the property is checked on the real code "
            "by the oracle; its Lean statement C09_compiler_full is a hypothesis of the pipeline theorems)"]
EXTRA_PROPS = ["UPVerif.Props.C09Versions", "UPVerif.Props.C09Numbers"]
BUDGET_S = {"quick": 70, "thorough": 700}
SEARCH_S = {"quick": 60, "thorough": 300}

FEATS = sorted(all_features)
LATEST = LATEST_PROBLEM_KIND_VERSION

# ------------------------------------------------------------------------------------------------
# the real compilers
# ------------------------------------------------------------------------------------------------
_ENV = up.environment.get_environment()
_ENV.credits_stream = None
_FACTORY = _ENV.factory
import unified_planning.engines.compilers as _compilers_pkg


def _compiler_classes():
    """class name -> class, for every concrete compiler class of the package"""
    out = {}
    for n in dir(_compilers_pkg):
        c = getattr(_compilers_pkg, n)
        if isinstance(c, type) and hasattr(c, "resulting_problem_kind") and n != "CompilersPipeline":
            out[c.__name__] = c
    for n in _FACTORY.engines:
        c = _FACTORY.engine(n)
        if c.is_compiler() and c.__module__.startswith("unified_planning.engines.compilers."):
            out[c.__name__] = c
    try:  # not importable without tarski; its kind declarations are still reachable
        from unified_planning.engines.compilers.tarski_grounder import TarskiGrounder
        out["TarskiGrounder"] = TarskiGrounder
    except Exception:
        pass
    return out


CLASSES = _compiler_classes()
CKS = [ck.name for ck in CompilationKind]


def avail():
    return [n for n in _FACTORY.preference_list
            if _FACTORY.engine(n).is_compiler() and _FACTORY.engine(n).__module__.startswith("unified_planning.engines.compilers.")]


def cks_of(C):
    out = []
    for ck in CompilationKind:
        try:
            if C.supports_compilation(ck):
                out.append(ck.name)
        except Exception:
            pass
    return out


def added(f):
    return FEATURES_VERSIONS.get(f, (1, None))[0]


def enc_kind(k):
    return ["k", sorted(k.features), "none" if k._version is None else str(k._version)]


def dec_kind(e):
    return ProblemKind(set(e[1]), version=None if e[2] == "none" else int(e[2]))


def extra_features(kq, dk):
    """features that make `kq <= dk` fail, computed like ProblemKind.__le__ (on copies)"""
    from unified_planning.model.problem_kind_versioning import equalize_versions
    a, b, v = equalize_versions(set(kq.features), set(dk.features), kq.version, dk.version)
    valid = get_valid_features(v)
    return sorted((set(a) & valid) - (set(b) & valid))


# ------------------------------------------------------------------------------------------------
# problems
# ------------------------------------------------------------------------------------------------
_EXAMPLES = None


def examples():
    global _EXAMPLES
    if _EXAMPLES is None:
        from unified_planning.test.examples import get_example_problems
        ex = {n: e.problem for n, e in get_example_problems().items()}
        try:
            from unified_planning.test.examples.multi_agent import get_example_problems as ma
            for n, e in ma().items():
                ex.setdefault("ma:" + n, e.problem)
        except Exception:
            pass
        _EXAMPLES = ex
    return _EXAMPLES


def rich_duration(P, em, rng, mode):
    """a duration bound whose NUMBER TYPE a rewriting can change (rich temporal variant): mode real = expressions of
    real type (constants, real operations whose value is an integer, a division of integers, a static real fluent whose
    value may be an integer), mode int = expressions of integer type"""
    R = lambda a, b: em.Real(Fraction(a, b))
    names = {f.name for f in P.fluents}
    if mode == "real":
        pool = [R(3, 2), R(5, 2), em.Times(R(1, 2), em.Int(2)), em.Plus(R(1, 2), R(1, 2)), em.Plus(R(1, 2), R(3, 2)),
                em.Div(em.Int(4), em.Int(2)), em.Div(em.Int(3), em.Int(2)), em.Minus(R(5, 2), R(1, 2))]
        if "zs" in names:
            zs = em.FluentExp(P.fluent("zs"))
            pool += [em.Plus(zs, R(1, 2)), em.Times(zs, em.Int(2)), zs]
    else:
        pool = [em.Int(1), em.Int(2), em.Int(3), em.Plus(em.Int(1), em.Int(1)), em.Times(em.Int(2), em.Int(2))]
        if "xs" in names:
            xs = em.FluentExp(P.fluent("xs"))
            pool += [em.Plus(xs, em.Int(1)), xs]
    return rng.choice(pool)


def temporalize(P, rng, rich=False):
    """temporal variant of an instantaneous problem (same environment): actions become durative with random
    duration shapes and condition/effect timings; timed effects, timed goals and a makespan metric are added.
    rich (the `tnum` source): the durations are of ONE number type per problem (real expressions that simplify to
    integers, divisions, static fluents; or integer expressions; or the plain mix) and an Oversubscription metric
    becomes a TemporalOversubscription (goals that coincide after a rewriting keep one interval)"""
    env = P.environment
    em = env.expression_manager
    dmode = rng.choice(["real", "real", "real", "int", "mix"]) if rich else "mix"
    Q = Problem(P.name + "_t", env)
    for f in P.fluents:
        d = P.fluents_defaults.get(f, None)
        Q.add_fluent(f) if d is None else Q.add_fluent(f, default_initial_value=d)
    Q.add_objects(P.all_objects)
    for f, v in P.explicit_initial_values.items():
        Q.set_initial_value(f, v)
    num = [f for f in P.fluents if (f.type.is_int_type() or f.type.is_real_type()) and f.arity == 0
           and not (rich and f.name in ("zs", "xs"))]        # the static fluents of NumGen stay static
    amap = {}
    for a in P.actions:
        if rng.random() < 0.3:
            b = a.clone()
            Q.add_action(b)
            amap[a] = b
            continue
        b = DurativeAction(a.name, OrderedDict((p.name, p.type) for p in a.parameters), env)
        k = rng.random()
        if dmode != "mix":
            lo = rich_duration(P, em, rng, dmode)
            try:
                if rng.random() < 0.6:
                    b.set_fixed_duration(lo)
                else:       # [lo, lo + lo'] with lo' of the same number type: never an empty interval
                    b.set_closed_duration_interval(lo, em.Plus(lo, rich_duration(P, em, rng, dmode)))
            except Exception:
                b.set_fixed_duration(lo)
        elif k < 0.3:
            b.set_fixed_duration(rng.choice([1, 2, 3]))
        elif k < 0.4:
            b.set_fixed_duration(Fraction(3, 2))
        elif k < 0.6:
            b.set_closed_duration_interval(1, rng.choice([2, 3, Fraction(5, 2)]))
        elif k < 0.7:
            b.set_duration_constraint(rng.choice([OpenDurationInterval, LeftOpenDurationInterval])(em.Int(1), em.Int(4)))
        elif num:
            f = rng.choice(num)
            lo = em.Plus(em.FluentExp(f), 1)
            b.set_duration_constraint(FixedDuration(lo) if rng.random() < 0.5 else ClosedDurationInterval(lo, em.Plus(lo, 2)))
        else:
            b.set_fixed_duration(2)
        for c in a.preconditions:
            iv = rng.choice([StartTiming(), EndTiming(), ClosedTimeInterval(StartTiming(), EndTiming()),
                             OpenTimeInterval(StartTiming(), EndTiming()), TimePointInterval(StartTiming() + 1)
                             if rng.random() < 0.3 else StartTiming()])
            b.add_condition(iv, c)
        for e in a.effects:
            t = rng.choice([StartTiming(), EndTiming(), EndTiming(), StartTiming() + 1 if rng.random() < 0.4 else EndTiming()])
            try:
                fn = b.add_effect if e.is_assignment() else b.add_increase_effect if e.is_increase() else b.add_decrease_effect
                fn(t, e.fluent, e.value, e.condition, forall=e.forall)
            except Exception:
                pass
        Q.add_action(b)
        amap[a] = b
    for g in P.goals:
        Q.add_goal(g)
    for t in P.trajectory_constraints:
        Q.add_trajectory_constraint(t)
    ground_bool = [f for f in P.fluents if f.type.is_bool_type() and f.arity == 0]
    if rng.random() < 0.35 and ground_bool:
        for _ in range(rng.choice([1, 2])):
            try:
                Q.add_timed_effect(GlobalStartTiming(rng.choice([2, 5, Fraction(7, 2)])), rng.choice(ground_bool),
                                   rng.choice([True, False]))
            except Exception:
                pass
    if rng.random() < 0.2 and num:
        try:
            Q.add_timed_effect(GlobalStartTiming(rng.choice([3, 4])), rng.choice(num), 1)
        except Exception:
            pass
    if rng.random() < 0.15 and len(ground_bool) >= 2:
        try:   # a conditional timed effect
            f, g = rng.sample(ground_bool, 2)
            Q.add_timed_effect(GlobalStartTiming(rng.choice([1, 6])), f, rng.choice([True, False]), em.FluentExp(g))
        except Exception:
            pass
    if rng.random() < 0.3 and ground_bool:
        iv = rng.choice([TimePointInterval(GlobalStartTiming(6)), ClosedTimeInterval(GlobalStartTiming(1), GlobalStartTiming(4))])
        Q.add_timed_goal(iv, em.FluentExp(rng.choice(ground_bool)))
    for m in P.quality_metrics:
        if isinstance(m, MinimizeActionCosts):
            try:
                Q.add_quality_metric(MinimizeActionCosts({amap[a]: c for a, c in m.costs.items()}, m.default, env))
            except Exception:
                pass
        elif rich and m.is_oversubscription() and rng.random() < 0.65:
            ivs = [ClosedTimeInterval(GlobalStartTiming(1), GlobalStartTiming(4)), TimePointInterval(GlobalStartTiming(6)),
                   OpenTimeInterval(GlobalStartTiming(0), GlobalStartTiming(5))]
            one = rng.choice(ivs) if rng.random() < 0.7 else None
            Q.add_quality_metric(TemporalOversubscription({(one or rng.choice(ivs[:2]), g): v for g, v in m.goals.items()}, env))
        elif not m.is_minimize_sequential_plan_length():
            Q.add_quality_metric(m)
    if not Q.quality_metrics and rng.random() < 0.25:
        Q.add_quality_metric(MinimizeMakespan(env))
    k = rng.random()
    if k < 0.12:
        Q.discrete_time = True
    elif k < 0.24:
        Q.self_overlapping = True
    return Q


# ------------------------------------------------------------------------------------------------
# NumGen: problems in which the TYPE or VALUE of a number decides a feature of the kind, and a rewriting can change it
# ------------------------------------------------------------------------------------------------
def _fl(ref, *args):
    return ["fl", ref] + list(args)


def _o(n):
    return ["o", n, dict(map(tuple, NumGen.OBJECTS))[n]]


def _r(q):
    return ["r", q]


def _i(n):
    return ["i", str(n)]


TRUE_S, FALSE_S = ["b", "T"], ["b", "F"]
UT = lambda n: ["user", n]


class NumGen:
    """Small classical/numeric problems (wire format of harness/upp.py) built around ONE number-typed family of the kind
    at a time, kept PURE (only real, or only integer numbers in that family), because a feature set cannot show a
    change that the other number type already hides:

      gains of an Oversubscription metric over goals that COINCIDE after a rewriting — g, (g and true), (true and g),
        (g or false), not not g, (g and g), (g or g), Forall/Exists over the one-object type U of a body without the
        variable, Forall u:U. bu(u) / Exists u:U. bu(u) / bu(u1), Forall v:T. bq(v) / the written-out conjunction,
        at == t1 / t1 == at, x <= 2 / not (2 < x) / x + 0 <= 2 — with gains that are all non-integer reals adding up to
        an integer within a group (1/2 + 1/2, 1/3 + 2/3, 3/2 + 1/2, 1/3 + 1/3 + 1/3 ...), all real, all integer or mixed;
      action costs that are real expressions with an integer value (1/2 * 2, 1/2 + 1/2, 3/2 - 1/2, 4 / 2), non-integer
        real ones, a static real fluent (integer or non-integer value, 0-ary or over the action's parameter), integer
        expressions, with or without default cost, for some or all actions;
      final-value metrics over the numeric / object fluents a compiler replaces;
      numeric fluents of one type only (none, int, real, both), static ones used only in costs (and, in the temporal
        variant, durations), bounded ones, an object fluent, quantified / negative / disjunctive / equality conditions,
        conditional effects, a state invariant — so that every remover has something to do.
    """
    TYPES = [["T", "_"], ["S", "T"], ["U", "_"]]
    OBJECTS = [["t1", "T"], ["s1", "S"], ["s2", "S"], ["u1", "U"]]
    B0, B1 = ["b0", "bool", []], ["b1", "bool", []]
    BU, BQ = ["bu", "bool", [UT("U")]], ["bq", "bool", [UT("T")]]
    AT = ["at", UT("T"), []]
    X, XS, XB = ["x", ["int", "_", "_"], []], ["xs", ["int", "_", "_"], []], ["xb", ["int", "0", "4"], []]
    Z, ZS, ZQ = ["z", ["real", "_", "_"], []], ["zs", ["real", "_", "_"], []], ["zq", ["real", "_", "_"], [UT("T")]]
    ZB = ["zb", ["real", "0", "5/2"], []]
    # groups of non-integer real gains that add up to an integer (also pairwise inside the triples)
    PARTS = {1: [["1/2"], ["3/2"], ["5/3"]],
             2: [["1/2", "1/2"], ["1/3", "2/3"], ["3/2", "1/2"], ["1/4", "3/4"], ["5/2", "3/2"], ["7/3", "2/3"]],
             3: [["1/3", "1/3", "1/3"], ["1/2", "1/4", "1/4"], ["1/2", "1/2", "1/2"], ["2/3", "2/3", "2/3"], ["3/2", "1/4", "1/4"]]}

    def __init__(self, rng):
        self.rng = rng

    # -- goals and their variants ---------------------------------------------------------------
    def base_goals(self, fl):
        b0, b1 = _fl(self.B0), _fl(self.B1)
        out = [b0, b1, ["and", b0, b1], ["or", b0, b1], ["not", b0], _fl(self.BQ, _o("t1")),
               ["and", _fl(self.BQ, _o("t1")), _fl(self.BQ, _o("s1")), _fl(self.BQ, _o("s2"))],
               ["or", _fl(self.BQ, _o("s1")), _fl(self.BQ, _o("s2"))]]
        if "bu" in fl:
            out += [_fl(self.BU, _o("u1"))] * 2
        if "at" in fl:
            out += [["eq", _fl(self.AT), _o("t1")]] * 2
        if "x" in fl:
            out += [["le", _fl(self.X), _i(2)]]
        if "z" in fl:
            out += [["lt", _fl(self.Z), _r("3/2")]]
        return out

    def variants(self, g):
        """expressions that some rewriting (simplification, quantifier expansion, NNF/DNF, negation or user-type
        fluent removal) turns into what it turns `g` into; `g` itself first"""
        u, v, k = ["u", UT("U")], ["v", UT("T")], ["k", UT("S")]
        out = [g, ["and", g, TRUE_S], ["and", TRUE_S, g], ["or", g, FALSE_S], ["not", ["not", g]], ["and", g, g], ["or", g, g],
               ["forall", [u], g], ["exists", [u], g]]
        if g == _fl(self.BU, _o("u1")):
            out += [["forall", [u], _fl(self.BU, ["v"] + u)], ["exists", [u], _fl(self.BU, ["v"] + u)]] * 2
        if g[0] == "and" and len(g) == 4:
            out += [["forall", [v], _fl(self.BQ, ["v"] + v)]] * 3
        if g[0] == "or" and g[1][1] == self.BQ:
            out += [["exists", [k], _fl(self.BQ, ["v"] + k)]] * 3
        if g[0] in ("and", "or") and len(g) == 3:
            out += [[g[0], g[2], g[1]]]
        if g[0] == "eq":
            out += [["eq", g[2], g[1]]] * 2
        if g[0] == "not":
            out += [["not", ["and", g[1], TRUE_S]], ["not", ["or", g[1], g[1]]]]
        if g[0] == "le":
            out += [["not", ["lt", g[2], g[1]]], ["le", ["plus", g[1], _i(0)], g[2]]]
        if g[0] == "lt":
            out += [["not", ["le", g[2], g[1]]], ["lt", ["times", g[1], _i(1)], g[2]]]
        return out

    def oversub(self, fl):
        r = self.rng
        mode = r.choice(["sum", "sum", "sum", "sum", "real", "int", "mixed"])
        goals, seen = [], set()
        for g in r.sample(self.base_goals(fl), r.choice([1, 1, 2])):
            m = r.choice([2, 2, 2, 3, 1])
            vs = []
            for c in [g] * (r.random() < 0.6) + r.sample(self.variants(g)[1:], len(self.variants(g)) - 1):
                key = sexp.dumps(c)
                if key not in seen and len(vs) < m:
                    seen.add(key)
                    vs.append(c)
            if mode == "sum":
                gains = list(r.choice(self.PARTS[len(vs)]))
                r.shuffle(gains)
            elif mode == "real":
                gains = [r.choice(["1/2", "1/3", "5/2", "7/3", "1/10"]) for _ in vs]
            elif mode == "int":
                gains = [r.choice(["1", "2", "3"]) for _ in vs]
            else:
                gains = [r.choice(["1", "2", "1/2", "3/2", "1/3"]) for _ in vs]
            goals += [[c, w] for c, w in zip(vs, gains)]
        return ["oversub", goals], "oversub-" + mode

    # -- action costs ---------------------------------------------------------------------------
    def cost(self, mode, fl, params):
        r = self.rng
        par = [p for p in params if p[1][1] in ("T", "S")]
        if mode == "mixed":
            mode = r.choice(["real", "int"])
        if mode == "real":
            pool = [_r("1/2"), _r("3/2"), ["times", _r("1/2"), _i(2)], ["plus", _r("1/2"), _r("1/2")], ["minus", _r("3/2"), _r("1/2")],
                    ["div", _i(4), _i(2)], ["div", _i(3), _i(2)], ["times", _r("3/2"), _r("2/3")], ["plus", _r("1/3"), _r("1/2")]]
            if "zs" in fl:
                pool += [["times", _fl(self.ZS), _i(2)], ["plus", _fl(self.ZS), _r("1/2")], _fl(self.ZS)]
            if "zq" in fl and par:
                pool += [_fl(self.ZQ, ["p"] + par[0]), ["plus", _fl(self.ZQ, ["p"] + par[0]), _r("1/2")]] * 2
            if "z" in fl:
                pool += [["plus", _fl(self.Z), _r("1/2")]]
        else:
            pool = [_i(1), _i(3), ["plus", _i(1), _i(1)], ["times", _i(2), _i(3)], ["minus", _i(3), _i(1)]]
            if "xs" in fl:
                pool += [["times", _fl(self.XS), _i(2)], ["plus", _fl(self.XS), _i(1)], _fl(self.XS)]
            if "x" in fl:
                pool += [["plus", _fl(self.X), _i(1)]]
        return r.choice(pool)

    def costs(self, fl, actions):
        r = self.rng
        mode = r.choice(["real", "real", "real", "int", "mixed"])
        cs = [[a[1], self.cost(mode, fl, a[2])] for a in actions if r.random() < 0.7]
        if not cs:
            cs = [[actions[0][1], self.cost(mode, fl, actions[0][2])]]
        d = r.random()
        default = "_" if d < 0.5 else self.cost(mode, fl, []) if d < 0.9 else r.choice([_i(0), _i(1)])
        return ["min-action-costs", cs, default], "costs-" + mode

    def final(self, fl):
        r = self.rng
        pool = []
        if "z" in fl:
            pool += [_fl(self.Z), ["times", _r("1/2"), _fl(self.Z)], ["plus", _fl(self.Z), _r("1/2")], ["div", _fl(self.Z), _i(2)]]
        if "x" in fl:
            pool += [_fl(self.X), ["times", _i(2), _fl(self.X)], ["div", _fl(self.X), _i(2)], ["minus", _i(0), _fl(self.X)]]
        if "x" in fl and "z" in fl:
            pool += [["plus", _fl(self.X), _fl(self.Z)]]
        if "xb" in fl:
            pool += [_fl(self.XB), ["plus", _fl(self.XB), _i(1)]]
        if "zb" in fl:
            pool += [_fl(self.ZB)]
        if "zs" in fl and "z" in fl:
            pool += [["times", _fl(self.ZS), _fl(self.Z)]]
        if not pool:
            return None, None
        return [r.choice(["min-final", "max-final"]), r.choice(pool)], "final"

    # -- conditions, effects, actions -----------------------------------------------------------
    def cond(self, fl, params):
        r = self.rng
        b0, b1 = _fl(self.B0), _fl(self.B1)
        u, k = ["u", UT("U")], ["k", UT("S")]
        pool = [b0, b1, ["not", b0], ["not", b1], ["or", b0, b1], ["or", ["not", b0], b1], ["and", b0, ["not", b1]],
                ["forall", [u], _fl(self.BU, ["v"] + u)], ["exists", [k], _fl(self.BQ, ["v"] + k)],
                ["forall", [k], ["not", _fl(self.BQ, ["v"] + k)]], _fl(self.BQ, _o("s1"))]
        for pn, pt in params:
            if pt == UT("U"):
                pool += [["not", _fl(self.BU, ["p", pn, pt])], _fl(self.BU, ["p", pn, pt])]
            else:
                pool += [_fl(self.BQ, ["p", pn, pt]), ["not", _fl(self.BQ, ["p", pn, pt])]]
                if "at" in fl and pt == UT("T"):
                    pool += [["eq", _fl(self.AT), ["p", pn, pt]], ["not", ["eq", _fl(self.AT), ["p", pn, pt]]]]
        if "at" in fl:
            pool += [["eq", _fl(self.AT), _o("t1")], _fl(self.BQ, _fl(self.AT))]
        if "x" in fl:
            pool += [["le", _fl(self.X), _i(3)], ["lt", _i(0), _fl(self.X)]]
        if "z" in fl:
            pool += [["le", _fl(self.Z), _r("5/2")], ["lt", _fl(self.Z), _i(3)]]
        if "xb" in fl:
            pool += [["lt", _fl(self.XB), _i(4)]]
        return r.choice(pool)

    def effect(self, fl, params):
        r = self.rng
        c = TRUE_S if r.random() < 0.75 else self.cond(fl, params)
        opts = [["assign", _fl(self.B0), ["b", r.choice("TF")]], ["assign", _fl(self.B1), ["b", r.choice("TF")]],
                ["assign", _fl(self.BQ, _o(r.choice(["t1", "s1", "s2"]))), TRUE_S]]
        for pn, pt in params:
            if pt == UT("U"):
                opts += [["assign", _fl(self.BU, ["p", pn, pt]), TRUE_S]] * 2
            else:
                opts += [["assign", _fl(self.BQ, ["p", pn, pt]), ["b", r.choice("TF")]]] * 2
                if "at" in fl:
                    opts += [["assign", _fl(self.AT), ["p", pn, pt]]]
        if "at" in fl:
            opts += [["assign", _fl(self.AT), _o(r.choice(["t1", "s1"]))]]
        if "x" in fl:
            opts += [["increase", _fl(self.X), _i(r.choice([1, 2]))], ["decrease", _fl(self.X), _i(1)],
                     ["assign", _fl(self.X), ["plus", _fl(self.X), _i(1)]], ["assign", _fl(self.X), _i(0)]]
        if "z" in fl:
            opts += [["increase", _fl(self.Z), _r(r.choice(["1/2", "3/2"]))], ["decrease", _fl(self.Z), _r("1/2")],
                     ["assign", _fl(self.Z), ["times", _fl(self.Z), _r("1/2")]], ["increase", _fl(self.Z), _i(1)]]
        if "xb" in fl:
            opts += [["increase", _fl(self.XB), _i(1)], ["assign", _fl(self.XB), _i(r.choice([0, 4]))]]
        if "zb" in fl:
            opts += [["increase", _fl(self.ZB), _r("1/2")]]
        kind, f, v = r.choice(opts)
        return ["eff", kind, f, v, c, []]

    def action(self, i, fl):
        r = self.rng
        params = [] if r.random() < 0.4 else [["p0", UT(r.choice(["U", "T", "S"]))]]
        pre = [self.cond(fl, params) for _ in range(r.choice([0, 1, 1, 2]))]
        effs, targets = [], set()
        for _ in range(r.choice([1, 2, 2, 3])):
            e = self.effect(fl, params)
            key = sexp.dumps(e[2])
            if key in targets:      # one effect per target: no conflicting-effects rejections
                continue
            targets.add(key)
            effs.append(e)
        return ["action", f"a{i}", params, ["pre"] + pre, ["effs"] + effs]

    def problem(self, name="n"):
        r = self.rng
        prof = r.choice(["none", "int", "int", "real", "real", "real", "both", "both"])
        fls = [self.B0, self.B1, self.BU, self.BQ]
        if r.random() < 0.4:
            fls.append(self.AT)
        if prof in ("int", "both"):
            fls += [self.X] + [self.XS] * (r.random() < 0.6) + [self.XB] * (r.random() < 0.25)
        if prof in ("real", "both"):
            fls += [self.Z] * (r.random() < 0.8) + [self.ZS] * (r.random() < 0.7) + [self.ZQ] * (r.random() < 0.5) + [self.ZB] * (r.random() < 0.15)
        fl = {f[0] for f in fls}
        fluents = []
        for f in fls:
            n = f[0]
            if n in ("b0", "b1", "bu", "bq"):
                d = ["b", r.choice("FFT")]
            elif n == "at":
                d = _o(r.choice(["t1", "s1"]))
            elif n in ("x", "xs", "xb"):
                d = _i(r.choice([0, 1, 2]))
                if n == "x" and r.random() < 0.12:
                    d = "_"
            elif n in ("zs", "zq"):   # a static real fluent: integer or non-integer value
                d = r.choice([_i(2), _i(1), _r("1/2"), _r("3/2")])
            else:
                d = r.choice([_i(0), _i(1), _r("1/2")])
                if n == "z" and r.random() < 0.12:
                    d = "_"
            fluents.append([f, d])
        init = []
        if "zq" in fl and r.random() < 0.5:
            init.append([_fl(self.ZQ, _o("s1")), r.choice([_i(3), _r("5/2")])])
        actions = [self.action(i, fl) for i in range(r.choice([1, 2, 2, 3]))]
        goals = [self.cond(fl, []) for _ in range(r.choice([0, 1, 1]))]
        traj = []
        if r.random() < 0.22:
            traj.append(["always", r.choice([["or", _fl(self.B0), ["not", _fl(self.B1)]]] + ([["le", _fl(self.X), _i(5)]] if "x" in fl else []))])
        k = r.random()
        metric = tag = None
        if k < 0.45:
            metric, tag = self.oversub(fl)
        elif k < 0.8:
            metric, tag = self.costs(fl, actions)
        elif k < 0.9:
            metric, tag = self.final(fl)
        ps = ["problem", name, ["types"] + self.TYPES, ["objects"] + self.OBJECTS, ["fluents"] + fluents, ["init"] + init,
              ["actions"] + actions, ["goals"] + goals, ["traj"] + traj, ["metrics"] + ([metric] if metric else [])]
        return ps


def problem_of(src):
    if src[0] == "ex":
        return examples()[src[1]]
    P, _ = upp.build_problem(src[1])
    if src[0] == "tgen":
        P = temporalize(P, random.Random(int(src[2])))
    elif src[0] == "tnum":
        P = temporalize(P, random.Random(int(src[2])), rich=True)
    return P


def make_compiler(C, P):
    if C.__name__ == "Ks0Compiler" and not isinstance(P, ContingentProblem):
        # two possible initial states: the problem's own, and the one with its first Boolean fluent flipped
        em = P.environment.expression_manager
        s0 = dict(P.initial_values)
        s1 = dict(s0)
        for f, v in s0.items():
            if v.is_bool_constant():
                s1[f] = em.Bool(not v.bool_constant_value())
                break
        return C(possible_initial_states=[UPState(s0, P), UPState(s1, P)])
    return C()


# observations of the real code, shared by impl / oracle / model_payload / stats (same payload -> same record:
# run_check asks for them in separate passes over all cases, so the records of a whole run are kept; they are small)
_CACHE = OrderedDict()
_CACHE_MAX = 50000
COMPILE_LIMIT_S = 8


class _CompileTimeout(Exception):
    pass


def _compile_limited(C, P, ck):
    """compile with a wall-clock limit (a DNF can blow up): exceeding it counts as 'no compiled problem'"""
    import signal

    def on_alarm(*_):
        raise _CompileTimeout()
    try:
        old = signal.signal(signal.SIGALRM, on_alarm)
    except ValueError:       # not in the main thread: no limit
        return make_compiler(C, P).compile(P, CompilationKind[ck])
    signal.alarm(COMPILE_LIMIT_S)
    try:
        return make_compiler(C, P).compile(P, CompilationKind[ck])
    finally:
        signal.alarm(0)
        signal.signal(signal.SIGALRM, old)


def _key(payload):
    return hashlib.sha1(sexp.dumps(payload).encode()).hexdigest()


def observe_probs(payload):
    key = _key(payload)
    if key in _CACHE:
        return _CACHE[key]
    rec = {"kp": None, "rows": [], "error": None}
    try:
        P = problem_of(payload[1])
        kp = P.kind
        rec["kp"] = enc_kind(kp)
    except Exception as e:
        rec["error"] = type(e).__name__
        P = None
    if P is not None:
        for cname in sorted(CLASSES):
            C = CLASSES[cname]
            try:
                if not C.supports(ProblemKind(set(kp.features), version=kp._version)):
                    continue
            except Exception:
                continue
            for ck in cks_of(C):
                row = {"cls": cname, "ck": ck}
                try:
                    res = _compile_limited(C, P, ck)
                    if res.problem is None:
                        raise RuntimeError("no problem")
                    row["kq"] = enc_kind(res.problem.kind)
                except Exception as e:
                    row["kq"] = None
                    row["err"] = type(e).__name__
                try:
                    row["declared"] = enc_kind(C.resulting_problem_kind(ProblemKind(set(kp.features), version=kp._version),
                                                                         CompilationKind[ck]))
                except AssertionError:
                    row["declared"] = "assert"
                except Exception as e:
                    row["declared"] = "raise:" + type(e).__name__
                rec["rows"].append(row)
    _CACHE[key] = rec
    while len(_CACHE) > _CACHE_MAX:
        _CACHE.popitem(last=False)
    return rec


def observe_pipe(payload):
    key = _key(payload)
    if key in _CACHE:
        return _CACHE[key]
    _, src, cks = payload
    rec = {"kinds": [], "names": None, "outcome": None, "rows": [], "error": None}
    try:
        P = problem_of(src)
        k0 = P.kind
        rec["kinds"].append(enc_kind(k0))
    except Exception as e:
        rec["error"] = type(e).__name__
        P = None
    if P is not None:
        try:
            pipe = _FACTORY._get_engine(OperationMode.COMPILER, problem_kind=ProblemKind(set(k0.features), version=k0._version),
                                        compilation_kinds=[CompilationKind[c] for c in cks])
            engines = list(pipe._compilers)
            rec["names"] = [_name_of(type(e)) for e in engines]
            rec["outcome"] = "ok"
        except UPNoSuitableEngineAvailableException:
            rec["outcome"] = "no-engine"
            engines = []
        except AssertionError:
            rec["outcome"] = "assert"
            engines = []
        except Exception as e:
            rec["outcome"] = "raise:" + type(e).__name__
            engines = []
        # replay CompilersPipeline.compile stage by stage, keeping the intermediate problems
        declared = ProblemKind(set(k0.features), version=k0._version)
        cur = P
        for eng, ck in zip(engines, cks):
            C = type(eng)
            kcur = cur.kind
            acc = C.supports(ProblemKind(set(kcur.features), version=kcur._version))
            declared = C.resulting_problem_kind(declared, CompilationKind[ck])
            row = {"name": _name_of(C), "acc": acc}
            if not acc:
                row["missing"] = extra_features(kcur, C.supported_kind())
                rec["rows"].append(row)
                break
            try:
                res = _compile_limited(C, cur, ck)
                if res.problem is None:
                    raise RuntimeError("no problem")
            except Exception as e:
                row["err"] = type(e).__name__
                rec["rows"].append(row)
                break
            cur = res.problem
            kq = cur.kind
            rec["kinds"].append(enc_kind(kq))
            row["extra"] = extra_features(kq, declared)
            rec["rows"].append(row)
    _CACHE[key] = rec
    while len(_CACHE) > _CACHE_MAX:
        _CACHE.popitem(last=False)
    return rec


_NAMES = None


def _name_of(C):
    global _NAMES
    if _NAMES is None:
        _NAMES = {_FACTORY.engine(n): n for n in _FACTORY.engines}
    return _NAMES.get(C, C.__name__)


# ------------------------------------------------------------------------------------------------
# generators
# ------------------------------------------------------------------------------------------------
def rand_kind(rng, base=None, version=None):
    fs = set(base or ())
    n = rng.choice([0, 1, 2, 3, 5, 8, 12])
    special = ["CONDITIONAL_EFFECTS", "NEGATIVE_CONDITIONS", "DISJUNCTIVE_CONDITIONS", "EQUALITIES", "EXISTENTIAL_CONDITIONS",
               "UNIVERSAL_CONDITIONS", "FORALL_EFFECTS", "OBJECT_FLUENTS", "BOUNDED_TYPES", "STATE_INVARIANTS",
               "TRAJECTORY_CONSTRAINTS", "DURATION_INEQUALITIES", "CONTINUOUS_TIME", "TIMED_EFFECTS", "TIMED_GOALS",
               "UNDEFINED_INITIAL_NUMERIC", "INT_FLUENTS", "REAL_FLUENTS", "SIMPLE_NUMERIC_PLANNING", "GENERAL_NUMERIC_PLANNING",
               "STATIC_FLUENTS_IN_DURATIONS", "INTERMEDIATE_CONDITIONS_AND_EFFECTS", "CONTINGENT", "ACTION_BASED",
               "ACTION_BASED_MULTI_AGENT"] + [f for f in FEATS if f.startswith("INTERPRETED_FUNCTIONS")]
    for _ in range(n):
        fs.add(rng.choice(special if rng.random() < 0.7 else FEATS))
    if version is None:
        version = rng.choice([LATEST] * 6 + [None, None, 1, 2])
    if version is not None:
        fs = set(f for f in fs if added(f) <= version)
    return ["k", sorted(fs), "none" if version is None else str(version)]


DEPRECATED = sorted(f for f, (a, d) in FEATURES_VERSIONS.items() if d is not None)
# the features whose presence makes utils.rewritten_problem_kind / grounded_problem_kind add something
TRIGGERS = ["GENERAL_NUMERIC_PLANNING", "FLUENTS_IN_BOOLEAN_ASSIGNMENTS", "FLUENTS_IN_NUMERIC_ASSIGNMENTS",
            "FLUENTS_IN_OBJECT_ASSIGNMENTS", "FLUENTS_IN_DURATIONS", "FLUENTS_IN_ACTIONS_COST",
            "STATIC_FLUENTS_IN_DURATIONS", "STATIC_FLUENTS_IN_ACTIONS_COST", "ACTIONS_COST", "OVERSUBSCRIPTION",
            "CONTINUOUS_TIME", "DISCRETE_TIME"]
_SUPPORTED = {}


def supported_features(cname):
    if cname not in _SUPPORTED:
        try:
            _SUPPORTED[cname] = sorted(CLASSES[cname].supported_kind().features)
        except Exception:
            _SUPPORTED[cname] = []
    return _SUPPORTED[cname]


def old_kind(rng, cname, version):
    """a kind of the explicit `version` (or without declared version when None: then over version-1 features, so that
    its computed version is old) over the features that exist at that version, mostly inside the class's supported kind"""
    v = 1 if version is None else version
    pool = [f for f in supported_features(cname) if added(f) <= v] or ["ACTION_BASED"]
    fs = set(rng.sample(pool, min(len(pool), rng.choice([1, 2, 3, 5, 8, 13]))))
    fs |= set(f for f in TRIGGERS if added(f) <= v and rng.random() < 0.25)
    r = rng.random()
    if r < 0.45:      # the deprecated way of describing numbers (valid at version 1, accepted and ignored later)
        fs |= set(rng.sample(DEPRECATED, rng.randint(1, len(DEPRECATED))))
    if rng.random() < 0.25:
        fs |= set(f for f in rng.sample(FEATS, 3) if added(f) <= v)
    return ["k", sorted(fs), "none" if version is None else str(version)]


def old_version_cases(rng, per):
    """(rk) for every class x every older explicit version (and no declared version) `per` kinds; (up) the helper alone"""
    for cname in sorted(CLASSES):
        for version in list(range(1, LATEST)) + [None]:
            for _ in range(per):
                yield ["rk", cname, old_kind(rng, cname, version)]
    for _ in range(6 * per):
        cname = rng.choice(sorted(CLASSES))
        yield ["up", old_kind(rng, cname, rng.choice(list(range(1, LATEST + 1)) + [None]))]
        yield ["up", rand_kind(rng)]


def clean(kind_s):
    """drop the features deprecated at the kind's version (see ASSUMPTIONS)"""
    k = dec_kind(kind_s)
    valid = get_valid_features(k.version)
    return ["k", sorted(set(kind_s[1]) & valid), kind_s[2]]


def gen_problem_src(rng, tier):
    r = rng.random()
    if r < 0.25:
        return ["ex", rng.choice(sorted(examples()))]
    g = upp.ProblemGen(rng, undefined=rng.random() < 0.5, invariants=True, metrics=rng.random() < 0.5,
                       quantifiers=rng.random() < 0.7)
    for _ in range(20):
        ps = g.problem("p")
        try:
            upp.build_problem(ps)
        except Exception:
            continue
        if rng.random() < 0.3:
            ps2 = transplant_metric(ps, rng)
            try:
                upp.build_problem(ps2)
                ps = ps2
            except Exception:
                pass
        if r < 0.6:
            return ["gen", ps]
        return ["tgen", ps, str(rng.randrange(1 << 30))]
    return ["ex", "basic"]


def transplant_metric(ps, rng):
    """a ProblemGen problem (forall / conditional effects, aliasing, invariants, undefined values ...) with its
    metric replaced by a number-pure NumGen metric over the fluents both generators declare"""
    g = NumGen(rng)
    fl = {f[0][0] for f in upp.get(ps, "fluents")} & {"b0", "b1", "bq", "x", "xb", "z", "zb", "at"}
    actions = upp.get(ps, "actions")
    k = rng.random()
    m = g.oversub(fl)[0] if k < 0.5 else g.costs(fl, actions)[0] if k < 0.9 and actions else g.final(fl)[0]
    if m is None:
        return ps
    return [s if not (isinstance(s, list) and s and s[0] == "metrics") else ["metrics", m] for s in ps]


def gen_num_src(rng):
    """a NumGen problem (`num`) or its rich temporal variant (`tnum`)"""
    g = NumGen(rng)
    for _ in range(20):
        ps = g.problem("n")
        src = ["num", ps] if rng.random() < 0.6 else ["tnum", ps, str(rng.randrange(1 << 30))]
        try:
            problem_of(src).kind
        except Exception:
            continue
        return src
    return ["ex", "basic"]


NUM_SHARE = 0.4


def gen_src(rng, tier):
    return gen_num_src(rng) if rng.random() < NUM_SHARE else gen_problem_src(rng, tier)


PIPE_CKS = ["GROUNDING", "CONDITIONAL_EFFECTS_REMOVING", "DISJUNCTIVE_CONDITIONS_REMOVING", "NEGATIVE_CONDITIONS_REMOVING",
            "QUANTIFIERS_REMOVING", "USERTYPE_FLUENTS_REMOVING", "BOUNDED_TYPES_REMOVING", "STATE_INVARIANTS_REMOVING",
            "INTERPRETED_FUNCTIONS_REMOVING", "UNDEFINED_INITIAL_NUMERIC_REMOVING", "TIMED_TO_SEQUENTIAL",
            "DURATIVE_ACTIONS_TO_PROCESSES", "TRAJECTORY_CONSTRAINTS_REMOVING"]
# compilation kinds whose registered compiler accepts the generated problems most often (state invariants and
# bounded types first, because several other compilers do not support them)
COMMON_CKS = ["STATE_INVARIANTS_REMOVING", "BOUNDED_TYPES_REMOVING", "USERTYPE_FLUENTS_REMOVING", "QUANTIFIERS_REMOVING",
              "CONDITIONAL_EFFECTS_REMOVING", "NEGATIVE_CONDITIONS_REMOVING", "DISJUNCTIVE_CONDITIONS_REMOVING",
              "UNDEFINED_INITIAL_NUMERIC_REMOVING", "GROUNDING", "INTERPRETED_FUNCTIONS_REMOVING", "TIMED_TO_SEQUENTIAL"]


# (remover, a later kind whose compiler does not support what the remover removes)
DEPENDENT = [("STATE_INVARIANTS_REMOVING", "DISJUNCTIVE_CONDITIONS_REMOVING"), ("STATE_INVARIANTS_REMOVING", "UNDEFINED_INITIAL_NUMERIC_REMOVING"),
             ("STATE_INVARIANTS_REMOVING", "TIMED_TO_SEQUENTIAL"), ("CONDITIONAL_EFFECTS_REMOVING", "TIMED_TO_SEQUENTIAL"),
             ("QUANTIFIERS_REMOVING", "DURATIVE_ACTIONS_TO_PROCESSES"), ("INTERPRETED_FUNCTIONS_REMOVING", "NEGATIVE_CONDITIONS_REMOVING"),
             ("INTERPRETED_FUNCTIONS_REMOVING", "BOUNDED_TYPES_REMOVING")]


def rand_pipeline(rng):
    n = rng.choice([1, 2, 2, 3, 3])
    if rng.random() < 0.3:
        # the second stage is selectable only for the kind the first stage DECLARES, not for the original kind
        a, b = rng.choice(DEPENDENT)
        return [a, b] + ([rng.choice(COMMON_CKS)] if rng.random() < 0.3 else [])
    if rng.random() < 0.6:
        # an order in which each stage usually supports what the previous ones declare
        return sorted(rng.sample(COMMON_CKS, n), key=COMMON_CKS.index)
    return [rng.choice(PIPE_CKS) for _ in range(n)]


def cases(rng, tier):
    n = {"quick": 1, "thorough": 12}[tier]
    # declarations of every class
    for cname in sorted(CLASSES):
        yield ["sk", cname]
    ex_kinds = None
    for _ in range(200 * n):
        # kind-level: transformers on random / realistic kinds
        cname = rng.choice(sorted(CLASSES))
        if rng.random() < 0.4:
            if ex_kinds is None:
                ex_kinds = []
                for nme in sorted(examples()):
                    try:
                        ex_kinds.append(sorted(examples()[nme].kind.features))
                    except Exception:
                        pass
            yield ["rk", cname, rand_kind(rng, base=rng.choice(ex_kinds), version=LATEST if rng.random() < 0.8 else None)]
        else:
            yield ["rk", cname, rand_kind(rng)]
    for c in old_version_cases(rng, {"quick": 4, "thorough": 40}[tier]):
        yield c
    for _ in range(80 * n):
        # a later stage that is selectable only thanks to what an earlier stage is declared to remove
        planted = rng.choice([["ACTION_BASED"], ["ACTION_BASED", "STATE_INVARIANTS"], ["ACTION_BASED", "STATE_INVARIANTS", "DISJUNCTIVE_CONDITIONS"],
                              ["ACTION_BASED", "CONDITIONAL_EFFECTS", "CONTINUOUS_TIME", "INT_TYPE_DURATIONS"],
                              ["ACTION_BASED", "UNIVERSAL_CONDITIONS", "FORALL_EFFECTS", "CONTINUOUS_TIME"]])
        k = clean(rand_kind(rng, base=planted if rng.random() < 0.85 else None,
                            version=rng.choice([LATEST] * 7 + [None] + list(range(1, LATEST))) if rng.random() < 0.9 else None))
        yield ["chain", k, rand_pipeline(rng) if rng.random() < 0.7 else
               [rng.choice(PIPE_CKS + CKS) for _ in range(rng.choice([1, 2, 2, 3]))]]
    for i in range({"quick": 240, "thorough": 2800}[tier]):
        src = gen_src(rng, tier)
        yield ["probs", src]
        if i % 2 == 0:
            yield ["pipe", src, rand_pipeline(rng)]


def search(rng, tier):
    while True:
        for c in old_version_cases(rng, 1):
            yield c
        for _ in range(10):
            src = gen_src(rng, tier)
            yield ["probs", src]
            yield ["pipe", src, rand_pipeline(rng)]


# ------------------------------------------------------------------------------------------------
# impl / model payload
# ------------------------------------------------------------------------------------------------
def impl(payload):
    t = payload[0]
    if t == "sk":
        C = CLASSES[payload[1]]
        return [enc_kind(C.supported_kind()), cks_of(C)]
    if t == "rk":
        C = CLASSES[payload[1]]
        try:
            k = dec_kind(payload[2])
        except AssertionError:
            return "reject"
        try:
            return enc_kind(C.resulting_problem_kind(k, None))
        except AssertionError:
            return "assert"
        except Exception as e:
            return "raise:" + type(e).__name__
    if t == "up":
        if _at_latest() is None:
            return "skip"
        try:
            k = dec_kind(payload[1])
        except AssertionError:
            return "reject"
        try:
            return enc_kind(_at_latest()(k))
        except AssertionError:
            return "assert"
        except Exception as e:
            return "raise:" + type(e).__name__
    if t == "chain":
        try:
            k = dec_kind(payload[1])
        except AssertionError:
            return "reject"
        declared = [k]
        try:
            pipe = _FACTORY._get_engine(OperationMode.COMPILER, problem_kind=dec_kind(payload[1]),
                                        compilation_kinds=[CompilationKind[c] for c in payload[2]])
        except UPNoSuitableEngineAvailableException:
            return "no-engine"
        except AssertionError:
            return "assert"
        except Exception as e:
            return "raise:" + type(e).__name__
        names, kinds = [], []
        for eng, ck in zip(pipe._compilers, payload[2]):
            names.append(_name_of(type(eng)))
            kinds.append(enc_kind(declared[-1]))
            declared.append(type(eng).resulting_problem_kind(dec_kind(enc_kind(declared[-1])), CompilationKind[ck]))
        return ["ok", names, kinds, enc_kind(declared[-1])]
    if t == "probs":
        rec = observe_probs(payload)
        if rec["error"]:
            return ["problem-error", rec["error"]]
        out = []
        for row in rec["rows"]:
            if row["kq"] is None:
                out.append([row["cls"], row["ck"], "compile-error"])
            elif isinstance(row["declared"], str):
                out.append([row["cls"], row["ck"], row["declared"]])
            else:
                out.append([row["cls"], row["ck"], [["declared", row["declared"]],
                                                    ["extra", extra_features(dec_kind(row["kq"]), dec_kind(row["declared"]))]]])
        return out
    if t == "pipe":
        rec = observe_pipe(payload)
        if rec["error"]:
            return ["problem-error", rec["error"]]
        if rec["outcome"] != "ok":
            return rec["outcome"]
        rows = []
        for row in rec["rows"]:
            rows.append([row["name"], "T" if row["acc"] else "F"] + ([row["extra"]] if "extra" in row else []))
        return ["ok", rec["names"], rows]
    raise ValueError(payload)


def _at_latest():
    """utils._kind_at_latest_version, or None when the library has no such helper (then the `up` cases say nothing)"""
    import unified_planning.engines.compilers.utils as U
    return getattr(U, "_kind_at_latest_version", None)


def model_payload(payload):
    t = payload[0]
    if t in ("sk", "rk"):
        return payload
    if t == "up":
        return payload if _at_latest() is not None else "skip"
    if t == "chain":
        return ["chain", payload[1], payload[2], avail()]
    if t == "probs":
        rec = observe_probs(payload)
        if rec["error"]:
            return ["problem-error", rec["error"]]
        return ["probsk", rec["kp"], [[r["cls"], r["ck"], r["kq"] if r["kq"] is not None else "compile-error"] for r in rec["rows"]]]
    if t == "pipe":
        rec = observe_pipe(payload)
        if rec["error"]:
            return ["problem-error", rec["error"]]
        return ["pipek", payload[2], avail(), rec["kinds"]]
    raise ValueError(payload)


def compare(m, a):
    return m == a


# ------------------------------------------------------------------------------------------------
# oracle: the property itself on the real code
# ------------------------------------------------------------------------------------------------
def oracle(payload):
    t = payload[0]
    if t == "probs":
        rec = observe_probs(payload)
        if rec["error"]:
            return None
        kp = dec_kind(rec["kp"])
        for row in rec["rows"]:
            if row["kq"] is None:
                continue
            C = CLASSES[row["cls"]]
            try:
                declared = C.resulting_problem_kind(dec_kind(rec["kp"]), CompilationKind[row["ck"]])
            except Exception as e:
                return f"{row['cls']}.resulting_problem_kind raises {type(e).__name__} on the kind of a supported problem"
            if not (dec_kind(row["kq"]) <= declared):
                ex = extra_features(dec_kind(row["kq"]), declared)
                return (f"{row['cls']} ({row['ck']}): the compiled problem has {ex} outside the declared resulting kind")
        return None
    if t == "pipe":
        rec = observe_pipe(payload)
        if rec["error"]:
            return None
        if rec["outcome"].startswith("raise:") or rec["outcome"] == "assert":
            return f"Factory.Compiler(problem_kind, compilation_kinds={payload[2]}) {rec['outcome']} while chaining the declared kinds"
        if rec["outcome"] != "ok":
            return None
        for i, row in enumerate(rec["rows"]):
            if not row["acc"]:
                return (f"pipeline {rec['names']}: stage {i} ({row['name']}) does not support the problem produced by the "
                        f"previous stage (features {row.get('missing')})")
            if row.get("extra"):
                return (f"pipeline {rec['names']}: the problem produced by stage {i} ({row['name']}) has {row['extra']} "
                        f"outside the declared chain")
        return None
    if t == "rk":
        # a kind the class supports must have a declared result (see ASSUMPTIONS)
        C = CLASSES[payload[1]]
        try:
            if not C.supports(dec_kind(payload[2])):
                return None
        except Exception:
            return None
        try:
            C.resulting_problem_kind(dec_kind(payload[2]), None)
        except Exception as e:
            return (f"{payload[1]}.resulting_problem_kind raises {type(e).__name__} on a kind the class supports "
                    f"(version {payload[2][2]}): no declared resulting kind")
        return None
    if t == "chain":
        try:
            k = dec_kind(payload[1])
        except AssertionError:
            return None
        try:
            _FACTORY._get_engine(OperationMode.COMPILER, problem_kind=k,
                                 compilation_kinds=[CompilationKind[c] for c in payload[2]])
        except UPNoSuitableEngineAvailableException:
            return None
        except Exception as e:
            return (f"Factory.Compiler(problem_kind of version {payload[1][2]}, compilation_kinds={payload[2]}) raises "
                    f"{type(e).__name__} while chaining the declared kinds: neither a pipeline nor the no-suitable-engine error")
        return None
    return None


# ------------------------------------------------------------------------------------------------
# known finding D-C09a: Problem.kind does not report the negation / disjunction hidden in `iff` (nor the negation
# hidden in `implies`), so a compiler that simplifies or normalises such an expression exposes NEGATIVE_CONDITIONS /
# DISJUNCTIVE_CONDITIONS that no declaration can anticipate from the kind
# ------------------------------------------------------------------------------------------------
def _hidden_operators(P):
    """(has_iff, has_implies) over every condition-like expression of the problem"""
    from unified_planning.model.operators import OperatorKind
    from unified_planning.model.walkers import OperatorsExtractor
    ox = OperatorsExtractor()
    exps = []
    for a in getattr(P, "actions", []):
        if isinstance(a, InstantaneousAction):
            exps += list(a.preconditions)
            effs = list(a.effects)
        elif isinstance(a, DurativeAction):
            for cl in a.conditions.values():
                exps += list(cl)
            effs = [e for el in a.effects.values() for e in el]
        else:
            effs = []
        for e in effs:
            exps += [e.condition, e.value]
    for el in getattr(P, "timed_effects", {}).values():
        for e in el:
            exps += [e.condition, e.value]
    exps += list(getattr(P, "goals", []))
    for gl in getattr(P, "timed_goals", {}).values():
        exps += list(gl)
    exps += list(getattr(P, "trajectory_constraints", []))
    for m in getattr(P, "quality_metrics", []):
        if m.is_oversubscription():
            exps += list(m.goals.keys())
        elif m.is_temporal_oversubscription():
            exps += [g for _, g in m.goals.keys()]
    ops = set()
    for e in exps:
        ops |= ox.get(e)
    return OperatorKind.IFF in ops, OperatorKind.IMPLIES in ops


def _explained_by_hidden_operators(P, extras):
    """are the features `extras` (outside a declared kind) what D-C09a predicts for this problem?"""
    if not extras:
        return True
    has_iff, has_implies = _hidden_operators(P)
    allowed = set()
    if has_iff:
        allowed |= {"NEGATIVE_CONDITIONS", "DISJUNCTIVE_CONDITIONS"}
    if has_implies:
        allowed |= {"NEGATIVE_CONDITIONS"}
    return set(extras) <= allowed


def known_cause(payload):
    t = payload[0]
    if t == "probs":
        rec = observe_probs(payload)
        if rec["error"]:
            return None
        P = problem_of(payload[1])
        bad = False
        for row in rec["rows"]:
            if row["kq"] is None:
                continue
            if isinstance(row["declared"], str):
                return None
            ex = extra_features(dec_kind(row["kq"]), dec_kind(row["declared"]))
            if ex:
                bad = True
                if not _explained_by_hidden_operators(P, ex):
                    return None
        return "D-C09a" if bad else None
    if t == "pipe":
        rec = observe_pipe(payload)
        if rec["error"] or rec["outcome"] != "ok":
            return None
        P = problem_of(payload[1])
        bad = False
        for row in rec["rows"]:
            ex = (row.get("missing") or []) if not row["acc"] else (row.get("extra") or [])
            if ex:
                bad = True
                if not _explained_by_hidden_operators(P, ex):
                    return None
        return "D-C09a" if bad else None
    return None


def nontrivial(payload, ans):
    t = payload[0]
    if t == "sk":
        return True
    if t == "rk":
        return ans == "assert" or (isinstance(ans, list) and ans[1] != sorted(payload[2][1]))
    if t == "up":
        return isinstance(ans, list) and (ans[1] != sorted(payload[1][1]) or ans[2] != payload[1][2])
    if t == "chain":
        return ans == "no-engine" or (isinstance(ans, list) and ans[0] == "ok" and len(ans[1]) >= 2)
    if t == "probs":
        return isinstance(ans, list) and any(isinstance(r, list) and len(r) == 3 and isinstance(r[2], list)
                                             and r[2][0][1] != observe_probs(payload)["kp"] for r in ans)
    if t == "pipe":
        return isinstance(ans, list) and ans[0] == "ok" and len(ans[1]) >= 2 and len(ans[2]) == len(ans[1]) \
            and all(len(r) == 3 for r in ans[2])
    return False


NUMBER_TYPE_FEATURES = {"INT_NUMBERS_IN_OVERSUBSCRIPTION", "REAL_NUMBERS_IN_OVERSUBSCRIPTION", "INT_NUMBERS_IN_ACTIONS_COST",
                        "REAL_NUMBERS_IN_ACTIONS_COST", "INT_TYPE_DURATIONS", "REAL_TYPE_DURATIONS", "INT_FLUENTS", "REAL_FLUENTS"}


def _cost_type(c):
    """number type of a cost expression of the wire format (real as soon as a real constant / fluent or a division occurs)"""
    if c[0] == "r" or c[0] == "div":
        return "real"
    if c[0] == "i":
        return "int"
    if c[0] == "fl":
        return "real" if c[1][1][0] == "real" else "int"
    if c[0] in ("plus", "minus", "times"):
        return "real" if any(_cost_type(a) == "real" for a in c[1:]) else "int"
    return "int"


def num_tags(ps):
    """which number-typed family a NumGen problem is built around, and whether it is pure"""
    ms = upp.get(ps, "metrics")
    if not ms:
        return ["metric:no-metric"]
    m = ms[0]
    if m[0] == "min-length":
        return ["metric:plan-length"]
    if m[0] == "oversub":
        from itertools import combinations
        ws = [Fraction(w) for _, w in m[1]]
        ints = [w.denominator == 1 for w in ws]
        pure = "int-gains" if all(ints) else "mixed-gains" if any(ints) else "real-gains"
        summing = not any(ints) and any(sum(c).denominator == 1 for n in (2, 3) for c in combinations(ws, n))
        return ["metric:oversub", "metric:oversub-" + pure] + (["metric:oversub-real-gains-some-adding-up-to-an-integer"] if summing else [])
    if m[0] == "min-action-costs":
        cs = [c for _, c in m[1]] + ([m[2]] if m[2] != "_" else [])
        kinds = {_cost_type(c) for c in cs}
        return ["metric:costs", "metric:costs-" + ("real" if kinds == {"real"} else "int" if kinds == {"int"} else "mixed")]
    return ["metric:final"]


def stats(payload, ans):
    t = payload[0]
    tags = [t]
    if t in ("probs", "pipe"):
        tags.append("src:" + payload[1][0])
    if t == "rk":
        tags.append("rk:" + ("assert" if ans == "assert" else "reject" if ans == "reject" else
                             "changed" if ans[1] != sorted(payload[2][1]) else "same"))
        tags.append("rk:version-" + payload[2][2])
        if isinstance(ans, list) and ans[2] != payload[2][2]:
            tags.append("rk:upgraded")
    if t == "up":
        tags.append("up:" + (ans if isinstance(ans, str) else "upgraded" if ans[2] != payload[1][2] else "cloned"))
    if t == "chain":
        tags.append("chain:" + (ans if isinstance(ans, str) else f"ok{len(ans[1])}"))
        tags.append("chain:version-" + payload[1][2])
    if t in ("probs", "pipe") and payload[1][0] != "ex":
        tags += num_tags(payload[1][1])
    if t == "probs" and isinstance(ans, list):
        rec = observe_probs(payload)
        if rec["kp"] is not None:
            for row in rec["rows"]:
                if row["kq"] is not None:
                    for f in sorted(set(row["kq"][1]) - set(rec["kp"][1])):
                        if f in NUMBER_TYPE_FEATURES:      # a compilation changed the type of a number
                            tags.append("number-type-gained:" + row["cls"] + ":" + f)
        for r in ans:
            if len(r) == 3 and isinstance(r[0], str):
                if r[2] == "compile-error":
                    tags.append("compile-error:" + r[0])
                else:
                    tags.append("compiled:" + r[0])
                    if isinstance(r[2], list) and r[2][1][1]:
                        tags.append("extra:" + r[0])
    if t == "pipe":
        if isinstance(ans, str):
            tags.append("pipe:" + ans)
        elif ans[0] == "ok":
            done = len(ans[2]) == len(ans[1]) and all(len(r) == 3 for r in ans[2])
            tags.append(f"pipe:ok{len(ans[1])}" + ("" if done else "-stopped"))
    return tags


# ------------------------------------------------------------------------------------------------
# shrinking
# ------------------------------------------------------------------------------------------------
def _shrink_problem(ps):
    def sec(key):
        for i, s in enumerate(ps):
            if isinstance(s, list) and s and s[0] == key:
                return i
        return None
    ia = sec("actions")
    acts = ps[ia][1:]
    for j in range(len(acts)):
        yield ps[:ia] + [["actions"] + acts[:j] + acts[j + 1:]] + ps[ia + 1:]
    for key in ("goals", "traj", "metrics"):
        i = sec(key)
        items = ps[i][1:]
        for j in range(len(items)):
            yield ps[:i] + [[key] + items[:j] + items[j + 1:]] + ps[i + 1:]
    im = sec("metrics")
    for j, m in enumerate(ps[im][1:]):
        if m[0] == "oversub" and len(m[1]) > 1:          # one oversubscription goal less
            for x in range(len(m[1])):
                nm = ["oversub", m[1][:x] + m[1][x + 1:]]
                yield ps[:im] + [["metrics"] + ps[im][1:][:j] + [nm] + ps[im][1:][j + 1:]] + ps[im + 1:]
        if m[0] == "min-action-costs":                  # one cost less / no default cost
            for x in range(len(m[1])):
                if len(m[1]) > 1:
                    nm = [m[0], m[1][:x] + m[1][x + 1:], m[2]]
                    yield ps[:im] + [["metrics"] + ps[im][1:][:j] + [nm] + ps[im][1:][j + 1:]] + ps[im + 1:]
            if m[2] != "_":
                yield ps[:im] + [["metrics"] + ps[im][1:][:j] + [[m[0], m[1], "_"]] + ps[im][1:][j + 1:]] + ps[im + 1:]
    for j, a in enumerate(acts):
        _, name, params, pre, effs = a
        for x in range(1, len(pre)):
            na = ["action", name, params, pre[:x] + pre[x + 1:], effs]
            yield ps[:ia] + [["actions"] + acts[:j] + [na] + acts[j + 1:]] + ps[ia + 1:]
        for x in range(1, len(effs)):
            if len(effs) > 2:
                na = ["action", name, params, pre, effs[:x] + effs[x + 1:]]
                yield ps[:ia] + [["actions"] + acts[:j] + [na] + acts[j + 1:]] + ps[ia + 1:]
        for x in range(1, len(effs)):
            e = effs[x]
            if e[4] != ["b", "T"]:
                ne = ["eff", e[1], e[2], e[3], ["b", "T"], e[5]]
                na = ["action", name, params, pre, effs[:x] + [ne] + effs[x + 1:]]
                yield ps[:ia] + [["actions"] + acts[:j] + [na] + acts[j + 1:]] + ps[ia + 1:]


def shrink(payload):
    t = payload[0]
    if t in ("rk", "chain", "up"):
        i = 2 if t == "rk" else 1
        k = payload[i]
        for f in k[1]:
            yield payload[:i] + [["k", [g for g in k[1] if g != f], k[2]]] + payload[i + 1:]
        if t == "chain":
            for j in range(len(payload[2])):
                if len(payload[2]) > 1:
                    yield ["chain", k, payload[2][:j] + payload[2][j + 1:]]
    if t == "pipe":
        src, cks = payload[1], payload[2]
        for j in range(len(cks)):
            if len(cks) > 1:
                yield ["pipe", src, cks[:j] + cks[j + 1:]]
    if t in ("probs", "pipe") and payload[1][0] in ("gen", "tgen", "num", "tnum"):
        src = payload[1]
        for ps in _shrink_problem(src[1]):
            try:
                upp.build_problem(ps)
            except Exception:
                continue
            yield [t, [src[0], ps] + src[2:]] + payload[2:]
        if src[0] in ("tgen", "tnum"):
            yield [t, [src[0][1:], src[1]]] + payload[2:]


MANIFEST = {
    "level_text": ("Lean 4 theorems (Props/C09.lean). Proved for ALL pipelines and ALL kinds: if every stage compiler's compiled "
                   "problem is within the kind it declares for its actual input (clause 1, kept as the hypothesis "
                   "C09_compiler_full) then every stage of a pipeline selected by the model of Factory._get_engine accepts the "
                   "problem it receives and the final kind is within the declared chain (C09_pipeline_accepts, "
                   "C09_compiles_of_compilers, C09_factory_pipeline_accepts). The step needs every declared transformer to be "
                   "monotone: decided by a syntactic condition (Prog.monoB, proved sound for all input kinds) on the "
                   "resulting_problem_kind programs regenerated from /repo on every run; totality at the latest version and 'the "
                   "declared result never contains the feature the compilation kind removes' (finite check over the features the "
                   "feature depends on, proved sound) are re-decided by `decide +kernel` as well. Kinds of OLDER ProblemKind versions "
                   "(Props/C09Versions.lean): for every class and every constructible kind of any version "
                   "resulting_problem_kind fails no assertion (C09_resulting_never_asserts; the body first upgrades the kind, "
                   "utils._kind_at_latest_version, matched against the source), the upgrade is <=-equivalent to the given kind "
                   "and the identity at the latest version, commutes with the declarations, the transformers are monotone "
                   "across versions, and the factory pipeline theorem holds for an older problem kind (partial: preference "
                   "lists without Ks0Compiler, which does not upgrade). Number types (Props/C09Numbers.lean): the classes that simplify "
                   "durations / action costs or sum oversubscription gains declare, for EVERY input kind with the real-number feature, "
                   "the integer-number feature the rewriting can produce (C09_declares_integer_counterpart; one kernel evaluation per "
                   "class and feature plus the monotonicity of the declarations) — a necessary condition of clause 1. Clause 1 itself "
                   "(per compiler, over real compiled problems) is NOT proved — no compiler models yet — and is checked by the "
                   "oracle on the real code for every compiler class on generated and bundled problems; the interpreter of the "
                   "declarations and the chain model are tied to the code by differential runs."),
    "level_note": ("Trusted: Lean kernel; axioms propext, Classical.choice, Quot.sound; harness/translate_C09.py (statically resolves "
                   "has_*/set_* names against FEATURES); the correspondence harness. Modelled not verified: the compilers and "
                   "Problem.kind (sampled by the oracle only)."),
    "technique": "Lean 4 proof over regenerated declarations + model/code correspondence + property oracle on real compilers",
    "design_ref": "DESIGN.md §5 C09",
}
