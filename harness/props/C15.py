"""C15 — Expression type inference is sound and symmetric."""
import hashlib
import random
import sys
import warnings
from fractions import Fraction

warnings.simplefilter("ignore")
import unified_planning as up
from unified_planning.exceptions import UPTypeError, UPExpressionDefinitionError
from unified_planning.model.operators import OperatorKind as OK
from unified_planning.model.timing import StartTiming, EndTiming
from unified_planning.model.types import TIME

import pyden
import sexp
import upx

# powers of huge bounds ((10**400)**12) have more than the 4300 digits CPython converts to/from str by default; the
# bounds are compared as exact decimal strings, so the limit is lifted for this process (harness only)
if hasattr(sys, "set_int_max_str_digits"):
    sys.set_int_max_str_digits(0)

ID = "C15"
GEN = []
CORR_NAME = "inferred-type-or-reject"
EXTRA_PROPS = ["UPVerif.Props.C15Repeat"]
RULE = ("five streams, every expression built node by node in a FRESH environment (first-time verdict): "
        "(1) arithmetic over + - * / with <= 4 (quick) / 6 (thorough) operator nodes per operand over unbounded, half-bounded, "
        "bounded and singleton int/real fluents and parameters and constants of any magnitude (10**400, n/(10**20+1)), "
        "divisors mostly non-zero constants, plus ill-sorted operands; (2) Equals over ALL ordered pairs of 20 operand "
        "kinds (bool/int/real constants and fluents, objects/parameters/variables/fluents of related, sibling and "
        "unrelated user types, timing); (3) Boolean expressions of the shared generator (quantifiers, fluent and "
        "interpreted-function applications) with ill-typed mutations (wrong sort, super-type argument, arity), "
        "trajectory operators, Dot, user-typed applications with sub-typed arguments; (4) is_compatible on random pairs of types; "
        "(5) repeated-operand shapes: flat n-ary Plus/Times of 2-5 IDENTICAL operands swept over every non-constant leaf "
        "(int/real, bounded, one-sided, unbounded, negative-only, mixed-sign with either side dominating, singleton) and drawn "
        "over leaves, constants and small expressions: alone, with one different operand in any position, two repeated operands "
        "interleaved, nested flat and as the infix operator nests them, x - x, x / x, x op x' for a twin leaf x' of the same "
        "declared type, Plus(x, Minus(0, x)), a constant-0 factor, two powers of one operand under - / * +, a third of them "
        "enclosed in a further operator; the ordinary streams (1) and (3) also copy an operand over others in 12% / 30% of "
        "their n-ary nodes (tags rep-* of the measured distribution). Non-trivial = an accepted expression "
        "whose top node is arithmetic with a non-constant operand (interval arithmetic exercised), or any Equals, "
        "or an application with arguments.")
ASSUMPTIONS = [
    "the oracle samples leaf values (interval corners, interior points, huge magnitudes on unbounded sides) with exact "
    "Fractions instead of an SMT query; the for-all statement is the Lean theorem C15_sound",
    "a divisor whose type is the singleton [0,0] makes the constructor raise ZeroDivisionError (division by a zero "
    "constant is outside the property); it is compared as `reject`",
    "an AssertionError out of a constructor (walk_sometime_after on operands of different types, Dot of a non-fluent) "
    "counts as a rejection; any other exception (OverflowError, ...) is neither acceptance nor rejection and fails the oracle",
    "user types are identified by name (one father per name); movable/configuration types are not generated",
    "every candidate is built in a fresh Environment: create_node memoises a node BEFORE type-checking it, so the "
    "second construction of an ill-typed node does not raise (defect owned by C14/C16)",
    "well-formedness symmetry is checked on the binary Equals node (create_node(EQUALS)), not on the Equals() "
    "shortcut that turns Boolean operands into Iff",
]
MODELLED = ["modelled by hand (tied by correspondence): TypeChecker.walk_* (type_checker.py), is_compatible_type and "
            "_UserType.ancestors (types.py), TypeManager interning (types compared structurally)",
            "Python int/Fraction arithmetic = exact rationals; float infinities only as compared symbols"]
BUDGET_S = {"quick": 40, "thorough": 420}

TYPES = [("T", None), ("S", "T"), ("U", None), ("E", None), ("S2", "T"), ("SS", "S")]
TYPES_SEXP = ["types"] + [[n, f if f else "_"] for n, f in TYPES]
OBJ_TYPE = {"t1": "T", "t2": "T", "s1": "S", "s2": "S", "u1": "U", "r1": "S2", "ss1": "SS"}
FATHER = dict(TYPES)
U = lambda n: ["user", n]
INT, REAL = ["int", "_", "_"], ["real", "_", "_"]
B400 = str(10 ** 400)

NUM_FL = [
    ["x", INT, []], ["y", INT, []], ["xb", ["int", "0", "10"], []], ["xn", ["int", "-5", "5"], []],
    ["xlo", ["int", "2", "_"], []], ["xhi", ["int", "_", "-3"], []], ["xz", ["int", "0", "0"], []],
    ["xneg", ["int", "-7", "-2"], []], ["xc", ["int", "3", "3"], []], ["xcn", ["int", "-2", "-2"], []],
    ["xbig", ["int", str(-10 ** 30), B400], []], ["xl0", ["int", "0", "_"], []], ["xh0", ["int", "_", "0"], []],
    ["z", REAL, []], ["zb", ["real", "0", "7/2"], []], ["zlo", ["real", "-1/3", "_"], []],
    ["zhi", ["real", "_", "5/2"], []], ["zneg", ["real", "-9/4", "-1/7"], []], ["zc", ["real", "1/3", "1/3"], []],
    ["zbig", ["real", "-1/" + str(10 ** 20 + 1), B400 + "/7"], []],
    ["xq", ["int", "-5", "5"], [U("T")]], ["zq", ["real", "0", "1/2"], [U("S")]],
    # (appended: the indices used below stay) mixed-sign ranges whose negative side dominates / is dominated (an even
    # power is largest at the LOWER corner, an odd power negative), a real bounded only from above by a negative number
    ["xm", ["int", "-7", "2"], []], ["xm2", ["int", "-2", "3"], []], ["zm", ["real", "-9/4", "1/2"], []],
    ["zh0", ["real", "_", "-1/3"], []],
]
NUM_PAR = [["p", "pi", ["int", "-5", "-1"]], ["p", "pj", INT], ["p", "pr", REAL], ["p", "prb", ["real", "1/2", "3"]]]
SMALL_INT = [0, 0, 1, 1, -1, 2, 3, 5, -4, 7, 12]
BIG_INT = upx.BIG + [-(10 ** 400), 2 ** 53]


# ------------------------------------------------------------------------------------------------
# building real expressions
# ------------------------------------------------------------------------------------------------

class Ctx15(upx.Ctx):
    """upx.Ctx plus: timing leaves, and applications of the wrong arity built as raw nodes (FluentExp() itself
    refuses them before the type checker sees them)."""

    def ty(self, s):
        if s == "time":
            return TIME
        return super().ty(s)

    def expr(self, s):
        h = s[0]
        if h == "timing":
            return self.em.TimingExp({"start": StartTiming(), "end": EndTiming()}[s[1]])
        if h == "fl" and len(s) - 2 != len(s[1][2]):
            return self.em.create_node(OK.FLUENT_EXP, tuple(self.expr(a) for a in s[2:]), self.fluent(s[1]))
        if h == "ifun" and len(s) - 2 != len(s[1][2]):
            return self.em.create_node(OK.INTERPRETED_FUNCTION_EXP, tuple(self.expr(a) for a in s[2:]), self.fun(s[1]))
        return super().expr(s)


def build(payload):
    """-> ("ok", Type) | ("reject", why) | ("crash", exception)"""
    ctx = Ctx15(types=[(e[0], None if e[1] == "_" else e[1]) for e in payload[1][1:]])
    try:
        if payload[0] == "compat":
            return ("ok", ctx.ty(payload[2]).is_compatible(ctx.ty(payload[3])))
        return ("ok", ctx.expr(payload[2]).type)
    except UPTypeError:
        return ("reject", "type-error")
    except ZeroDivisionError:
        return ("reject", "zero-div")
    except AssertionError:   # walk_sometime_after / Dot() assert their operands' shape (vanishes under -O)
        return ("reject", "assertion")
    except Exception as e:  # OverflowError, AssertionError, ...: neither accepted nor rejected
        return ("crash", e)


def impl(payload):
    k, r = build(payload)
    if k == "reject":
        return "reject"
    if k == "crash":
        return ["crash", type(r).__name__]
    if payload[0] == "compat":
        return sexp.B(r)
    return upx.enc_ty(r)


# ------------------------------------------------------------------------------------------------
# generators
# ------------------------------------------------------------------------------------------------

def c_int(rng):
    return ["i", str(rng.choice(BIG_INT) if rng.random() < 0.2 else rng.choice(SMALL_INT))]


def c_real(rng):
    if rng.random() < 0.2:
        return ["r", upx.q2s(Fraction(rng.choice(BIG_INT), rng.choice([3, 7, 10 ** 20 + 1])))]
    return ["r", upx.q2s(Fraction(rng.choice([0, 1, -1, 2, 3, 5, 7, -9]), rng.choice([1, 2, 3, 4, 10])))]


def num_leaf(rng):
    k = rng.random()
    if k < 0.25:
        return c_int(rng)
    if k < 0.35:
        return c_real(rng)
    if k < 0.9:
        ref = rng.choice(NUM_FL)
        args = []
        for t in ref[2]:
            o = rng.choice(["t1", "s1", "ss1", "r1"] if t[1] == "T" else ["s1", "ss1"])
            args.append(["o", o, OBJ_TYPE[o]])
        return ["fl", ref] + args
    return rng.choice(NUM_PAR)


def split(rng, total, parts):
    """distribute `total` operator nodes over `parts` children"""
    out = [0] * parts
    for _ in range(total):
        out[rng.randrange(parts)] += 1
    return out


def dup_args(rng, args):
    """with probability 0.12: one argument of an n-ary node is copied over others (up to 5 identical arguments)"""
    if rng.random() >= 0.12:
        return args
    i = rng.randrange(len(args))
    js = [j for j in range(len(args)) if j != i and rng.random() < 0.7] or [(i + 1) % len(args)]
    for j in js:
        args[j] = args[i]
    for _ in range(rng.choice([0, 0, 1, 2, 3])):
        if len(args) < 5:
            args.insert(rng.randrange(len(args) + 1), args[i])
    return args


def num_expr(rng, budget):
    """arithmetic expression with at most `budget` operator nodes (a duplicated operand does not count twice)"""
    if budget <= 0 or rng.random() < 0.12:
        return num_leaf(rng)
    k = rng.random()
    if k < 0.3:
        n = rng.choice([2, 2, 3, 4])
        return ["plus"] + dup_args(rng, [num_expr(rng, b) for b in split(rng, budget - 1, n)])
    if k < 0.48:
        a, b = split(rng, budget - 1, 2)
        if rng.random() < 0.08:
            e = num_expr(rng, max(a, b))
            return ["minus", e, e]
        return ["minus", num_expr(rng, a), num_expr(rng, b)]
    if k < 0.78:
        n = rng.choice([2, 2, 3])
        return ["times"] + dup_args(rng, [num_expr(rng, b) for b in split(rng, budget - 1, n)])
    j = rng.random()
    if j < 0.6:
        d = c_int(rng) if rng.random() < 0.6 else c_real(rng)
        if Fraction(d[1]) == 0:
            d = ["i", "3"]
        return ["div", num_expr(rng, budget - 1), d]
    if j < 0.72:   # divisor with a singleton type that is not a constant
        return ["div", num_expr(rng, budget - 1), ["fl", rng.choice([NUM_FL[8], NUM_FL[9], NUM_FL[18]])]]
    if j < 0.78:   # zero divisor
        return ["div", num_expr(rng, budget - 1), rng.choice([["i", "0"], ["fl", NUM_FL[6]], ["r", "0"]])]
    a, b = split(rng, budget - 1, 2)
    return ["div", num_expr(rng, a), num_expr(rng, b)]


# ---- repeated-operand shapes ---------------------------------------------------------------------
# TypeChecker.walk_plus/minus/times/div compute the bounds from the TYPES of the arguments alone.  A node whose
# arguments are syntactically the SAME expression (Times(x, x, x), x - x, x / x, Plus(x, Minus(0, x)), a product with a
# constant 0) invites value-level special cases ("a power cannot be negative", "x - x is 0") that independent draws of
# the arguments never reach: these shapes are generated on purpose, flat and nested, alone and mixed with other
# operands in every position, below other operators and above them.

def leaf_of(rng, ref):
    args = []
    for t in ref[2]:
        o = rng.choice(["t1", "s1", "ss1", "r1"] if t[1] == "T" else ["s1", "ss1"])
        args.append(["o", o, OBJ_TYPE[o]])
    return ["fl", ref] + args


def var_leaves(rng):
    """every non-constant numeric leaf of the signature, once"""
    return [leaf_of(rng, ref) for ref in NUM_FL] + [list(p) for p in NUM_PAR]


def twin(a):
    """another leaf with the SAME declared type (a rule keyed on the type instead of the expression)"""
    if a[0] == "fl":
        return ["fl", [a[1][0] + "_2", a[1][1], a[1][2]]] + a[2:]
    if a[0] == "p":
        return ["p", a[1] + "_2", a[2]]
    return None


UNITS = [["i", "0"], ["i", "1"], ["i", "-1"], ["i", "2"], ["i", "-3"], ["r", "0"], ["r", "-1/2"], ["r", "1"]]
ZEROS = [["i", "0"], ["r", "0"], ["fl", NUM_FL[6]]]
REP_SHAPES = ["pow", "pow", "pow-other", "pow-other", "two-rep", "nested", "infix", "infix", "zero-factor", "self",
              "twin", "cancel", "pow-pow"]
SWEEP = [(op, k) for op in ("times", "plus") for k in (2, 3, 4, 5)]


def rep_base(rng):
    r = rng.random()
    if r < 0.72:
        return rng.choice(var_leaves(rng))
    if r < 0.82:
        return rng.choice([c_int(rng), c_real(rng)])
    return num_expr(rng, rng.choice([1, 1, 2]))


def other_operand(rng, a):
    r = rng.random()
    if r < 0.25 and twin(a) is not None:
        return twin(a)
    if r < 0.6:
        return rng.choice(var_leaves(rng))
    if r < 0.8:
        return rng.choice(UNITS)
    return num_expr(rng, 1)


def nest(rng, op, args):
    """group a contiguous run of >= 2 of the (>= 3) arguments into a child of the same operator: (x*x)*x, x*(x*x)"""
    i = rng.randrange(0, len(args) - 1)
    j = rng.randrange(i + 2, len(args) + 1)
    if j - i == len(args):
        i, j = (i + 1, j) if rng.random() < 0.5 else (i, j - 1)
    return [op] + args[:i] + [[op] + args[i:j]] + args[j:]


def power(rng, a, op=None, k=None):
    return [op or rng.choice(["times", "times", "plus"])] + [a] * (k or rng.choice([2, 3, 3, 4, 5]))


def rep_expr(rng, shape=None, a=None):
    a = a if a is not None else rep_base(rng)
    shape = shape or rng.choice(REP_SHAPES)
    op = rng.choice(["times", "times", "plus"])
    k = rng.choice([2, 3, 3, 4, 5])
    if shape == "pow":
        return [op] + [a] * k
    if shape == "pow-other":          # one different operand, in any of the k+1 positions
        args = [a] * k
        args.insert(rng.randrange(k + 1), other_operand(rng, a))
        return [op] + args
    if shape == "two-rep":            # two repeated operands, interleaved
        args = [a] * k + [other_operand(rng, a)] * rng.choice([1, 2, 3])
        rng.shuffle(args)
        return [op] + args
    if shape == "nested":             # the tree the infix operator builds, and a power of a power
        args = [a] * max(k, 3)
        if rng.random() < 0.3:
            args.insert(rng.randrange(len(args) + 1), other_operand(rng, a))
        return nest(rng, op, args)
    if shape == "infix":              # binary nodes as the infix operator builds them: ((x*x)*x)*x, or folded to the right
        args = [a] * max(k, 3)
        if rng.random() < 0.3:
            args.insert(rng.randrange(len(args) + 1), other_operand(rng, a))
        if rng.random() < 0.3:
            args.reverse()
            e = args[0]
            for b in args[1:]:
                e = [op, b, e]
            return e
        e = args[0]
        for b in args[1:]:
            e = [op, e, b]
        return e
    if shape == "twin":               # two DIFFERENT leaves of one declared type: x - x', x / x', x * x' * x ...
        if twin(a) is None:
            a = rng.choice(var_leaves(rng))
        if rng.random() < 0.5:
            return [rng.choice(["minus", "minus", "div"]), a, twin(a)]
        args = [a] * rng.choice([1, 1, 2, 3]) + [twin(a)] * rng.choice([1, 1, 2])
        rng.shuffle(args)
        return [op] + args
    if shape == "zero-factor":        # 0 * anything (also unbounded) is exactly 0
        args = [a] * rng.choice([1, 2, 3])
        if rng.random() < 0.4:
            args.insert(rng.randrange(len(args) + 1), other_operand(rng, a))
        args.insert(rng.randrange(len(args) + 1), rng.choice(ZEROS))
        return ["times"] + args
    if shape == "self":               # x - x, x / x (also of powers); x - x' with another leaf x' of the same type
        b = a if rng.random() < 0.7 else power(rng, a)
        c = twin(a) if (twin(a) is not None and rng.random() < 0.3) else b
        return [rng.choice(["minus", "div"]), b, c]
    if shape == "cancel":             # x + (0 - x), (-1 * x) + x, x - (x + y)
        z = rng.choice([["i", "0"], ["r", "0"]])
        neg = rng.choice([["minus", z, a], ["times", ["i", "-1"], a], ["times", a, ["i", "-1"]]])
        if rng.random() < 0.25:
            return ["minus", a, ["plus", a, other_operand(rng, a)]]
        args = [a, neg] if rng.random() < 0.5 else [neg, a]
        if rng.random() < 0.3:
            args.insert(rng.randrange(3), other_operand(rng, a))
        return ["plus"] + args
    # pow-pow: two powers of the same operand under - / * + (x*x*x - x*x, (x*x) / x, (x+x) * (x+x))
    p, q = power(rng, a), (power(rng, a) if rng.random() < 0.6 else a)
    if rng.random() < 0.5:
        p, q = q, p
    return [rng.choice(["minus", "div", "times", "plus"]), p, q]


def enclose(rng, e):
    """the repeated shape as an operand of another operator (an unsound operand type propagates)"""
    b = other_operand(rng, e)
    d = rng.choice([["i", "3"], ["i", "-2"], ["r", "-1/3"], ["i", B400]])
    return rng.choice([["plus", e, b], ["plus", b, e, b], ["minus", e, b], ["minus", b, e], ["times", e, b],
                       ["times", b, e], ["div", e, d], ["div", b, e], ["minus", e, e], ["times", e, e],
                       [rng.choice(["le", "lt", "eq"]), e, b]])


def rep_info(e, acc=None):
    """which repeated-operand shapes occur in an expression (measured distribution / non-triviality)"""
    acc = acc if acc is not None else set()
    if not (isinstance(e, list) and e and isinstance(e[0], str)):
        return acc
    h = e[0]
    kids = e[2:] if h in ("fl", "ifun", "dot") else ([e[2]] if h in ("exists", "forall") else e[1:])
    if h in ("plus", "times") and len(kids) >= 2:
        keys = [sexp.dumps(k) for k in kids]
        top = max(keys.count(k) for k in set(keys))
        if top >= 2:
            rep = next(k for k in kids if keys.count(sexp.dumps(k)) == top)
            var = any(x in ("fl", "p") for x in heads(rep, []))
            allsame = len(set(keys)) == 1
            acc.add("rep-%s-%s%s" % (h, "all" if allsame else "mixed", "" if var else "-const"))
            if var:
                acc.add("rep-varying")
                if allsame and h == "times" and len(kids) % 2 == 1:
                    acc.add("rep-odd-power")
        if h == "times" and any(k in ZEROS for k in kids):
            acc.add("rep-zero-factor")
    if h in ("plus", "times") and any(isinstance(k, list) and k and k[0] == h for k in kids):
        flat = []
        def fl(x):
            for y in x[1:]:
                fl(y) if (isinstance(y, list) and y and y[0] == h) else flat.append(sexp.dumps(y))
        fl(e)
        if len(set(flat)) < len(flat):
            acc.add("rep-nested-" + h)
    if h in ("minus", "div") and len(kids) == 2 and kids[0] == kids[1] and isinstance(kids[0], list):
        acc.add("rep-self-" + h)
        if any(x in ("fl", "p") for x in heads(kids[0], [])):
            acc.add("rep-varying")
    for k in kids:
        if isinstance(k, list):
            rep_info(k, acc)
    return acc


OPERANDS = {
    "boolc": ["b", "T"], "boolf": ["fl", ["b0", "bool", []]], "rel": ["le", ["i", "1"], ["fl", NUM_FL[0]]],
    "intc": ["i", "5"], "intbig": ["i", B400], "intf": ["fl", NUM_FL[2]], "intu": ["fl", NUM_FL[0]],
    "realc": ["r", "1/3"], "realf": ["fl", NUM_FL[14]], "sum": ["plus", ["fl", NUM_FL[0]], ["r", "1/2"]],
    "objT": ["o", "t1", "T"], "objS": ["o", "s1", "S"], "objS2": ["o", "r1", "S2"], "objSS": ["o", "ss1", "SS"],
    "objU": ["o", "u1", "U"], "parT": ["p", "pt", U("T")], "varS2": ["v", "vs", U("S2")],
    "flS": ["fl", ["ats", U("S"), []]], "flE": ["fl", ["ate", U("E"), []]], "timing": ["timing", "start"],
}
KINDS = sorted(OPERANDS)

BOOL_LEAVES = [["fl", ["b0", "bool", []]], ["b", "T"], ["p", "pb", "bool"]]
OTHER_SORT = [["i", "5"], ["r", "1/2"], ["o", "t1", "T"], ["o", "u1", "U"], ["b", "F"], ["fl", ["b1", "bool", []]],
              ["fl", NUM_FL[0]], ["timing", "end"], ["p", "pt", U("T")]]


def mutate(rng, e):
    """replace one random sub-term by a term of (probably) another sort, or break an application"""
    if not isinstance(e, list) or e[0] in ("b", "i", "r", "o", "p", "v", "timing"):
        return rng.choice(OTHER_SORT)
    if e[0] in ("fl", "ifun"):
        r = rng.random()
        if len(e) > 2 and r < 0.4:
            i = rng.randrange(2, len(e))
            return e[:i] + [rng.choice(OTHER_SORT + [["o", "t1", "T"], ["o", "ss1", "SS"], ["o", "r1", "S2"]])] + e[i + 1:]
        if r < 0.7:
            return e + [rng.choice(OTHER_SORT)]   # one argument too many
        if len(e) > 2:
            return e[:-1]                           # one too few
        return rng.choice(OTHER_SORT)
    if e[0] in ("exists", "forall"):
        return [e[0], e[1], mutate(rng, e[2])]
    if len(e) < 2:
        return rng.choice(OTHER_SORT)
    i = rng.randrange(1, len(e))
    if e[0] == "dot":
        return e
    return e[:i] + [mutate(rng, e[i]) if rng.random() < 0.6 else rng.choice(OTHER_SORT)] + e[i + 1:]


TYPE_POOL = ["bool", "time", INT, REAL, ["int", "0", "10"], ["int", "11", "20"], ["int", "10", "12"], ["int", "_", "0"],
             ["int", "0", "_"], ["int", "1", "_"], ["int", "_", "-1"], ["int", "3", "3"], ["int", B400, "_"],
             ["int", "_", B400], ["real", "0", "7/2"], ["real", "7/2", "5"], ["real", "18/5", "_"], ["real", "_", "-1/3"],
             ["real", "1/3", "1/3"], ["real", "-1/3", "_"], ["real", B400 + "/3", "_"], ["real", "10", "12"],
             U("T"), U("S"), U("S2"), U("SS"), U("U"), U("E")]


def typeof(e):
    return ["typeof", TYPES_SEXP, e]


def cases(rng, tier):
    quick = tier == "quick"
    budget = 4 if quick else 6
    # (2) all ordered pairs of operand kinds, every run
    for a in KINDS:
        for b in KINDS:
            yield typeof(["eq", OPERANDS[a], OPERANDS[b]])
    # (1) arithmetic
    for i in range(560 if quick else 14000):
        e = num_expr(rng, rng.randint(1, budget))
        r = rng.random()
        if r < 0.06:
            e = mutate(rng, e)
        elif r < 0.16:
            e = [rng.choice(["le", "lt", "eq"]), e, num_expr(rng, rng.randint(0, 2))]
        yield typeof(e)
    # (3) Boolean structure, applications, quantifiers, trajectory operators, Dot
    g = upx.ExprGen(rng, big=True, quantifiers=True, ifuns=True, params=True, repeats=True)
    for i in range(220 if quick else 5000):
        e = g.boolean(rng.choice([1, 2, 2, 3]))
        r = rng.random()
        if r < 0.3:
            e = mutate(rng, e)
        elif r < 0.36:
            e = [rng.choice(["always", "sometime", "at-most-once"]), e]
        elif r < 0.42:
            e = [rng.choice(["sometime-before", "sometime-after"]), e, g.boolean(1) if rng.random() < 0.8 else g.num(1)]
        elif r < 0.46:
            e = ["dot", "ag", rng.choice([["fl", NUM_FL[2]], ["fl", ["b0", "bool", []]], ["fl", NUM_FL[20], ["o", "s1", "S"]]])]
        elif r < 0.5:
            e = [rng.choice(["plus", "minus", "le"]), ["timing", rng.choice(["start", "end"])], g.num(1)]
        yield typeof(e)
    # user-typed expressions (objects, parameters, object-valued fluents with sub-typed arguments)
    for i in range(60 if quick else 1200):
        arg = rng.choice([["o", "s1", "S"], ["o", "ss1", "SS"], ["p", "ps", U("S")], ["o", "t1", "T"], ["o", "r1", "S2"],
                          ["fl", ["ats", U("S"), []]], ["fl", ["atss", U("SS"), []]]])
        yield typeof(rng.choice([["fl", ["at", U("T"), []]], ["fl", ["own", U("T"), [U("S")]], arg],
                                 ["fl", ["own2", U("S2"), [U("T")]], arg], ["o", "ss1", "SS"], ["p", "pt", U("T")],
                                 ["fl", ["ate", U("E"), []]]]))
    # (5) repeated-operand shapes: a sweep over EVERY non-constant leaf (squares and cubes every run, one more
    # (operator, multiplicity) drawn in quick, all of them in thorough), then drawn shapes, a third of them enclosed
    for a in var_leaves(rng):
        for op, k in ([("times", 2), ("times", 3), rng.choice(SWEEP[2:])] if quick else SWEEP):
            yield typeof([op] + [a] * k)
    for i in range(230 if quick else 6000):
        e = rep_expr(rng)
        if rng.random() < 0.35:
            e = enclose(rng, e)
        yield typeof(e)
    # (4) is_compatible
    for i in range(120 if quick else 3000):
        yield ["compat", TYPES_SEXP, rng.choice(TYPE_POOL), rng.choice(TYPE_POOL)]


# ------------------------------------------------------------------------------------------------
# measured distribution
# ------------------------------------------------------------------------------------------------

ARITH = ("plus", "minus", "times", "div")


def heads(e, acc):
    if isinstance(e, list) and e and isinstance(e[0], str):
        acc.append(e[0])
        for a in (e[2:] if e[0] in ("fl", "ifun", "exists", "forall", "dot") else e[1:]):
            if isinstance(a, list):
                heads(a, acc)
    return acc


def has_big(e):
    if isinstance(e, list):
        if e and e[0] in ("i", "r"):
            q = Fraction(e[1])
            return abs(q.numerator) >= 2 ** 53 or q.denominator >= 2 ** 53
        return any(has_big(a) for a in e)
    return False


def nontrivial(payload, ans):
    if payload[0] == "compat" or ans == "reject" or (isinstance(ans, list) and ans[0] == "crash"):
        return payload[0] == "typeof" and payload[2][0] == "eq"
    e = payload[2]
    if e[0] == "eq":
        return True
    if e[0] in ARITH:
        return any(h in ("fl", "p") for h in heads(e, []))
    if e[0] in ("fl", "ifun"):
        return len(e) > 2
    return False


def stats(payload, ans):
    if payload[0] == "compat":
        return ["compat-" + str(ans)]
    e = payload[2]
    t = ["top-" + e[0]]
    if ans == "reject":
        t.append("reject")
        if "div" in heads(e, []) and build(payload)[1] == "zero-div":
            t.append("reject-zero-div")
    elif isinstance(ans, list) and ans[0] == "crash":
        t.append("crash")
    else:
        kind = ans if isinstance(ans, str) else ans[0]
        t.append("type-" + kind)
        if kind in ("int", "real"):
            t.append({(True, True): "unbounded", (True, False): "half-bounded", (False, True): "half-bounded",
                      (False, False): "bounded"}[(ans[1] == "_", ans[2] == "_")])
    if e[0] in ARITH or e[0] in ("le", "lt", "eq"):
        hs = heads(e, [])
        t.append("arith-nodes-%d" % sum(1 for h in hs if h in ARITH))
        if has_big(e):
            t.append("huge-constant")
        t.extend(sorted(rep_info(e)))
    return t


# ------------------------------------------------------------------------------------------------
# the property itself, on the real code
# ------------------------------------------------------------------------------------------------

def is_sub(t, u):
    while t is not None:
        if t == u:
            return True
        t = FATHER.get(t)
    return False


OBJS_BY_TYPE = {t: [o for o, ot in sorted(OBJ_TYPE.items()) if is_sub(ot, t)] for t, _ in TYPES}


def leaf_value(rng, ty, mode):
    """a value inside the DECLARED type `ty`: a corner, an interior point, or (unbounded side) a huge magnitude"""
    if ty == "bool":
        return ("b", rng.random() < 0.5)
    if ty[0] == "user":
        os_ = OBJS_BY_TYPE.get(ty[1], [])
        return ("o", rng.choice(os_)) if os_ else None
    if ty[0] not in ("int", "real"):
        return None
    lo = None if ty[1] == "_" else Fraction(ty[1])
    hi = None if ty[2] == "_" else Fraction(ty[2])
    far = rng.choice([7, 1000, 10 ** 30, 10 ** 450])
    if mode == "rand":
        mode = rng.choice(["lo", "hi", "in", "in"])
    elif mode == "corner":   # every leaf independently at one of its corners (mixed corners of a product)
        mode = rng.choice(["lo", "hi"])
    if mode == "lo":
        v = lo if lo is not None else (hi if hi is not None else Fraction(0)) - far
    elif mode == "hi":
        v = hi if hi is not None else (lo if lo is not None else Fraction(0)) + far
    else:
        a = lo if lo is not None else (hi if hi is not None else Fraction(0)) - 12
        b = hi if hi is not None else a + 24
        v = a + (b - a) * Fraction(rng.randint(0, 12), 12)
        if ty[0] == "int":
            v = Fraction(v.__floor__())
            if lo is not None and v < lo:
                v = lo
    return ("n", Fraction(v))


def interp_for(rng, names, mode):
    from itertools import product
    I = {"fl": {}, "fn": {}, "par": {}, "dom": {}}

    def dom_of(ty):
        if ty == "bool":
            return [("b", False), ("b", True)]
        if ty[0] == "user":
            return [("o", o) for o in OBJS_BY_TYPE.get(ty[1], [])]
        if ty[0] == "int":
            lo = int(ty[1]) if ty[1] != "_" else -2
            hi = int(ty[2]) if ty[2] != "_" else lo + 4
            return [("n", Fraction(i)) for i in range(lo, min(hi, lo + 12) + 1)]
        return [("n", Fraction(0)), ("n", Fraction(1))]
    for kind, tab in (("fl", "fl"), ("ifun", "fn")):
        for ref in names[kind]:
            for args in product(*[dom_of(t) for t in ref[2]]):
                v = leaf_value(rng, ref[1], mode)
                if v is not None:
                    I[tab][(pyden.key(ref), tuple(args))] = v
    for p in names["p"]:
        v = leaf_value(rng, p[2], mode)
        if v is not None:
            I["par"][p[1]] = v
    for t, os_ in OBJS_BY_TYPE.items():
        I["dom"][pyden.key(["user", t])] = [("o", o) for o in os_]
    return I


def member(v, t):
    """does the value belong to the (real) inferred Type?"""
    if v[0] == "b":
        return t.is_bool_type()
    if v[0] == "o":
        return t.is_user_type() and is_sub(OBJ_TYPE.get(v[1]), t.name)
    q = v[1]
    if t.is_int_type():
        if q.denominator != 1:
            return False
    elif not t.is_real_type():
        return False
    return (t.lower_bound is None or t.lower_bound <= q) and (t.upper_bound is None or q <= t.upper_bound)


def oracle(payload):
    if payload[0] != "typeof":
        return None
    e = payload[2]
    k, t = build(payload)
    if k == "crash":
        return f"type inference neither accepts nor rejects the expression: {type(t).__name__}: {str(t)[:80]}"
    if e[0] == "eq" and len(e) == 3:
        k2, t2 = build(["typeof", payload[1], ["eq", e[2], e[1]]])
        if k2 == "crash":
            return f"type inference neither accepts nor rejects the mirrored equality: {type(t2).__name__}"
        if (k == "ok") != (k2 == "ok"):
            return "equality accepted in one orientation and rejected in the mirrored one"
    if k != "ok":
        return None
    # soundness: every value the expression takes under leaf values inside the declared types is in the type
    rng = random.Random(int(hashlib.sha1(sexp.dumps(payload).encode()).hexdigest()[:8], 16))
    names = upx.free_names(e)
    for mode in ("lo", "hi", "corner", "corner", "rand", "rand", "rand", "rand"):
        I = interp_for(rng, names, mode)
        v = pyden.den(e, I)
        if v is not None and not member(v, t):
            return f"value {sexp.dumps(pyden.val_sexp(v))[:120]} is outside the inferred type {t}"
    return None


# ------------------------------------------------------------------------------------------------
# shrinking
# ------------------------------------------------------------------------------------------------

def shrink(payload):
    if payload[0] != "typeof":
        return
    e = payload[2]

    def subs(x):
        """candidates for replacing x: its children, x with one argument dropped, smaller constants"""
        if not isinstance(x, list) or not x:
            return
        if x[0] in ("i", "r"):
            if x[1] not in ("0", "1", "3"):
                yield [x[0], "3"]
                yield [x[0], "1"]
            return
        if x[0] in ("b", "o", "p", "v", "timing", "present"):
            return
        kids = x[2:] if x[0] in ("fl", "ifun", "dot") else ([x[2]] if x[0] in ("exists", "forall") else x[1:])
        off = len(x) - len(kids)
        for c in kids:
            yield c
        if x[0] in ("plus", "times", "and", "or") and len(kids) > 2:
            for i in range(len(kids)):
                yield x[:off + i] + x[off + i + 1:]
            for i in range(len(kids) - 1):          # two at once: keeps the parity of a repeated operand
                if len(kids) > 3:
                    yield x[:off + i] + x[off + i + 2:]
        for i, c in enumerate(kids):
            for c2 in subs(c):
                yield x[:off + i] + [c2] + x[off + i + 1:]
    for c in subs(e):
        if isinstance(c, list) and c and isinstance(c[0], str):
            yield ["typeof", payload[1], c]


MANIFEST = {
    "level_text": ("Lean 4 theorems (Props/C15.lean) about the executable model `typeOf`/`isCompatible` (Core/Walkers/TypeOf.lean, "
                   "one function per walk_* of TypeChecker): for EVERY expression, if a type is inferred then every value the "
                   "reference denotation gives under any interpretation whose leaves respect their declared types lies in "
                   "that type (exact rational interval containment for + - * /, integrality for int types, division by "
                   "non-zero constants, products with unbounded factors), Boolean/user-typed values get bool / an ancestor "
                   "user type, and Equals is accepted iff its mirror image is. The model is tied to the real TypeChecker by a "
                   "differential correspondence on the inferred type (or rejection) of expressions built in fresh "
                   "environments (including nodes whose operands are the SAME expression: Props/C15Repeat.lean proves that the "
                   "model never looks at the identity of operands and that an odd power of a possibly negative expression never "
                   "gets a non-negative lower bound), and the property itself is evaluated on the real code by an exact-Fraction oracle."),
    "level_note": ("Trusted: Lean kernel; axioms propext, Classical.choice, Quot.sound; Driver/ExprSexp wire format; harness/upx.py, "
                   "pyden.py. Modelled not verified: CPython int/Fraction arithmetic and comparisons with float infinities, "
                   "TypeManager interning, DagWalker memoisation (per-node results)."),
    "technique": "Lean 4 proof about an executable model + model/code correspondence",
    "design_ref": "DESIGN.md §5 C15",
}
