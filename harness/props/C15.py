"""C15 — Expression type inference is sound and symmetric."""
import hashlib
import random
import warnings
from fractions import Fraction

warnings.simplefilter("ignore")
import unified_planning as up
from unified_planning.exceptions import UPTypeError, UPExpressionDefinitionError
from unified_planning.model.operators import OperatorKind as OK
from unified_planning.model.timing import StartTiming, EndTiming
from unified_planning.model.types import TIME

import pyden
import sexp
import upx

ID = "C15"
GEN = []
CORR_NAME = "inferred-type-or-reject"
RULE = ("four streams, every expression built node by node in a FRESH environment (first-time verdict): "
        "(1) arithmetic over + - * / with <= 4 (quick) / 6 (thorough) operator nodes per operand over unbounded, half-bounded, "
        "bounded and singleton int/real fluents and parameters and constants of any magnitude (10**400, n/(10**20+1)), "
        "divisors mostly non-zero constants, plus ill-sorted operands; (2) Equals over ALL ordered pairs of 20 operand "
        "kinds (bool/int/real constants and fluents, objects/parameters/variables/fluents of related, sibling and "
        "unrelated user types, timing); (3) Boolean expressions of the shared generator (quantifiers, fluent and "
        "interpreted-function applications) with ill-typed mutations (wrong sort, super-type argument, arity), "
        "trajectory operators, Dot, user-typed applications with sub-typed arguments; (4) is_compatible on random pairs of types. Non-trivial = an accepted expression "
        "whose top node is arithmetic with a non-constant operand (interval arithmetic exercised), or any Equals, "
        "or an application with arguments.")
ASSUMPTIONS = [
    "the oracle samples leaf values (interval corners, interior points, huge magnitudes on unbounded sides) with exact "
    "Fractions instead of an SMT query; the for-all statement is the Lean theorem C15_sound",
    "a divisor whose type is the singleton [0,0] makes the constructor raise ZeroDivisionError (division by a zero "
    "constant is outside the property); it is compared as `reject`",
    "an AssertionError out of a constructor (walk_sometime_after on operands of different types, Dot of a non-fluent) "
    "counts as a rejection; any other exception (OverflowError, ...) is neither acceptance nor rejection and fails the oracle",
    "user types are identified by name (one father per name); movable/configuration types are not generated",
    "every candidate is built in a fresh Environment: create_node memoises a node BEFORE type-checking it, so the "
    "second construction of an ill-typed node does not raise (defect owned by C14/C16)",
    "well-formedness symmetry is checked on the binary Equals node (create_node(EQUALS)), not on the Equals() "
    "shortcut that turns Boolean operands into Iff",
]
MODELLED = ["modelled by hand (tied by correspondence): TypeChecker.walk_* (type_checker.py), is_compatible_type and "
            "_UserType.ancestors (types.py), TypeManager interning (types compared structurally)",
            "Python int/Fraction arithmetic = exact rationals; float infinities only as compared symbols"]
BUDGET_S = {"quick": 40, "thorough": 420}

TYPES = [("T", None), ("S", "T"), ("U", None), ("E", None), ("S2", "T"), ("SS", "S")]
TYPES_SEXP = ["types"] + [[n, f if f else "_"] for n, f in TYPES]
OBJ_TYPE = {"t1": "T", "t2": "T", "s1": "S", "s2": "S", "u1": "U", "r1": "S2", "ss1": "SS"}
FATHER = dict(TYPES)
U = lambda n: ["user", n]
INT, REAL = ["int", "_", "_"], ["real", "_", "_"]
B400 = str(10 ** 400)

NUM_FL = [
    ["x", INT, []], ["y", INT, []], ["xb", ["int", "0", "10"], []], ["xn", ["int", "-5", "5"], []],
    ["xlo", ["int", "2", "_"], []], ["xhi", ["int", "_", "-3"], []], ["xz", ["int", "0", "0"], []],
    ["xneg", ["int", "-7", "-2"], []], ["xc", ["int", "3", "3"], []], ["xcn", ["int", "-2", "-2"], []],
    ["xbig", ["int", str(-10 ** 30), B400], []], ["xl0", ["int", "0", "_"], []], ["xh0", ["int", "_", "0"], []],
    ["z", REAL, []], ["zb", ["real", "0", "7/2"], []], ["zlo", ["real", "-1/3", "_"], []],
    ["zhi", ["real", "_", "5/2"], []], ["zneg", ["real", "-9/4", "-1/7"], []], ["zc", ["real", "1/3", "1/3"], []],
    ["zbig", ["real", "-1/" + str(10 ** 20 + 1), B400 + "/7"], []],
    ["xq", ["int", "-5", "5"], [U("T")]], ["zq", ["real", "0", "1/2"], [U("S")]],
]
NUM_PAR = [["p", "pi", ["int", "-5", "-1"]], ["p", "pj", INT], ["p", "pr", REAL], ["p", "prb", ["real", "1/2", "3"]]]
SMALL_INT = [0, 0, 1, 1, -1, 2, 3, 5, -4, 7, 12]
BIG_INT = upx.BIG + [-(10 ** 400), 2 ** 53]


# ------------------------------------------------------------------------------------------------
# building real expressions
# ------------------------------------------------------------------------------------------------

class Ctx15(upx.Ctx):
    """upx.Ctx plus: timing leaves, and applications of the wrong arity built as raw nodes (FluentExp() itself
    refuses them before the type checker sees them)."""

    def ty(self, s):
        if s == "time":
            return TIME
        return super().ty(s)

    def expr(self, s):
        h = s[0]
        if h == "timing":
            return self.em.TimingExp({"start": StartTiming(), "end": EndTiming()}[s[1]])
        if h == "fl" and len(s) - 2 != len(s[1][2]):
            return self.em.create_node(OK.FLUENT_EXP, tuple(self.expr(a) for a in s[2:]), self.fluent(s[1]))
        if h == "ifun" and len(s) - 2 != len(s[1][2]):
            return self.em.create_node(OK.INTERPRETED_FUNCTION_EXP, tuple(self.expr(a) for a in s[2:]), self.fun(s[1]))
        return super().expr(s)


def build(payload):
    """-> ("ok", Type) | ("reject", why) | ("crash", exception)"""
    ctx = Ctx15(types=[(e[0], None if e[1] == "_" else e[1]) for e in payload[1][1:]])
    try:
        if payload[0] == "compat":
            return ("ok", ctx.ty(payload[2]).is_compatible(ctx.ty(payload[3])))
        return ("ok", ctx.expr(payload[2]).type)
    except UPTypeError:
        return ("reject", "type-error")
    except ZeroDivisionError:
        return ("reject", "zero-div")
    except AssertionError:   # walk_sometime_after / Dot() assert their operands' shape (vanishes under -O)
        return ("reject", "assertion")
    except Exception as e:  # OverflowError, AssertionError, ...: neither accepted nor rejected
        return ("crash", e)


def impl(payload):
    k, r = build(payload)
    if k == "reject":
        return "reject"
    if k == "crash":
        return ["crash", type(r).__name__]
    if payload[0] == "compat":
        return sexp.B(r)
    return upx.enc_ty(r)


# ------------------------------------------------------------------------------------------------
# generators
# ------------------------------------------------------------------------------------------------

def c_int(rng):
    return ["i", str(rng.choice(BIG_INT) if rng.random() < 0.2 else rng.choice(SMALL_INT))]


def c_real(rng):
    if rng.random() < 0.2:
        return ["r", upx.q2s(Fraction(rng.choice(BIG_INT), rng.choice([3, 7, 10 ** 20 + 1])))]
    return ["r", upx.q2s(Fraction(rng.choice([0, 1, -1, 2, 3, 5, 7, -9]), rng.choice([1, 2, 3, 4, 10])))]


def num_leaf(rng):
    k = rng.random()
    if k < 0.25:
        return c_int(rng)
    if k < 0.35:
        return c_real(rng)
    if k < 0.9:
        ref = rng.choice(NUM_FL)
        args = []
        for t in ref[2]:
            o = rng.choice(["t1", "s1", "ss1", "r1"] if t[1] == "T" else ["s1", "ss1"])
            args.append(["o", o, OBJ_TYPE[o]])
        return ["fl", ref] + args
    return rng.choice(NUM_PAR)


def split(rng, total, parts):
    """distribute `total` operator nodes over `parts` children"""
    out = [0] * parts
    for _ in range(total):
        out[rng.randrange(parts)] += 1
    return out


def num_expr(rng, budget):
    """arithmetic expression with at most `budget` operator nodes"""
    if budget <= 0 or rng.random() < 0.12:
        return num_leaf(rng)
    k = rng.random()
    if k < 0.3:
        n = rng.choice([2, 2, 3, 4])
        return ["plus"] + [num_expr(rng, b) for b in split(rng, budget - 1, n)]
    if k < 0.48:
        a, b = split(rng, budget - 1, 2)
        return ["minus", num_expr(rng, a), num_expr(rng, b)]
    if k < 0.78:
        n = rng.choice([2, 2, 3])
        return ["times"] + [num_expr(rng, b) for b in split(rng, budget - 1, n)]
    j = rng.random()
    if j < 0.6:
        d = c_int(rng) if rng.random() < 0.6 else c_real(rng)
        if Fraction(d[1]) == 0:
            d = ["i", "3"]
        return ["div", num_expr(rng, budget - 1), d]
    if j < 0.72:   # divisor with a singleton type that is not a constant
        return ["div", num_expr(rng, budget - 1), ["fl", rng.choice([NUM_FL[8], NUM_FL[9], NUM_FL[18]])]]
    if j < 0.78:   # zero divisor
        return ["div", num_expr(rng, budget - 1), rng.choice([["i", "0"], ["fl", NUM_FL[6]], ["r", "0"]])]
    a, b = split(rng, budget - 1, 2)
    return ["div", num_expr(rng, a), num_expr(rng, b)]


OPERANDS = {
    "boolc": ["b", "T"], "boolf": ["fl", ["b0", "bool", []]], "rel": ["le", ["i", "1"], ["fl", NUM_FL[0]]],
    "intc": ["i", "5"], "intbig": ["i", B400], "intf": ["fl", NUM_FL[2]], "intu": ["fl", NUM_FL[0]],
    "realc": ["r", "1/3"], "realf": ["fl", NUM_FL[14]], "sum": ["plus", ["fl", NUM_FL[0]], ["r", "1/2"]],
    "objT": ["o", "t1", "T"], "objS": ["o", "s1", "S"], "objS2": ["o", "r1", "S2"], "objSS": ["o", "ss1", "SS"],
    "objU": ["o", "u1", "U"], "parT": ["p", "pt", U("T")], "varS2": ["v", "vs", U("S2")],
    "flS": ["fl", ["ats", U("S"), []]], "flE": ["fl", ["ate", U("E"), []]], "timing": ["timing", "start"],
}
KINDS = sorted(OPERANDS)

BOOL_LEAVES = [["fl", ["b0", "bool", []]], ["b", "T"], ["p", "pb", "bool"]]
OTHER_SORT = [["i", "5"], ["r", "1/2"], ["o", "t1", "T"], ["o", "u1", "U"], ["b", "F"], ["fl", ["b1", "bool", []]],
              ["fl", NUM_FL[0]], ["timing", "end"], ["p", "pt", U("T")]]


def mutate(rng, e):
    """replace one random sub-term by a term of (probably) another sort, or break an application"""
    if not isinstance(e, list) or e[0] in ("b", "i", "r", "o", "p", "v", "timing"):
        return rng.choice(OTHER_SORT)
    if e[0] in ("fl", "ifun"):
        r = rng.random()
        if len(e) > 2 and r < 0.4:
            i = rng.randrange(2, len(e))
            return e[:i] + [rng.choice(OTHER_SORT + [["o", "t1", "T"], ["o", "ss1", "SS"], ["o", "r1", "S2"]])] + e[i + 1:]
        if r < 0.7:
            return e + [rng.choice(OTHER_SORT)]   # one argument too many
        if len(e) > 2:
            return e[:-1]                           # one too few
        return rng.choice(OTHER_SORT)
    if e[0] in ("exists", "forall"):
        return [e[0], e[1], mutate(rng, e[2])]
    if len(e) < 2:
        return rng.choice(OTHER_SORT)
    i = rng.randrange(1, len(e))
    if e[0] == "dot":
        return e
    return e[:i] + [mutate(rng, e[i]) if rng.random() < 0.6 else rng.choice(OTHER_SORT)] + e[i + 1:]


TYPE_POOL = ["bool", "time", INT, REAL, ["int", "0", "10"], ["int", "11", "20"], ["int", "10", "12"], ["int", "_", "0"],
             ["int", "0", "_"], ["int", "1", "_"], ["int", "_", "-1"], ["int", "3", "3"], ["int", B400, "_"],
             ["int", "_", B400], ["real", "0", "7/2"], ["real", "7/2", "5"], ["real", "18/5", "_"], ["real", "_", "-1/3"],
             ["real", "1/3", "1/3"], ["real", "-1/3", "_"], ["real", B400 + "/3", "_"], ["real", "10", "12"],
             U("T"), U("S"), U("S2"), U("SS"), U("U"), U("E")]


def typeof(e):
    return ["typeof", TYPES_SEXP, e]


def cases(rng, tier):
    quick = tier == "quick"
    budget = 4 if quick else 6
    # (2) all ordered pairs of operand kinds, every run
    for a in KINDS:
        for b in KINDS:
            yield typeof(["eq", OPERANDS[a], OPERANDS[b]])
    # (1) arithmetic
    for i in range(560 if quick else 14000):
        e = num_expr(rng, rng.randint(1, budget))
        r = rng.random()
        if r < 0.06:
            e = mutate(rng, e)
        elif r < 0.16:
            e = [rng.choice(["le", "lt", "eq"]), e, num_expr(rng, rng.randint(0, 2))]
        yield typeof(e)
    # (3) Boolean structure, applications, quantifiers, trajectory operators, Dot
    g = upx.ExprGen(rng, big=True, quantifiers=True, ifuns=True, params=True)
    for i in range(220 if quick else 5000):
        e = g.boolean(rng.choice([1, 2, 2, 3]))
        r = rng.random()
        if r < 0.3:
            e = mutate(rng, e)
        elif r < 0.36:
            e = [rng.choice(["always", "sometime", "at-most-once"]), e]
        elif r < 0.42:
            e = [rng.choice(["sometime-before", "sometime-after"]), e, g.boolean(1) if rng.random() < 0.8 else g.num(1)]
        elif r < 0.46:
            e = ["dot", "ag", rng.choice([["fl", NUM_FL[2]], ["fl", ["b0", "bool", []]], ["fl", NUM_FL[20], ["o", "s1", "S"]]])]
        elif r < 0.5:
            e = [rng.choice(["plus", "minus", "le"]), ["timing", rng.choice(["start", "end"])], g.num(1)]
        yield typeof(e)
    # user-typed expressions (objects, parameters, object-valued fluents with sub-typed arguments)
    for i in range(60 if quick else 1200):
        arg = rng.choice([["o", "s1", "S"], ["o", "ss1", "SS"], ["p", "ps", U("S")], ["o", "t1", "T"], ["o", "r1", "S2"],
                          ["fl", ["ats", U("S"), []]], ["fl", ["atss", U("SS"), []]]])
        yield typeof(rng.choice([["fl", ["at", U("T"), []]], ["fl", ["own", U("T"), [U("S")]], arg],
                                 ["fl", ["own2", U("S2"), [U("T")]], arg], ["o", "ss1", "SS"], ["p", "pt", U("T")],
                                 ["fl", ["ate", U("E"), []]]]))
    # (4) is_compatible
    for i in range(120 if quick else 3000):
        yield ["compat", TYPES_SEXP, rng.choice(TYPE_POOL), rng.choice(TYPE_POOL)]


# ------------------------------------------------------------------------------------------------
# measured distribution
# ------------------------------------------------------------------------------------------------

ARITH = ("plus", "minus", "times", "div")


def heads(e, acc):
    if isinstance(e, list) and e and isinstance(e[0], str):
        acc.append(e[0])
        for a in (e[2:] if e[0] in ("fl", "ifun", "exists", "forall", "dot") else e[1:]):
            if isinstance(a, list):
                heads(a, acc)
    return acc


def has_big(e):
    if isinstance(e, list):
        if e and e[0] in ("i", "r"):
            q = Fraction(e[1])
            return abs(q.numerator) >= 2 ** 53 or q.denominator >= 2 ** 53
        return any(has_big(a) for a in e)
    return False


def nontrivial(payload, ans):
    if payload[0] == "compat" or ans == "reject" or (isinstance(ans, list) and ans[0] == "crash"):
        return payload[0] == "typeof" and payload[2][0] == "eq"
    e = payload[2]
    if e[0] == "eq":
        return True
    if e[0] in ARITH:
        return any(h in ("fl", "p") for h in heads(e, []))
    if e[0] in ("fl", "ifun"):
        return len(e) > 2
    return False


def stats(payload, ans):
    if payload[0] == "compat":
        return ["compat-" + str(ans)]
    e = payload[2]
    t = ["top-" + e[0]]
    if ans == "reject":
        t.append("reject")
        if "div" in heads(e, []) and build(payload)[1] == "zero-div":
            t.append("reject-zero-div")
    elif isinstance(ans, list) and ans[0] == "crash":
        t.append("crash")
    else:
        kind = ans if isinstance(ans, str) else ans[0]
        t.append("type-" + kind)
        if kind in ("int", "real"):
            t.append({(True, True): "unbounded", (True, False): "half-bounded", (False, True): "half-bounded",
                      (False, False): "bounded"}[(ans[1] == "_", ans[2] == "_")])
    if e[0] in ARITH or e[0] in ("le", "lt", "eq"):
        hs = heads(e, [])
        t.append("arith-nodes-%d" % sum(1 for h in hs if h in ARITH))
        if has_big(e):
            t.append("huge-constant")
    return t


# ------------------------------------------------------------------------------------------------
# the property itself, on the real code
# ------------------------------------------------------------------------------------------------

def is_sub(t, u):
    while t is not None:
        if t == u:
            return True
        t = FATHER.get(t)
    return False


OBJS_BY_TYPE = {t: [o for o, ot in sorted(OBJ_TYPE.items()) if is_sub(ot, t)] for t, _ in TYPES}


def leaf_value(rng, ty, mode):
    """a value inside the DECLARED type `ty`: a corner, an interior point, or (unbounded side) a huge magnitude"""
    if ty == "bool":
        return ("b", rng.random() < 0.5)
    if ty[0] == "user":
        os_ = OBJS_BY_TYPE.get(ty[1], [])
        return ("o", rng.choice(os_)) if os_ else None
    if ty[0] not in ("int", "real"):
        return None
    lo = None if ty[1] == "_" else Fraction(ty[1])
    hi = None if ty[2] == "_" else Fraction(ty[2])
    far = rng.choice([7, 1000, 10 ** 30, 10 ** 450])
    if mode == "rand":
        mode = rng.choice(["lo", "hi", "in", "in"])
    if mode == "lo":
        v = lo if lo is not None else (hi if hi is not None else Fraction(0)) - far
    elif mode == "hi":
        v = hi if hi is not None else (lo if lo is not None else Fraction(0)) + far
    else:
        a = lo if lo is not None else (hi if hi is not None else Fraction(0)) - 12
        b = hi if hi is not None else a + 24
        v = a + (b - a) * Fraction(rng.randint(0, 12), 12)
        if ty[0] == "int":
            v = Fraction(v.__floor__())
            if lo is not None and v < lo:
                v = lo
    return ("n", Fraction(v))


def interp_for(rng, names, mode):
    from itertools import product
    I = {"fl": {}, "fn": {}, "par": {}, "dom": {}}

    def dom_of(ty):
        if ty == "bool":
            return [("b", False), ("b", True)]
        if ty[0] == "user":
            return [("o", o) for o in OBJS_BY_TYPE.get(ty[1], [])]
        if ty[0] == "int":
            lo = int(ty[1]) if ty[1] != "_" else -2
            hi = int(ty[2]) if ty[2] != "_" else lo + 4
            return [("n", Fraction(i)) for i in range(lo, min(hi, lo + 12) + 1)]
        return [("n", Fraction(0)), ("n", Fraction(1))]
    for kind, tab in (("fl", "fl"), ("ifun", "fn")):
        for ref in names[kind]:
            for args in product(*[dom_of(t) for t in ref[2]]):
                v = leaf_value(rng, ref[1], mode)
                if v is not None:
                    I[tab][(pyden.key(ref), tuple(args))] = v
    for p in names["p"]:
        v = leaf_value(rng, p[2], mode)
        if v is not None:
            I["par"][p[1]] = v
    for t, os_ in OBJS_BY_TYPE.items():
        I["dom"][pyden.key(["user", t])] = [("o", o) for o in os_]
    return I


def member(v, t):
    """does the value belong to the (real) inferred Type?"""
    if v[0] == "b":
        return t.is_bool_type()
    if v[0] == "o":
        return t.is_user_type() and is_sub(OBJ_TYPE.get(v[1]), t.name)
    q = v[1]
    if t.is_int_type():
        if q.denominator != 1:
            return False
    elif not t.is_real_type():
        return False
    return (t.lower_bound is None or t.lower_bound <= q) and (t.upper_bound is None or q <= t.upper_bound)


def oracle(payload):
    if payload[0] != "typeof":
        return None
    e = payload[2]
    k, t = build(payload)
    if k == "crash":
        return f"type inference neither accepts nor rejects the expression: {type(t).__name__}: {str(t)[:80]}"
    if e[0] == "eq" and len(e) == 3:
        k2, t2 = build(["typeof", payload[1], ["eq", e[2], e[1]]])
        if k2 == "crash":
            return f"type inference neither accepts nor rejects the mirrored equality: {type(t2).__name__}"
        if (k == "ok") != (k2 == "ok"):
            return "equality accepted in one orientation and rejected in the mirrored one"
    if k != "ok":
        return None
    # soundness: every value the expression takes under leaf values inside the declared types is in the type
    rng = random.Random(int(hashlib.sha1(sexp.dumps(payload).encode()).hexdigest()[:8], 16))
    names = upx.free_names(e)
    for mode in ("lo", "hi", "rand", "rand", "rand", "rand"):
        I = interp_for(rng, names, mode)
        v = pyden.den(e, I)
        if v is not None and not member(v, t):
            return f"value {sexp.dumps(pyden.val_sexp(v))[:120]} is outside the inferred type {t}"
    return None


# ------------------------------------------------------------------------------------------------
# shrinking
# ------------------------------------------------------------------------------------------------

def shrink(payload):
    if payload[0] != "typeof":
        return
    e = payload[2]

    def subs(x):
        """candidates for replacing x: its children, x with one argument dropped, smaller constants"""
        if not isinstance(x, list) or not x:
            return
        if x[0] in ("i", "r"):
            if x[1] not in ("0", "1", "3"):
                yield [x[0], "3"]
                yield [x[0], "1"]
            return
        if x[0] in ("b", "o", "p", "v", "timing", "present"):
            return
        kids = x[2:] if x[0] in ("fl", "ifun", "dot") else ([x[2]] if x[0] in ("exists", "forall") else x[1:])
        off = len(x) - len(kids)
        for c in kids:
            yield c
        if x[0] in ("plus", "times", "and", "or") and len(kids) > 2:
            for i in range(len(kids)):
                yield x[:off + i] + x[off + i + 1:]
        for i, c in enumerate(kids):
            for c2 in subs(c):
                yield x[:off + i] + [c2] + x[off + i + 1:]
    for c in subs(e):
        if isinstance(c, list) and c and isinstance(c[0], str):
            yield ["typeof", payload[1], c]


MANIFEST = {
    "level_text": ("Lean 4 theorems (Props/C15.lean) about the executable model `typeOf`/`isCompatible` (Core/Walkers/TypeOf.lean, "
                   "one function per walk_* of TypeChecker): for EVERY expression, if a type is inferred then every value the "
                   "reference denotation gives under any interpretation whose leaves respect their declared types lies in "
                   "that type (exact rational interval containment for + - * /, integrality for int types, division by "
                   "non-zero constants, products with unbounded factors), Boolean/user-typed values get bool / an ancestor "
                   "user type, and Equals is accepted iff its mirror image is. The model is tied to the real TypeChecker by a "
                   "differential correspondence on the inferred type (or rejection) of expressions built in fresh "
                   "environments, and the property itself is evaluated on the real code by an exact-Fraction oracle."),
    "level_note": ("Trusted: Lean kernel; axioms propext, Classical.choice, Quot.sound; Driver/ExprSexp wire format; harness/upx.py, "
                   "pyden.py. Modelled not verified: CPython int/Fraction arithmetic and comparisons with float infinities, "
                   "TypeManager interning, DagWalker memoisation (per-node results)."),
    "technique": "Lean 4 proof about an executable model + model/code correspondence",
    "design_ref": "DESIGN.md §5 C15",
}
