"""C34 — HTN task-network ordering extraction is exact."""
import warnings
from fractions import Fraction

warnings.simplefilter("ignore")
from unified_planning.environment import get_environment
from unified_planning.model.htn import Task, TaskNetwork
from unified_planning.model.timing import Timepoint, TimepointKind, Timing

ID = "C34"
GEN = []
CORR_NAME = "partial_order-total_order"
RULE = ("(1) EXHAUSTIVE stream: every precedence relation over n subtasks t0..t(n-1), built with set_strictly_before in "
        "bit order of a mask over the row-major pair list: quick = all loop-free relations for n<=4 and all relations "
        "with self-precedences for n<=3; thorough adds all relations with self-precedences for n=4 and all 2^20 loop-free "
        "relations for n=5 (blocks of 256 masks per case, constraint list assigned directly). (2) RANDOM stream: networks "
        "of 0..7 subtasks (adversarial identifiers) whose precedences are a shuffled chain plus redundant transitive "
        "edges, a random DAG, a forest or a random relation with cycles, written as LT/GT/double negation/zero Fraction "
        "delay, interleaved with non-temporal constraints, TRUE and duplicates; 45% also get one or more "
        "non-qualitative temporal constraints (delay, <=, start-start, end-end, start-end, and/or/not of precedences, "
        "timing vs constant, global or container-less timepoints) at a random position; 6% get a precedence on a "
        "foreign container; 3% repeat a subtask identifier. Non-trivial = at least 2 subtasks and at least 1 temporal "
        "constraint (the ordering analysis has something to decide).")
ASSUMPTIONS = ["'exactly those precedences' is read as equality of the returned list with the network's precedences up to "
               "order (the library's own test compares them as a set); correspondence compares the sorted lists",
               "a precedence-shaped constraint whose container is not a subtask of the network is outside the property "
               "('between its subtasks'): such cases are generated for the correspondence only, the oracle demands nothing",
               "subtask identifiers are ASCII strings; a repeated identifier is rejected by add_subtask (assert)",
               "n=5 blocks assign TaskNetwork._constraints directly (add_constraint is exercised by every other case)"]
MODELLED = ["modelled by hand (tied by correspondence): ordering(), _build_total_order(), PartialOrder/TotalOrder, "
            "TaskNetwork.add_subtask/add_constraint/temporal_constraints/partial_order/total_order, "
            "ExpressionManager.Not/GT/GE normalisation, AnyChecker(is_timing_exp) on the constraint fragment "
            "{timing, int constant, TRUE, <, <=, not, and, or}",
            "not verified: Python set iteration order in _build_total_order (immaterial: the result is used only when "
            "exactly one candidate exists), FNode hash-consing (C16)"]
BUDGET_S = {"quick": 60, "thorough": 700}
SEARCH_S = {"quick": 30, "thorough": 120}

TASK = Task("c34_task")
KINDS = {"GS": TimepointKind.GLOBAL_START, "GE": TimepointKind.GLOBAL_END, "S": TimepointKind.START, "E": TimepointKind.END}
BLOCK = 256


def em():
    return get_environment().expression_manager


# ------------------------------------------------------------------------------------------------
# payload -> real objects
# ------------------------------------------------------------------------------------------------

def arg_expr(a):
    if a[0] == "tm":
        cont = a[2][1] if len(a[2]) > 1 else None
        delay = Fraction(int(a[3]), int(a[4]))
        return em().TimingExp(Timing(delay, Timepoint(KINDS[a[1]], container=cont)))
    if a[0] == "int":
        return em().Int(int(a[1]))
    raise ValueError(a)


def c_expr(c):
    m = em()
    op = c[0]
    if op == "true":
        return m.TRUE()
    if op in ("lt", "le", "gt", "ge"):
        f = {"lt": m.LT, "le": m.LE, "gt": m.GT, "ge": m.GE}[op]
        return f(arg_expr(c[1]), arg_expr(c[2]))
    if op == "not":
        return m.Not(c_expr(c[1]))
    if op == "and":
        return m.And(c_expr(c[1]), c_expr(c[2]))
    if op == "or":
        return m.Or(c_expr(c[1]), c_expr(c[2]))
    raise ValueError(c)


def pairs_of(n, loops):
    return [(i, j) for i in range(n) for j in range(n) if loops or i != j]


def rel_pairs(n, loops, mask):
    return [p for k, p in enumerate(pairs_of(n, loops)) if mask >> k & 1]


_LAST_BUILT = [None, None]


def build(payload):
    """-> TaskNetwork built through the public API, or None if a subtask was rejected.  The network built for the
    very same payload object is reused (impl() and oracle() are called on it one after the other; neither of the
    observed methods changes the network)."""
    if _LAST_BUILT[0] is payload:
        return _LAST_BUILT[1]
    tn = _build(payload)
    _LAST_BUILT[0], _LAST_BUILT[1] = payload, tn
    return tn


def _build(payload):
    tn = TaskNetwork()
    if payload[0] == "net":
        try:
            for ident in payload[1]:
                tn.add_subtask(TASK, ident=ident)
        except AssertionError:
            return None
        for c in payload[2]:
            tn.add_constraint(c_expr(c))
        return tn
    if payload[0] == "rel":
        n, loops, mask = int(payload[1]), payload[2] == "1", int(payload[3])
        subs = [tn.add_subtask(TASK, ident=f"t{i}") for i in range(n)]
        for i, j in rel_pairs(n, loops, mask):
            tn.set_strictly_before(subs[i], subs[j])
        return tn
    raise ValueError(payload[0])


_BLOCK_CACHE = {}


def block_setup(n):
    if n not in _BLOCK_CACHE:
        base = TaskNetwork()
        subs = [base.add_subtask(TASK, ident=f"t{i}") for i in range(n)]
        prs = pairs_of(n, False)
        fn = [em().LT(Timing(0, subs[i].end), Timing(0, subs[j].start)) for i, j in prs]
        _BLOCK_CACHE[n] = (base, prs, fn)
    return _BLOCK_CACHE[n]


def block_network(n, mask):
    base, prs, fn = block_setup(n)
    tn = base.clone()
    tn._constraints = [fn[k] for k in range(len(prs)) if mask >> k & 1]
    return tn


_BLOCK_RESULTS = {}   # (n, lo, hi) -> [(partial_order(), total_order())] as returned by the real code in impl()


def block_results(n, lo, hi, keep):
    """what the real partial_order()/total_order() return for every mask of a block; computed once per block and
    shared between impl() and oracle() (the n=5 sweep is 2^20 networks, the real code is the bottleneck)"""
    key = (n, lo, hi)
    if key in _BLOCK_RESULTS:
        return _BLOCK_RESULTS[key] if keep else _BLOCK_RESULTS.pop(key)
    res = []
    for m in range(lo, hi):
        tn = block_network(n, m)
        res.append((tn.partial_order(), tn.total_order()))
    if keep:
        _BLOCK_RESULTS.clear()
        _BLOCK_RESULTS[key] = res
    return res


def nm(x):
    """identifiers are strings; anything else the code might hand out is made visible, never hidden"""
    return x if isinstance(x, str) else "#" + repr(x)


def out(tn):
    po, to = tn.partial_order(), tn.total_order()
    return [["po", "none" if po is None else sorted([nm(a), nm(b)] for a, b in po)],
            ["to", "none" if to is None else [nm(t) for t in to]],
            ["nt", str(len(tn.temporal_constraints()))],
            ["nc", str(len(tn.constraints))]]


_IDX = {}


def block_atom(n, po, to):
    if n not in _IDX:
        _IDX[n] = {(f"t{i}", f"t{j}"): k for k, (i, j) in enumerate(pairs_of(n, False))}
    idx = _IDX[n]
    if po is None:
        a = "-"
    elif len(po) == 0:
        a = "e"
    else:
        a = ".".join(str(k) for k in sorted(idx[tuple(p)] for p in po))
    if to is None:
        b = "-"
    elif len(to) == 0:
        b = "e"
    else:
        b = "".join(t[1:] for t in to)
    return a + "/" + b


def impl(payload):
    if payload[0] == "relblock":
        n, lo, hi = int(payload[1]), int(payload[2]), int(payload[3])
        return [block_atom(n, po, to) for po, to in block_results(n, lo, hi, keep=True)]
    tn = build(payload)
    if tn is None:
        return "reject"
    return out(tn)


# ------------------------------------------------------------------------------------------------
# the property itself, on the real objects (written from the property text)
# ------------------------------------------------------------------------------------------------

def classify(c, ids):
    """'in' (strict end-before-start precedence between subtasks) -> ('in', a, b); 'out' (same shape, a container
    that is not a subtask); 'other' (any other kind of temporal constraint)"""
    if not c.is_lt():
        return ("other",)
    l, r = c.arg(0), c.arg(1)
    if not (l.is_timing_exp() and r.is_timing_exp()):
        return ("other",)
    lt, rt = l.timing(), r.timing()
    if lt.delay != 0 or rt.delay != 0:
        return ("other",)
    if lt.timepoint.kind != TimepointKind.END or rt.timepoint.kind != TimepointKind.START:
        return ("other",)
    a, b = lt.timepoint.container, rt.timepoint.container
    if a is None or b is None:
        return ("other",)
    if a in ids and b in ids:
        return ("in", a, b)
    return ("out", a, b)


def count_linear_extensions(ids, precs, cap=2):
    """number of linear orderings of `ids` in which a comes before b for every (a, b) in precs, counted by
    dynamic programming over subsets (capped), plus one witness when there is any"""
    n = len(ids)
    pos = {t: i for i, t in enumerate(ids)}
    pred = [0] * n
    for a, b in precs:
        if a == b:
            return 0
        pred[pos[b]] |= 1 << pos[a]
    ways = {0: 1}
    for _ in range(n):
        nxt = {}
        for s, w in ways.items():
            for i in range(n):
                if not s >> i & 1 and pred[i] & ~s == 0:
                    t = s | 1 << i
                    nxt[t] = min(cap, nxt.get(t, 0) + w)
        ways = nxt
        if not ways:
            return 0
    return ways.get((1 << n) - 1, 0)


def check_network(tn, answers=None):
    ids = [s.identifier for s in tn.subtasks]
    cl = [classify(c, set(ids)) for c in tn.temporal_constraints()]
    po, to = answers if answers is not None else (tn.partial_order(), tn.total_order())
    return check_answers(ids, cl, po, to)


def check_answers(ids, cl, po, to):
    if any(x[0] == "other" for x in cl):
        if po is not None or to is not None:
            return f"a non-precedence temporal constraint is present but partial_order={po} total_order={to}"
        return None
    if any(x[0] == "out" for x in cl):
        return None
    precs = [(x[1], x[2]) for x in cl]
    if po is None or sorted(tuple(p) for p in po) != sorted(precs):
        return f"partial_order returned {po}, the precedences are {precs}"
    k = count_linear_extensions(ids, precs)
    if to is None:
        if k == 1:
            return f"exactly one linear ordering of {ids} under {precs} but total_order is None"
        return None
    if k != 1:
        return f"total_order returned {to} but {precs} admit {'no' if k == 0 else 'several'} linear orderings of {ids}"
    if sorted(to) != sorted(ids) or len(set(to)) != len(to):
        return f"total_order {to} is not an ordering of all subtasks {ids}"
    p = {t: i for i, t in enumerate(to)}
    for a, b in precs:
        if not p[a] < p[b]:
            return f"total_order {to} violates the precedence {(a, b)}"
    return None


def oracle(payload):
    if payload[0] == "relblock":
        n, lo, hi = int(payload[1]), int(payload[2]), int(payload[3])
        base, prs, fn = block_setup(n)
        ids = [s.identifier for s in base.subtasks]
        cls = [classify(c, set(ids)) for c in fn]      # each stored constraint classified from the real FNode
        for m, (po, to) in zip(range(lo, hi), block_results(n, lo, hi, keep=False)):
            v = check_answers(ids, [cls[k] for k in range(len(prs)) if m >> k & 1], po, to)
            if v:
                return f"mask {m}: {v}"
        return None
    tn = build(payload)
    if tn is None:
        return None
    return check_network(tn)


# ------------------------------------------------------------------------------------------------
# generators
# ------------------------------------------------------------------------------------------------

NAMES = ["t0", "t1", "t2", "t10", "a", "b", "A", "a1", "a_1", "x-y", "task one", "s(1)", "0", "none", "end", "q\"z"]
FOREIGN = ["zz", "t99", "T0"]


def tm(kind, cont, num=0, den=1):
    return ["tm", kind, ["c"] if cont is None else ["c", cont], str(num), str(den)]


def prec(a, b, rng=None):
    """a precedence constraint in one of its equivalent spellings"""
    r = rng.random() if rng else 1.0
    l, rr = tm("E", a), tm("S", b)
    if r < 0.12:
        return ["gt", rr, l]
    if r < 0.18:
        return ["not", ["not", ["lt", l, rr]]]
    if r < 0.26:
        return ["lt", tm("E", a, 0, rng.choice([2, 3, 7])), rr]
    return ["lt", l, rr]


def rand_delay(rng):
    return rng.choice([(1, 1), (-1, 1), (3, 1), (1, 2), (-7, 3), (10 ** 20, 1), (1, 10 ** 9)])


def non_qualitative(rng, ids):
    a = rng.choice(ids) if ids else "zz"
    b = rng.choice(ids) if ids else "zz"
    r = rng.randrange(14)
    if r == 0:
        n, d = rand_delay(rng)
        return ["lt", tm("E", a, n, d), tm("S", b)]
    if r == 1:
        n, d = rand_delay(rng)
        return ["lt", tm("E", a), tm("S", b, n, d)]
    if r == 2:
        return ["le", tm("E", a), tm("S", b)]
    if r == 3:
        return ["lt", tm("S", a), tm("S", b)]
    if r == 4:
        return ["lt", tm("E", a), tm("E", b)]
    if r == 5:
        return ["lt", tm("S", a), tm("E", b)]
    if r == 6:
        return ["or", prec(a, b), prec(b, a)]
    if r == 7:
        return ["and", prec(a, b), ["lt", ["int", "1"], ["int", "2"]]]
    if r == 8:
        return ["not", prec(a, b)]
    if r == 9:
        return ["lt", tm("E", a), ["int", str(rng.choice([0, 5]))]]
    if r == 10:
        return ["lt", tm("E", None), tm("S", b)]
    if r == 11:
        return ["lt", tm("E", a), tm("S", None)]
    if r == 12:
        return ["lt", tm(rng.choice(["GS", "GE"]), None), tm("S", b)]
    return ["ge", tm("S", b), tm("E", a)]


def non_temporal(rng):
    r = rng.randrange(4)
    if r == 0:
        return ["true"]
    if r == 1:
        return ["lt", ["int", "1"], ["int", str(rng.choice([0, 2]))]]
    if r == 2:
        return ["not", ["le", ["int", "3"], ["int", "2"]]]
    return ["or", ["lt", ["int", "1"], ["int", "2"]], ["true"]]


def rand_relation(rng, ids):
    n = len(ids)
    order = list(ids)
    rng.shuffle(order)
    shape = rng.randrange(6)
    pairs = []
    if n < 2:
        if n == 1 and rng.random() < 0.2:
            pairs = [(ids[0], ids[0])]
        return pairs
    if shape in (0, 1):      # chain (total order), shape 1 adds redundant transitive edges
        pairs = [(order[i], order[i + 1]) for i in range(n - 1)]
        if shape == 1:
            extra = [(order[i], order[j]) for i in range(n) for j in range(i + 2, n)]
            rng.shuffle(extra)
            pairs += extra[:rng.randint(1, max(1, len(extra)))]
    elif shape == 2:         # random DAG along a hidden order
        pr = rng.choice([0.2, 0.5, 0.8])
        pairs = [(order[i], order[j]) for i in range(n) for j in range(i + 1, n) if rng.random() < pr]
    elif shape == 3:         # forest / fork
        pairs = [(order[rng.randrange(i)], order[i]) for i in range(1, n) if rng.random() < 0.8]
    elif shape == 4:         # chain with one link missing or one back edge
        pairs = [(order[i], order[i + 1]) for i in range(n - 1)]
        if rng.random() < 0.5:
            del pairs[rng.randrange(len(pairs))]
        else:
            i = rng.randrange(1, n)
            pairs.append((order[i], order[rng.randrange(i + 1) if rng.random() < 0.3 else rng.randrange(i)]))
    else:                    # arbitrary relation
        pr = rng.choice([0.1, 0.3])
        pairs = [(a, b) for a in ids for b in ids if rng.random() < pr]
    rng.shuffle(pairs)
    return pairs


def rand_net(rng, max_n):
    n = rng.choice([0, 1, 2, 2, 3, 3, 3, 4, 4, 4, 5, 5, 6, 7])
    n = min(n, max_n)
    ids = rng.sample(NAMES, n) if rng.random() < 0.5 else [f"t{i}" for i in range(n)]
    cs = [prec(a, b, rng) for a, b in rand_relation(rng, ids)]
    if rng.random() < 0.45:
        for _ in range(rng.choice([1, 1, 2])):
            cs.insert(rng.randint(0, len(cs)), non_qualitative(rng, ids))
    if ids and rng.random() < 0.06:
        f = rng.choice(FOREIGN)
        cs.insert(rng.randint(0, len(cs)), prec(f, rng.choice(ids)) if rng.random() < 0.5 else prec(rng.choice(ids), f))
    for _ in range(rng.choice([0, 0, 1, 2])):
        cs.insert(rng.randint(0, len(cs)), non_temporal(rng))
    if cs and rng.random() < 0.2:
        cs.insert(rng.randint(0, len(cs)), rng.choice(cs))
    if ids and rng.random() < 0.03:
        ids = ids + [rng.choice(ids)]
    return ["net", ids, cs]


def exhaustive(tier):
    for n in range(0, 5):
        for m in range(2 ** len(pairs_of(n, False))):
            yield ["rel", str(n), "0", str(m)]
    for n in range(1, 4 if tier == "quick" else 5):
        for m in range(2 ** (n * n)):
            if any(i == j for i, j in rel_pairs(n, True, m)):     # loop-free ones were already produced
                yield ["rel", str(n), "1", str(m)]
    if tier != "quick":
        total = 2 ** len(pairs_of(5, False))
        for lo in range(0, total, BLOCK):
            yield ["relblock", "5", str(lo), str(min(total, lo + BLOCK))]


def cases(rng, tier):
    n_rand = 1500 if tier == "quick" else 20000
    # random cases first in the thorough tier so that a time budget can only cut the tail of the n=5 sweep
    if tier != "quick":
        for _ in range(n_rand):
            yield rand_net(rng, 7)
    yield from exhaustive(tier)
    if tier == "quick":
        for _ in range(n_rand):
            yield rand_net(rng, 7)


def search(rng, tier):
    for _ in range(4000):
        yield rand_net(rng, 6)
    for n in range(0, 5):
        for m in range(2 ** len(pairs_of(n, False))):
            yield ["rel", str(n), "0", str(m)]
    while True:
        yield rand_net(rng, 7)


# ------------------------------------------------------------------------------------------------
# evidence helpers
# ------------------------------------------------------------------------------------------------

def nontrivial(payload, ans):
    if payload[0] == "relblock":
        return True
    if ans == "reject":
        return False
    d = {x[0]: x[1] for x in ans}
    nsub = int(payload[1]) if payload[0] == "rel" else len(payload[1])
    return nsub >= 2 and int(d["nt"]) >= 1


def stats(payload, ans):
    if payload[0] == "relblock":
        t = ["block-n5"]
        for a in ans:
            po, to = a.split("/")
            t.append("n5:" + ("TEMPORAL" if po == "-" else "TO" if to != "-" else "PO"))
            if to != "-" and po.count(".") + 1 > 4:
                t.append("n5:TO-with-redundant-precedences")
        return t
    if ans == "reject":
        return ["reject"]
    d = {x[0]: x[1] for x in ans}
    nsub = int(payload[1]) if payload[0] == "rel" else len(payload[1])
    t = [payload[0], f"subtasks={nsub}"]
    if d["po"] == "none":
        t.append("TEMPORAL")
    elif d["to"] != "none":
        t.append("TO")
        if len(d["po"]) > max(0, nsub - 1):
            t.append("TO-with-redundant-precedences")
    else:
        t.append("PO")
    if int(d["nc"]) > int(d["nt"]):
        t.append("has-non-temporal-constraints")
    return t


def shrink(payload):
    if payload[0] == "relblock":
        n, lo, hi = payload[1], int(payload[2]), int(payload[3])
        for m in range(lo, hi):
            yield ["rel", n, "0", str(m)]
        return
    if payload[0] == "rel":
        n, loops, mask = int(payload[1]), payload[2] == "1", int(payload[3])
        ids = [f"t{i}" for i in range(n)]
        yield ["net", ids, [prec(f"t{i}", f"t{j}") for i, j in rel_pairs(n, loops, mask)]]
        return
    ids, cs = payload[1], payload[2]
    for k in range(len(cs)):
        yield ["net", ids, cs[:k] + cs[k + 1:]]
    used = set()

    def walk(e):
        if isinstance(e, list):
            if e and e[0] == "c" and len(e) > 1:
                used.add(e[1])
            for x in e:
                walk(x)
    walk(cs)
    for k in range(len(ids)):
        if ids[k] not in used:
            yield ["net", ids[:k] + ids[k + 1:], cs]
    for k, c in enumerate(cs):
        if c[0] in ("gt", "not") or (c[0] == "lt" and c[1][0] == "tm" and c[1][3] == "0" and c[1][4] != "1"):
            try:
                cl = classify(c_expr(c), set(ids))
            except Exception:
                continue
            if cl[0] == "in":
                yield ["net", ids, cs[:k] + [prec(cl[1], cl[2])] + cs[k + 1:]]


MANIFEST = {
    "level_text": ("Lean 4 theorems (Props/C34.lean) prove for every task network, with no bound on the number of subtasks or "
                   "constraints: if its temporal constraints are the end-before-start precedences P then partial_order "
                   "returns exactly P; if moreover P relates its subtasks, total_order returns l iff l is the unique linear "
                   "ordering of all subtasks compatible with P (none for cycles or several orderings); any other temporal "
                   "constraint makes both return None; every network falls in one of the two cases. The model of "
                   "ordering()/_build_total_order()/TaskNetwork is tied to the code by a differential correspondence check "
                   "that is exhaustive over all precedence relations on <=4 (quick) / <=5 (thorough) subtasks plus random "
                   "mixed networks, and by a direct oracle of the property on the real class."),
    "level_note": ("Trusted: Lean kernel; axioms propext, Classical.choice, Quot.sound; the correspondence harness and driver. "
                   "Modelled not verified: Python set/list semantics, FNode hash-consing, AnyChecker outside the modelled "
                   "constraint fragment. Requires the fix notes/patches/C34-total-order-keeps-precedences.patch (the "
                   "unrepaired TotalOrder replaced the precedences by the chain of consecutive elements)."),
    "technique": "Lean 4 proof over an executable model + model/code correspondence (exhaustive small scope + random)",
    "design_ref": "DESIGN.md §5 C34",
}
