"""C26 — Time-triggered and STN plan conversions are faithful.

Payload grammar: see harness/tplib_c26.py.  The model driver receives `model_payload(payload)`:

  (conv (eps -|q) (mock (effs T1*) (conds (T1 T2 T|F T|F)*))
        (plan (start - name) | (start dur name (effs T1*) (conds (T1 T2 T|F T|F)*)) ...)
        (adj (i j*)*))

i.e. the timing skeleton of the case plus the ordering edges that the REAL deordering
(`SequentialPlan._to_partial_order_plan` + `networkx.transitive_reduction`, owned by C27 / trusted) produced
for the event sequence, as positions in that sequence, in `get_adjacency_list` order.
"""
import signal
import warnings
from fractions import Fraction as F

warnings.simplefilter("ignore")
import networkx as nx
import unified_planning as up
from unified_planning.engines.plan_validator import TimeTriggeredPlanValidator
from unified_planning.engines.results import ValidationResultStatus
from unified_planning.model import TimepointKind
from unified_planning.plans import PlanKind, SequentialPlan, TimeTriggeredPlan
from unified_planning.plans.stn_plan import STNPlanNode

import sexp
import tplib_c26 as tp
from tplib_c26 import q, qs, sec, with_sec

ID = "C26"
GEN = []
CORR_NAME = "event-sequence+STN-constraints+consistency+back-converted-(start,duration)"
RULE = ("small temporal problems over 2-4 Boolean fluents and 0-1 integer fluent with 1-4 actions (instantaneous; durative with "
        "fixed / closed / half-open / open duration intervals, durations 0, 1/2 .. 3, effects at start, at end, at start+d and at "
        "end-d, conditions at start, at end and over closed / half-open / open intervals), 0-2 timed effects and 0-1 timed goal, "
        "and a time-triggered plan of 1-6 instances (the same action several times, starts on a grid so that happenings coincide "
        "often, list order shuffled in a third of the cases). Conditions and goals are chosen (80%) among the literals that a "
        "reference simulation of the plan's happenings makes true, so that most plans are valid; validity is decided by the REAL "
        "TimeTriggeredPlanValidator. Invalid plans are converted and compared too. Non-trivial = a VALID plan whose conversion "
        "yields at least one ordering constraint between two different action instances (or an instance and a timed happening).")
ASSUMPTIONS = [
    "valid = accepted by the real TimeTriggeredPlanValidator for the same problem (before and after the round trip); its "
    "supported-kind pre-check is skipped (it mislabels a condition over (start+d, end] as EXTERNAL_CONDITIONS_AND_EFFECTS)",
    "the constraints of an STNPlan are read as lower <= Time(B) - Time(A) <= upper for an entry (lower, upper, B) under key A "
    "(what STNPlan.__init__ inserts and what _convert_to_stn relies on for (duration, duration, END)); the docstrings of "
    "STNPlan.__init__/get_constraints state the difference the other way round",
    "problem.epsilon is None (the conversion derives its own separation from the plan) or positive and at most a third of the "
    "smallest gap between two happenings of the plan. A larger declared epsilon together with an open condition/goal interval "
    "is the known finding D-C26a (witness FINDING_WITNESS; the generated stream stays out of it, known_cause recognises it). "
    "epsilon = 0 is accepted by the setter although its message demands a positive value; with it ordered events may be "
    "scheduled together and the round trip is not valid (kept out, as in C28)",
    "a fifth of the problems live in an Environment of their own (fix D-C26b: _convert_to_stn built its mock-up and event "
    "actions in the global Environment and failed with AssertionError on such problems)",
    "timed effects/goals are relative to GLOBAL_START; no state invariants (C27's finding), no bounded numeric types (C04), "
    "a condition interval is left-open only if the action has an effect at its lower end (C05's finding: the validator checks "
    "nothing for a left-open interval without a happening at its start); no simulated effects, no parameters",
    "effect and condition timings lie inside the action's own interval [start, end] for every admitted duration, and a "
    "condition interval with an open end is non-empty (the validator still checks the state before an empty [s, s) while the "
    "conversion, rightly, creates no event for it)",
    "start times and durations are non-negative; one ActionInstance object per plan entry",
    "every run of the real code is bounded by a 20 s watchdog",
]
MODELLED = [
    "modelled by hand (tied by correspondence): TimeTriggeredPlan.extract_epsilon, _absolute_time, _extract_action_timings, the "
    "event/constraint generation of _convert_to_stn, STNPlan.__init__ (insertion sequence into the DeltaSTN), is_consistent, "
    "get_constraints, _convert_to_time_triggered; DeltaSimpleTemporalNetwork is C25's model (Core/STN.lean)",
    "taken from the real run as an input of the model (not verified here): the ordering edges computed by "
    "SequentialPlan._to_partial_order_plan (C27) and networkx.transitive_reduction; on every case the harness checks that the "
    "reduction has the same reachability as the graph it was given and that every edge points forward in the event sequence",
    "modelled not verified: the contents (preconditions/effects) of the event actions built by _extract_instantenous_actions — "
    "they reach the result only through the deordering; TimeTriggeredPlanValidator (C04/C05); Fraction, dict/set order",
]
BUDGET_S = {"quick": 60, "thorough": 600}
WATCHDOG_S = 20

VALIDATOR = TimeTriggeredPlanValidator()
VALIDATOR.skip_checks = True      # the kind test mislabels (start+d, end] as EXTERNAL_CONDITIONS_AND_EFFECTS (C10's business)


class NonTermination(Exception):
    pass


class watchdog:
    def _fire(self, *a):
        raise NonTermination()

    def __enter__(self):
        self.old = signal.signal(signal.SIGALRM, self._fire)
        signal.setitimer(signal.ITIMER_REAL, WATCHDOG_S)

    def __exit__(self, *a):
        signal.setitimer(signal.ITIMER_REAL, 0)
        signal.signal(signal.SIGALRM, self.old)
        return False


# ------------------------------------------------------------------------------------------------
# running the real code
# ------------------------------------------------------------------------------------------------

def is_valid(problem, plan):
    try:
        return VALIDATOR.validate(problem, plan).status == ValidationResultStatus.VALID
    except NonTermination:
        raise
    except Exception:
        return False


class Observation:
    """what one real `convert_to(STN_PLAN)` did: the sequential plan handed to the deordering, the graph before and
    after `transitive_reduction`, the resulting adjacency list"""
    seq = None
    before = None
    after = None
    adj = None


def convert_observed(B):
    """TimeTriggeredPlan.convert_to(STN_PLAN) on the real code, recording (never altering) the deordering step"""
    import unified_planning.plans.sequential_plan as spm
    obs = Observation()
    real_tr = nx.transitive_reduction
    real_pop = SequentialPlan._to_partial_order_plan

    def tr(g):
        r = real_tr(g)
        obs.before, obs.after = g, r
        return r

    def pop(self, problem):
        obs.seq = list(self.actions)
        r = real_pop(self, problem)
        obs.adj = r.get_adjacency_list
        return r

    spm.nx.transitive_reduction = tr
    SequentialPlan._to_partial_order_plan = pop
    try:
        stn = B.plan.convert_to(PlanKind.STN_PLAN, B.problem)
    finally:
        spm.nx.transitive_reduction = real_tr
        SequentialPlan._to_partial_order_plan = real_pop
    return stn, obs


def node_name(n, index):
    if n.kind == TimepointKind.GLOBAL_START:
        return "SP"
    if n.kind == TimepointKind.GLOBAL_END:
        return "EP"
    i = index.get(id(n.action_instance))
    if i is None:
        return "?" + str(n.action_instance)
    return ("s" if n.kind == TimepointKind.START else "e") + str(i)


def ob(v):
    return "-" if v is None else qs(v)


def base_name(ev, index, B):
    """name of the plan action an event of the sequential plan was made from: the instance itself for an
    instantaneous action, `<action>_<k>` for a piece of a durative one (`mockup_action_<k>` for timed happenings)"""
    if id(ev) in index:
        return ev.action.name
    n = ev.action.name
    return n[:n.rindex("_")] if "_" in n else n


def reduction_ok(obs):
    """defining property of networkx.transitive_reduction on this instance: same nodes, same reachability, and
    (for the deordering) every edge points forward in the sequence"""
    if obs.before is None:
        return obs.seq is not None and len(obs.seq) == 0
    pos = {id(a): i for i, a in enumerate(obs.seq)}
    if set(map(id, obs.before.nodes)) != set(map(id, obs.after.nodes)):
        return False
    if not nx.is_directed_acyclic_graph(obs.after):
        return False
    c1 = set((id(a), id(b)) for a, b in nx.transitive_closure(obs.before).edges)
    c2 = set((id(a), id(b)) for a, b in nx.transitive_closure(obs.after).edges)
    if c1 != c2:
        return False
    return all(pos[id(a)] < pos[id(b)] for a, b in obs.after.edges)


def adjacency(obs):
    pos = {id(a): i for i, a in enumerate(obs.seq)}
    return [[str(pos[id(k)])] + [str(pos[id(x)]) for x in l] for k, l in obs.adj.items()]


def cons_out(stn, index):
    out = []
    for a, l in stn.get_constraints().items():
        for lb, ub, b in l:
            out.append([node_name(a, index), ob(lb), ob(ub), node_name(b, index)])
    out.sort()
    return out


def back_out(back, index):
    rows = []
    for st, ai, du in back.timed_actions:
        rows.append((index.get(id(ai), -1), qs(st), ob(du)))
    rows.sort()
    return [[b, str(a), c] for a, b, c in rows]


def impl(payload):
    try:
        with watchdog():
            return _impl(payload)
    except NonTermination:
        return ["error", "no-answer-within-%ds" % WATCHDOG_S]


def _impl(payload):
    B = tp.build(payload)
    index = {id(ai): i for i, (_, ai, _) in enumerate(B.entries)}
    try:
        stn, obs = convert_observed(B)
    except (AssertionError, KeyError, AttributeError, TypeError, IndexError, ValueError, NotImplementedError,
            up.exceptions.UPException) as e:
        return ["error", "convert:" + type(e).__name__, "plan-valid" if is_valid(B.problem, B.plan) else "plan-invalid"]
    seq = [base_name(ev, index, B) for ev in obs.seq]
    sat = stn.is_consistent()
    ans = ["ok", ["seq"] + seq, ["tr", "ok" if reduction_ok(obs) else "bad"], ["sat", "T" if sat else "F"],
           ["cons"] + (cons_out(stn, index) if sat else [])]
    if sat:
        try:
            back = stn.convert_to(PlanKind.TIME_TRIGGERED_PLAN, B.problem)
            ans.append(["back"] + back_out(back, index))
        except (AssertionError, KeyError, AttributeError, TypeError, IndexError, ValueError,
                up.exceptions.UPException) as e:
            ans.append(["back-error", type(e).__name__])
    else:
        ans.append(["back"])
    return ans


def shape(a):
    effs = [t for t, _ in sec(a[1:], "eff")]
    conds = [[c[0], c[1], c[2], c[3]] for c in sec(a[1:], "cond")]
    return [["effs"] + effs, ["conds"] + conds]


def model_payload(payload):
    with watchdog():
        B = tp.build(payload)
        try:
            _, obs = convert_observed(B)
            adj = adjacency(obs)
        except Exception:
            adj = None
    acts = {a[1]: a for a in sec(payload, "acts")}
    mock = [["effs"] + [["S", t] for t, _ in sec(payload, "teff")],
            ["conds"] + [[["S", lo], ["S", hi], lop, rop] for lo, hi, lop, rop, _ in sec(payload, "tgoal")]]
    plan = []
    for st, name, du in sec(payload, "plan"):
        if du == "-":
            plan.append([st, "-", name])
        else:
            plan.append([st, du, name] + shape(acts[name]))
    return ["conv", ["eps", sec(payload, "eps")[0]], ["mock"] + mock, ["plan"] + plan,
            ["adj"] + adj if adj is not None else ["adj-unavailable"]]


def compare(model_ans, impl_ans):
    """equal answers; when the real conversion raised (so that no adjacency list could be observed) the model has
    nothing to say, which is accepted only for plans the real validator rejects (e.g. a zero-duration instance
    whose start and end effects clash once merged into one event)"""
    if model_ans == ["no-adjacency"]:
        return bool(impl_ans) and impl_ans[0] == "error" and impl_ans[-1] == "plan-invalid"
    return model_ans == impl_ans


# ------------------------------------------------------------------------------------------------
# the property itself on the real code
# ------------------------------------------------------------------------------------------------

def oracle(payload):
    try:
        with watchdog():
            return _oracle(payload)
    except NonTermination:
        return "a conversion or validation did not return within %d s" % WATCHDOG_S


def _oracle(payload):
    B = tp.build(payload)
    if not is_valid(B.problem, B.plan):
        return None                                  # the property speaks about valid plans only
    try:
        stn = B.plan.convert_to(PlanKind.STN_PLAN, B.problem)
    except Exception as e:
        return f"convert_to(STN_PLAN) of a valid plan raised {type(e).__name__}: {str(e)[:120]}"
    if not stn.is_consistent():
        return "the STN plan obtained from a valid time-triggered plan is inconsistent"
    # the original start times and durations satisfy every constraint
    t = {}
    for st, ai, du in B.entries:
        t[STNPlanNode(TimepointKind.START, ai)] = st
        if du is not None:
            t[STNPlanNode(TimepointKind.END, ai)] = st + du
    t[STNPlanNode(TimepointKind.GLOBAL_START)] = F(0)
    t[STNPlanNode(TimepointKind.GLOBAL_END)] = max([F(0)] + list(t.values()))
    for a, l in stn.get_constraints().items():
        for lb, ub, b in l:
            if a not in t or b not in t:
                return f"constraint mentions a node that is not a start/end of a plan instance: {a} / {b}"
            d = t[b] - t[a]
            if (lb is not None and d < lb) or (ub is not None and d > ub):
                return (f"the original times violate the constraint {lb} <= [{b}] - [{a}] <= {ub} "
                        f"(original difference {d})")
    try:
        back = stn.convert_to(PlanKind.TIME_TRIGGERED_PLAN, B.problem)
    except Exception as e:
        return f"converting the STN plan back raised {type(e).__name__}: {str(e)[:120]}"
    if not isinstance(back, TimeTriggeredPlan):
        return "converting back does not give a time-triggered plan"
    if not is_valid(B.problem, back):
        return "the plan obtained by converting the STN plan back is not valid for the problem: " + \
            "; ".join(f"{qs(s)}:{ai.action.name}[{ob(d)}]" for s, ai, d in back.timed_actions)
    return None


# ------------------------------------------------------------------------------------------------
# generator
# ------------------------------------------------------------------------------------------------

GRID = [F(0), F(1, 2), F(1), F(3, 2), F(2), F(5, 2), F(3), F(4), F(5)]
DURS = [F(1, 2), F(1), F(1), F(2), F(2), F(3)]


def happenings(payload):
    """reference reading of the plan's effects: sorted list of (time, fluent, op, value)"""
    acts = {a[1]: a for a in sec(payload, "acts")}
    hs = []
    for t, e in sec(payload, "teff"):
        hs.append((q(t), e))
    for st, name, du in sec(payload, "plan"):
        a = acts[name]
        st = q(st)
        if a[0] == "i":
            for e in sec(a[1:], "eff"):
                hs.append((st, e))
        else:
            du = q(du)
            for (k, d), e in sec(a[1:], "eff"):
                hs.append(((st if k == "S" else st + du) + q(d), e))
    hs.sort(key=lambda x: x[0])
    return hs


def apply_eff(state, e):
    f = e[0]
    if e[1] in ("T", "F"):
        state[f] = e[1] == "T"
    elif e[1] == "set":
        state[f] = int(e[2])
    elif e[1] == "inc":
        state[f] += int(e[2])
    elif e[1] == "dec":
        state[f] -= int(e[2])


def init_state(payload):
    return {n: (v == "T") if v in ("T", "F") else int(v) for n, v in sec(payload, "fl")}


def state_before(payload, hs, t):
    s = init_state(payload)
    for ht, e in hs:
        if ht < t:
            apply_eff(s, e)
    return s


def state_at(payload, hs, t):
    s = init_state(payload)
    for ht, e in hs:
        if ht <= t:
            apply_eff(s, e)
    return s


def holds(s, l):
    v = s[l[0]]
    if l[1] == "T":
        return v is True
    if l[1] == "F":
        return v is False
    if l[1] == "ge":
        return v >= int(l[2])
    return v <= int(l[2])


def holds_over(payload, hs, lo, hi, lopen, l):
    """reference reading of the validator's check of `l` over the interval"""
    states = []
    if not lopen:
        states.append(state_before(payload, hs, lo))
    for ht in sorted(set(h[0] for h in hs)):
        if lo <= ht < hi:
            states.append(state_at(payload, hs, ht))
    return all(holds(s, l) for s in states)


def literals(payload):
    out = []
    for n, v in sec(payload, "fl"):
        if v in ("T", "F"):
            out += [[n, "T"], [n, "F"]]
        else:
            out += [[n, "ge", str(k)] for k in (0, 1, 2)] + [[n, "le", str(k)] for k in (3, 5)]
    return out


def rand_effect(rng, fls):
    n, v = rng.choice(fls)
    if v in ("T", "F"):
        return [n, rng.choice(["T", "F"])]
    return [n, rng.choice(["inc", "inc", "dec", "set"]), str(rng.randint(1, 2))]


def clashes(acts, teff, plan):
    """indices of plan entries one of whose effects coincides with an assignment to the same fluent made by
    another instance or a timed effect (the validator's `Double effect`)"""
    amap = {a[1]: a for a in acts}
    hs = [(q(t), e, -1) for t, e in teff]
    for i, (st, name, du) in enumerate(plan):
        a = amap[name]
        st = q(st)
        if a[0] == "i":
            hs += [(st, e, i) for e in sec(a[1:], "eff")]
        else:
            du = q(du)
            hs += [((st if k == "S" else st + du) + q(d), e, i) for (k, d), e in sec(a[1:], "eff")]
    bad = set()
    for x in range(len(hs)):
        for y in range(x + 1, len(hs)):
            (t1, e1, i1), (t2, e2, i2) = hs[x], hs[y]
            if t1 == t2 and e1[0] == e2[0] and (e1[1] not in ("inc", "dec") or e2[1] not in ("inc", "dec")):
                if i1 != i2 or e1[1] not in ("T", "F"):
                    bad |= {i for i in (i1, i2) if i >= 0}
    return bad


def gen_case(rng, big=False):
    """a case the library accepts at definition time (conflicting effects inside one action are rejected there)"""
    while True:
        p = gen_case_raw(rng, big)
        if p is not None:
            return p


def gen_case_raw(rng, big=False):
    nb = rng.randint(2, 4)
    fls = [[f"p{i}", rng.choice(["T", "F"])] for i in range(nb)]
    if rng.random() < 0.35:
        fls.append(["n0", str(rng.randint(0, 3))])
    nacts = rng.randint(1, 4)
    acts = []
    for k in range(nacts):
        if rng.random() < 0.35:
            acts.append(["i", f"a{k}", ["pre"], ["eff"] + [rand_effect(rng, fls) for _ in range(rng.randint(1, 2))]])
            continue
        r = rng.random()
        d = rng.choice(DURS)
        if r < 0.08:
            d = F(0)
        dmin = d
        if r < 0.6:
            dur = [qs(d), qs(d), "F", "F"]
        else:
            lo = d - rng.choice([0, F(1, 2), 1]) if d > 0 else d
            lo = max(lo, F(0))
            hi = d + rng.choice([0, F(1, 2), 2])
            lop, rop = rng.choice(["F", "F", "T"]), rng.choice(["F", "F", "T"])
            if lo == hi:
                lop = rop = "F"
            dur = [qs(lo), qs(hi), lop, rop]
            dmin = lo
        effs = []
        for _ in range(rng.randint(0, 3)):
            r = rng.random()
            if r < 0.35:
                t = ["S", "0"]
            elif r < 0.75:
                t = ["E", "0"]
            elif r < 0.9:
                t = ["S", qs(rng.choice([x for x in (F(0), F(1, 4), F(1, 2), F(1)) if x <= dmin]))]
            else:
                t = ["E", qs(-rng.choice([x for x in (F(0), F(1, 4), F(1, 2)) if x <= dmin]))]
            effs.append([t, rand_effect(rng, fls)])
        acts.append(["d", f"a{k}", ["dur"] + dur, ["cond"], ["eff"] + effs])
    # the plan
    n = rng.randint(1, 6 if not big else 9)
    grid = GRID if rng.random() < 0.8 else [g + F(1, 3) for g in GRID] + GRID
    plan = []
    for _ in range(n):
        a = rng.choice(acts)
        st = rng.choice(grid[: rng.choice([3, 5, len(grid)])])
        if a[0] == "i":
            plan.append([qs(st), a[1], "-"])
        else:
            lo, hi, lop, rop = sec(a[1:], "dur")
            lo, hi = q(lo), q(hi)
            cands = [x for x in {lo, hi, (lo + hi) / 2, lo + (hi - lo) / 4}
                     if (x > lo or lop == "F") and (x < hi or rop == "F") and x >= 0]
            if rng.random() < 0.05:
                cands = [hi + 1]                    # an invalid duration now and then
            plan.append([qs(st), a[1], qs(rng.choice(sorted(cands)))])
    teff = []
    for _ in range(rng.choice([0, 0, 0, 1, 1, 2])):
        teff.append([qs(rng.choice(GRID[1:])), rand_effect(rng, fls)])
    # move entries whose effects would clash with a simultaneous assignment of another instance (most of the time)
    if rng.random() < 0.9:
        for _ in range(12):
            bad = clashes(acts, teff, plan)
            if not bad:
                break
            i = rng.choice(sorted(bad))
            plan[i] = [qs(rng.choice(grid)), plan[i][1], plan[i][2]]
    if rng.random() < 0.35:
        rng.shuffle(plan)
    else:
        plan.sort(key=lambda e: q(e[0]))
    eps = "-"
    payload = ["c26", ["eps", eps], ["fl"] + fls, ["acts"] + acts, ["teff"] + teff, ["tgoal"], ["goal"],
               ["plan"] + plan]
    try:
        tp.build(payload)
    except up.exceptions.UPException:
        return None
    # conditions / goals chosen on a reference reading of the happenings
    hs = happenings(payload)
    lits = literals(payload)
    p_true = 0.93
    used = {}
    for st, name, du in plan:
        used.setdefault(name, []).append((q(st), None if du == "-" else q(du)))
    new_acts = []
    for a in acts:
        occ = used.get(a[1], [])
        if a[0] == "i":
            pre = []
            for _ in range(rng.choice([0, 1, 1, 2])):
                good = [l for l in lits if all(holds(state_before(payload, hs, st), l) for st, _ in occ)]
                l = rng.choice(good) if good and rng.random() < p_true else rng.choice(lits)
                if l not in pre:
                    pre.append(l)
            new_acts.append(["i", a[1], ["pre"] + pre, a[3]])
            continue
        conds = []
        eff_timings = [t for t, _ in sec(a[1:], "eff")]
        for _ in range(rng.choice([0, 1, 1, 2, 3])):
            r = rng.random()
            if r < 0.25:
                iv = [["S", "0"], ["S", "0"], "F", "F"]
            elif r < 0.4:
                iv = [["E", "0"], ["E", "0"], "F", "F"]
            elif r < 0.9:
                iv = [["S", "0"], ["E", "0"], rng.choice(["F", "F", "T"]), rng.choice(["F", "F", "T"])]
            else:
                dmin = q(sec(a[1:], "dur")[0])
                iv = [["S", qs(rng.choice([x for x in (F(0), F(1, 4), F(1, 2)) if x <= dmin]))], ["E", "0"], "F",
                      rng.choice(["F", "T"])]
            if iv[2] == "T" and iv[0] not in eff_timings:
                iv[2] = "F"
            if "T" in (iv[2], iv[3]):
                # an open end needs a non-empty interval for every duration the action admits
                dmin = q(sec(a[1:], "dur")[0])
                if dmin - q(iv[0][1]) <= 0:
                    iv[2] = iv[3] = "F"

            def ok(l):
                for st, du in occ:
                    lo = (st if iv[0][0] == "S" else st + du) + q(iv[0][1])
                    hi = (st if iv[1][0] == "S" else st + du) + q(iv[1][1])
                    if not holds_over(payload, hs, lo, hi, iv[2] == "T", l):
                        return False
                return True
            good = [l for l in lits if ok(l)]
            l = rng.choice(good) if good and rng.random() < p_true else rng.choice(lits)
            conds.append(iv + [l])
        new_acts.append(["d", a[1], a[2], ["cond"] + conds, a[4]])
    payload = with_sec(payload, "acts", new_acts)
    end = max([F(0)] + [h[0] for h in hs]) + 1
    final = state_before(payload, hs, end)
    goals = []
    for _ in range(rng.choice([0, 1, 2])):
        good = [l for l in lits if holds(final, l)]
        l = rng.choice(good) if good and rng.random() < 0.9 else rng.choice(lits)
        if l not in goals:
            goals.append(l)
    payload = with_sec(payload, "goal", goals)
    if rng.random() < 0.3:
        lo = rng.choice(GRID[:6])
        hi = lo + rng.choice([0, F(1, 2), 1, 2])
        good = [l for l in lits if holds_over(payload, hs, lo, hi, False, l) and holds(state_at(payload, hs, hi), l)]
        l = rng.choice(good) if good and rng.random() < 0.9 else rng.choice(lits)
        payload = with_sec(payload, "tgoal", [[qs(lo), qs(hi), "F", rng.choice(["F", "F", "T"]) if hi > lo else "F", l]])
    if rng.random() < 0.2:
        payload = [payload[0], payload[1], ["env", "F"]] + payload[2:]
    # an explicit epsilon, small w.r.t. the plan (see ASSUMPTIONS)
    if rng.random() < 0.25:
        gap = plan_gap(payload)
        if gap is not None:
            payload = with_sec(payload, "eps", [qs(gap / rng.choice([3, 4, 10, 100]))])
        else:
            payload = with_sec(payload, "eps", [qs(F(1, rng.choice([10, 1000])))])
    return payload


def plan_gap(payload):
    """smallest gap between two distinct happening/condition times of the plan (the plan's own extract_epsilon)"""
    B = tp.build(payload)
    return B.plan.extract_epsilon(B.problem)


# D-C26a: an explicit epsilon that the plan respects (happenings at 0, 1, 7/4) but that is larger than a third of the
# smallest gap, with a right-open timed goal: the goal event at 7/4 - 1/2 is only 1/4 after the action at 1
FINDING_WITNESS = ("(c26 (eps 1/2) (fl (n0 1)) (acts (i a0 (pre) (eff (n0 inc 1)))) (teff) (tgoal (1 7/4 F T (n0 ge 1))) "
                   "(goal) (plan (1 a0 -)))")


def has_open_interval(payload):
    if any("T" in (g[2], g[3]) for g in sec(payload, "tgoal")):
        return True
    return any("T" in (c[2], c[3]) for a in sec(payload, "acts") if a[0] == "d" for c in sec(a[1:], "cond"))


def known_cause(payload):
    """D-C26a: a declared problem.epsilon larger than a third of the plan's smallest gap, with an open interval"""
    eps = sec(payload, "eps")[0]
    if eps == "-" or not has_open_interval(payload):
        return None
    gap = plan_gap(payload)
    if gap is not None and q(eps) * 3 > gap:
        return "D-C26a"
    return None


def cases(rng, tier):
    n = 2000 if tier == "quick" else 25000
    for i in range(n):
        yield gen_case(rng, big=(tier != "quick" and i % 4 == 0))


def search(rng, tier):
    while True:
        yield gen_case(rng, big=rng.random() < 0.3)


# ------------------------------------------------------------------------------------------------
# evidence helpers
# ------------------------------------------------------------------------------------------------

def _get(ans, key):
    for s in ans[1:]:
        if isinstance(s, list) and s and s[0] == key:
            return s[1:]
    return None


def cross_constraints(ans):
    cons = _get(ans, "cons") or []
    n = 0
    for a, lb, ub, b in cons:
        if a == "EP" or b == "EP":
            continue
        if a == "SP" and lb == "0" and ub == "-":
            continue
        if a[0] == "s" and b[0] == "e" and a[1:] == b[1:]:
            continue
        n += 1
    return n


_valid_cache = {}


def payload_valid(payload):
    k = sexp.dumps(payload)
    if k not in _valid_cache:
        if len(_valid_cache) > 50000:
            _valid_cache.clear()
        try:
            with watchdog():
                B = tp.build(payload)
                _valid_cache[k] = is_valid(B.problem, B.plan)
        except NonTermination:
            _valid_cache[k] = False
    return _valid_cache[k]


def nontrivial(payload, ans):
    return bool(ans) and ans[0] == "ok" and payload_valid(payload) and cross_constraints(ans) > 0


def stats(payload, ans):
    if not ans or ans[0] != "ok":
        return ["answer:" + (":".join(ans[:2]) if ans else "none")]
    t = ["plan-valid" if payload_valid(payload) else "plan-invalid"]
    plan = sec(payload, "plan")
    t.append(f"entries:{min(len(plan), 6)}{'+' if len(plan) > 6 else ''}")
    seq = _get(ans, "seq") or []
    t.append("events:" + ("0-2" if len(seq) <= 2 else "3-6" if len(seq) <= 6 else "7-12" if len(seq) <= 12 else "13+"))
    if any(du != "-" for _, _, du in plan):
        t.append("has-durative")
    if any(du == "0" for _, _, du in plan):
        t.append("zero-duration")
    starts = [q(s) for s, _, _ in plan]
    if len(set(starts)) < len(starts):
        t.append("equal-starts")
    if starts != sorted(starts):
        t.append("listed-out-of-time-order")
    if len(set(n for _, n, _ in plan)) < len(plan):
        t.append("action-repeated")
    if sec(payload, "teff"):
        t.append("timed-effects")
    if sec(payload, "tgoal"):
        t.append("timed-goals")
    if sec(payload, "eps")[0] != "-":
        t.append("explicit-epsilon")
    if tp.fresh_env(payload):
        t.append("own-environment")
    # the hypotheses of C26_consistent / C26_back_keeps_order, as discharged by C26_auto_epsilon_separated (no declared
    # epsilon) or C26_separated_of_gap (declared epsilon at most a third of the smallest gap) and by
    # C26_forward_edges_respect_time (edges forward: part of the `tr` check)
    eps = sec(payload, "eps")[0]
    gap = None if eps == "-" else plan_gap(payload)
    sep = "auto-epsilon" if eps == "-" else ("declared-le-gap/3" if gap is None or 3 * q(eps) <= gap else "NOT-GUARANTEED")
    t.append("theorem-hypotheses:" + (sep if _get(ans, "tr") == ["ok"] else "EDGES-NOT-FORWARD"))
    cons = _get(ans, "cons") or []
    if any(lb == ub and a[0] == "s" and b[0] == "s" for a, lb, ub, b in cons):
        t.append("forced-simultaneous-pair")
    if any("T" in (c[2], c[3]) for a in sec(payload, "acts") if a[0] == "d" for c in sec(a[1:], "cond")):
        t.append("open-condition-interval")
    t.append("sat" if _get(ans, "sat") == ["T"] else "unsat")
    cc = cross_constraints(ans)
    t.append("cross-constraints:" + ("0" if cc == 0 else "1-2" if cc <= 2 else "3+"))
    return t


def shrink(payload):
    plan = sec(payload, "plan")
    for i in range(len(plan)):
        yield with_sec(payload, "plan", plan[:i] + plan[i + 1:])
    for key in ("teff", "tgoal", "goal"):
        items = sec(payload, key)
        for i in range(len(items)):
            yield with_sec(payload, key, items[:i] + items[i + 1:])
    used = set(n for _, n, _ in plan)
    acts = sec(payload, "acts")
    for i, a in enumerate(acts):
        if a[1] not in used:
            yield with_sec(payload, "acts", acts[:i] + acts[i + 1:])
    for i, a in enumerate(acts):
        for part in ("pre", "eff", "cond"):
            try:
                items = sec(a[1:], part)
            except KeyError:
                continue
            for j in range(len(items)):
                na = [a[0]] + with_sec(a[1:], part, items[:j] + items[j + 1:])
                yield with_sec(payload, "acts", acts[:i] + [na] + acts[i + 1:])
    if sec(payload, "eps")[0] != "-":
        yield with_sec(payload, "eps", ["-"])
    if tp.fresh_env(payload):
        yield [s for s in payload if not (isinstance(s, list) and s and s[0] == "env")]
    if plan != sorted(plan, key=lambda e: q(e[0])):
        yield with_sec(payload, "plan", sorted(plan, key=lambda e: q(e[0])))


MANIFEST = {
    "level_text": ("Lean 4 theorems (Props/C26.lean) about an executable model (Core/PlanConv.lean) of TimeTriggeredPlan.convert_to("
                   "STN_PLAN) (extract_epsilon, event extraction with epsilon-shifted open interval ends, constraint generation per "
                   "plan entry and per ordering edge, STNPlan.__init__'s insertion sequence into C25's DeltaSTN model, get_constraints) "
                   "and of STNPlan._convert_to_time_triggered, proved for every input (any number of entries, rational times, any edge "
                   "list): if the ordering edges respect time (true for forward edges, proved) and distinct happenings are epsilon apart, "
                   "the original starts/durations satisfy every generated constraint, hence (C25) the STN plan is consistent; the "
                   "back-converted plan contains every instance exactly once, started at the least model's time, not later than "
                   "originally, with exactly its original duration, the plan still starting at 0; every ordering edge is kept "
                   "(simultaneous stays simultaneous, ordered stays ordered by epsilon). Validity of the back-converted plan is derived "
                   "from the hypothesis that validity is determined by that order (C27/C05), and is otherwise checked on the real "
                   "validator. The ordering edges are an input taken from the real deordering. The model is tied to the code by a "
                   "differential check on generated temporal problems plus the property's own oracle on the real code."),
    "level_note": ("Partial: 'the back-converted plan is valid' is proved only relative to order-determined validity "
                   "(C26_back_valid_partial; full statement C26_back_valid_full) and otherwise tested with the real "
                   "TimeTriggeredPlanValidator; the separation hypothesis is needed (refuted without it: "
                   "C26_consistent_without_separation_refuted, known finding D-C26a for a large explicit problem.epsilon). Trusted: Lean "
                   "kernel; axioms propext, Classical.choice, Quot.sound; the correspondence harness; the deordering (C27) and "
                   "networkx.transitive_reduction (edge set taken from the real run, reachability re-checked per case)."),
    "technique": "Lean 4 proof over a hand-written executable model + model/code correspondence",
    "design_ref": "DESIGN.md §5 C26",
}
