"""C11 — Simplification preserves the meaning of expressions (Simplifier.walk_*)."""
import hashlib
import random
import warnings
from fractions import Fraction

warnings.simplefilter("ignore")
import unified_planning as up
from unified_planning.model import InstantaneousAction, Problem
from unified_planning.model.walkers.simplifier import Simplifier

import pyden
import sexp
import upx
from upx import Ctx, ExprGen, enc_expr, q2s

ID = "C11"
GEN = []
CORR_NAME = "simplify-output"
RULE = ("one case = (user-type hierarchy, objects, optional problem = fluents with default / static-or-dynamic flag + explicit "
        "initial values, interpreted-function tables, expression). Expressions come from the shared typed grammar (upx.ExprGen: "
        "Boolean connectives with nested same-operator nodes, duplicate and complementary literals, + - * / with constants up to "
        "10**400 and big rationals, comparisons, equalities between related/unrelated/mixed user types, quantifiers over T/S/U "
        "and the object-less type E incl. the `v == t` shape, interpreted functions) extended here with a sibling type R of S "
        "(equalities that fold to false), an S->S fluent, static "
        "fluents with constant arguments, and planted shapes: exact/inexact integer division above 2**53, `e - (-c)` with a "
        "sum on the left, Exists bodies with v == t where t mentions v / has a strict supertype / has a free variable that an "
        "inner quantifier rebinds / enables a second elimination or a constant fold, quantifiers whose variable vanishes. "
        "Non-trivial = simplify returned an expression different from its input.")
ASSUMPTIONS = ["quantified variables have user types (the property's quantifier text); binder lists have no duplicate variable",
               "expressions are well-typed and respect operator arities (ill-typed ones are rejected by the constructors: C15)",
               "a constant sub-expression that divides by the constant zero makes simplify raise ZeroDivisionError/AssertionError; "
               "such an expression has no value under any interpretation, the oracle only checks that (raising on an expression "
               "that has a value is reported)",
               "interpreted functions are finite tables supplied with the case; a missing entry raises from the user callable "
               "and is treated like division by zero",
               "initial values of static fluents are constants (anything else is C23's subject)",
               "the order of the variables of a rebuilt Exists comes out of a Python set: binder lists are compared sorted",
               "objects are identified by name (one declared type per name)",
               "node construction type-checks every rebuilt node; generated cases on which the TYPE CHECKER raises during "
               "simplify (OverflowError = D-C15c; ZeroDivisionError when a non-constant numerator of bounded type is divided by "
               "a divisor that simplified to the constant 0) are skipped: interval arithmetic is C15's model. The model keeps "
               "such a Div node; dividing two CONSTANTS by zero is modelled (zero-div)"]
MODELLED = ["modelled by hand (tied by correspondence): Simplifier.walk_* (all operators), ExpressionManager n-ary/Not "
            "normalisations, Substituter on {variable: value}, FreeVarsOracle, Problem.get_static_fluents/initial_value as tables; "
            "Python int/Fraction arithmetic as Int/Rat; OrderedDict as duplicate-free list"]
BUDGET_S = {"quick": 50, "thorough": 420}

# the shared signature plus R, a sibling of S under T (Equals between siblings is well-typed and folds to false)
TYPES = [list(t) for t in ExprGen.TYPES] + [["R", "T"]]
OBJECTS = [list(o) for o in ExprGen.OBJECTS] + [["r1", "R"]]
OBJ_TYPE = dict((n, t) for n, t in OBJECTS)
OBJ_BY_TYPE = {"T": ["t1", "t2", "s1", "s2", "r1"], "S": ["s1", "s2"], "U": ["u1"], "E": [], "R": ["r1"]}
U = lambda n: ["user", n]
INT, REAL = ExprGen.INT, ExprGen.REAL
NX = ["nx", U("S"), [U("S")]]
G, GB = ["g", INT, [INT]], ["gb", "bool", [INT]]


# ---------------------------------------------------------------------------------------------------
# generator
# ---------------------------------------------------------------------------------------------------

class Gen11(ExprGen):
    def __init__(self, rng, **kw):
        super().__init__(rng, **kw)
        self.obj_fl = self.obj_fl + [NX]

    def obj_of(self, tyname, scope):
        r = self.rng.random()
        if tyname == "S" and r < 0.2:
            inner = ExprGen.obj_of(self, "S", scope)
            if inner is not None:
                return ["fl", NX, inner]
        if tyname == "R" or (tyname == "T" and r < 0.08):
            return self.rng.choice([["o", "r1", "R"], ["p", "pq", U("R")]] if self.params else [["o", "r1", "R"]])
        return ExprGen.obj_of(self, tyname, scope)


def vS(n):
    return ["v", n, U("S")]


def vT(n):
    return ["v", n, U("T")]


def oS(n):
    return ["o", n, "S"]


def oT(n):
    return ["o", n, "T"]


BQ = ["bq", "bool", [U("T")]]
BS = ["bs", "bool", [U("S")]]
B0 = ["fl", ["b0", "bool", []]]
B1 = ["fl", ["b1", "bool", []]]
X = ["fl", ["x", INT, []]]
Y = ["fl", ["y", INT, []]]
Z = ["fl", ["z", REAL, []]]
Q2 = ["q2", "bool", [U("S"), U("S")]]


def planted(rng, g):
    """adversarial shapes around the defects listed in DESIGN §6 (D-C11a-e) and their neighbours"""
    r = rng.random()
    big = rng.choice(upx.BIG)
    small = rng.choice([1, 2, 3, 7, -3, -7, 10 ** 20 + 1, 2 ** 53 + 1])
    if r < 0.12:      # exact integer division above 2**53
        return ["div", ["i", str(big * small)], ["i", str(small)]]
    if r < 0.2:       # inexact / rational / mixed division
        a = rng.choice([["i", str(big + 1)], ["r", q2s(Fraction(big, 7))], ["i", "7"]])
        b = rng.choice([["i", str(small)], ["r", q2s(Fraction(small, 3))]])
        return [rng.choice(["le", "lt", "eq"]), ["div", a, b], ["times", X, ["div", a, b]]]
    if r < 0.3:       # e - (-c) with a sum on the left
        left = rng.choice([["plus", X, ["i", "2"]], ["plus", X, Y], ["plus", X, ["r", "1/2"]], X,
                           ["minus", X, ["i", "-2"]], ["plus", ["plus", X, Y], ["i", str(big)]]])
        c = rng.choice([["i", "-3"], ["r", "-1/2"], ["i", str(-abs(big))], ["i", "3"], ["i", "0"], ["r", "0"]])
        return ["minus", left, c]
    q1, q2 = f"q{rng.randrange(1, 4)}", f"q{rng.randrange(4, 7)}"
    body = g.boolean(1, ((q1, U("S")),))
    if r < 0.4:       # v == t where t mentions v
        return ["exists", [[q1, U("S")]], ["and", ["eq", vS(q1), ["fl", NX, vS(q1)]], body]]
    if r < 0.5:       # elimination followed by a constant fold (idempotence)
        o1, o2 = rng.choice(["s1", "s2"]), rng.choice(["s1", "s2"])
        e = ["and", ["eq", vS(q1), oS(o1)], ["not", ["eq", vS(q1), oS(o2)]]]
        if rng.random() < 0.5:
            e = ["and", ["eq", oS(o1), vS(q1)], ["or", ["fl", BS, vS(q2)], ["not", ["eq", vS(q1), oS(o2)]]]]
            return ["exists", [[q1, U("S")], [q2, U("S")]], e]
        return ["exists", [[q1, U("S")]], e]
    if r < 0.53:      # equality between sibling types (well-typed, always false)
        a, b = g.obj_of("S", ((q1, U("S")),)), g.obj_of("R", ())
        eq = ["eq", a, b] if rng.random() < 0.5 else ["eq", b, a]
        return ["exists", [[q1, U("S")]], [rng.choice(["and", "or"]), eq, body]]
    if r < 0.6:       # value of a strict supertype / subtype / sibling type
        t = rng.choice([["p", "pt", U("T")], oT("t1"), ["fl", ["at", U("T"), []]], ["p", "ps", U("S")], ["o", "r1", "R"]])
        eq = ["eq", vS(q1), t] if rng.random() < 0.5 else ["eq", t, vS(q1)]
        return [rng.choice(["exists", "exists", "forall"]), [[q1, U("S")]], ["and", eq, ["fl", BS, vS(q1)], body]]
    if r < 0.7:       # a free variable of the value is rebound inside the body (capture)
        inner = [rng.choice(["exists", "forall"]), [[q2, U("S")]], ["fl", Q2, vS(q1), vS(q2)]]
        # … possibly several levels down: under other quantifiers / connectives (the capture check must look
        # through every level, seeded change C11-2 stopped at the first quantifier)
        q3 = f"q{rng.randrange(7, 10)}"
        for _ in range(rng.randrange(0, 3)):
            w = rng.random()
            if w < 0.45:
                inner = [rng.choice(["exists", "forall"]), [[q3, U("S")]],
                         [rng.choice(["and", "or"]), ["fl", Q2, vS(q3), vS(q1)], inner]]
                q3 = q3 + "x"
            elif w < 0.6:
                inner = ["not", inner]
            else:
                inner = [rng.choice(["and", "or", "implies"]), ["fl", BS, vS(q1)], inner]
        e = ["exists", [[q1, U("S")]], ["and", ["eq", vS(q1), vS(q2)], inner]]
        return ["forall", [[q2, U("S")]], e] if rng.random() < 0.7 else e
    if r < 0.8:       # two bound variables, chains x == y, y == o
        eqs = [["eq", vS(q1), vS(q2)], ["eq", vS(q2), rng.choice([oS("s1"), ["p", "ps", U("S")], ["fl", NX, vS(q1)]])],
               ["fl", Q2, vS(q1), vS(q2)], body]
        rng.shuffle(eqs)
        return ["exists", [[q1, U("S")], [q2, U("S")]], ["and"] + eqs[:rng.randrange(2, 5)]]
    if r < 0.9:       # quantifier whose variable vanishes (also over the object-less type E)
        ty = rng.choice(["S", "T", "E", "E"])
        v = ["v", q1, U(ty)]
        e = rng.choice([["and", B0, ["eq", v, v]], ["or", B0, ["eq", v, v]], B0, ["and", B0, ["le", X, X]]])
        return [rng.choice(["exists", "forall"]), [[q1, U(ty)]], e]
    # nested elimination enabled by an outer one: Exists y:S.(y == x & phi) under x:T stays, x := t:S makes it eligible
    inner = ["exists", [[q2, U("S")]], ["and", ["eq", vS(q2), vT(q1)], ["fl", BS, vS(q2)]]]
    return ["exists", [[q1, U("T")]], ["and", ["eq", vT(q1), rng.choice([oS("s1"), ["p", "ps", U("S")]])], inner]]


def is_bool(e):
    h = e[0]
    if h in ("b", "and", "or", "not", "implies", "iff", "le", "lt", "eq", "exists", "forall"):
        return True
    if h in ("fl", "ifun"):
        return e[1][1] == "bool"
    return h == "p" and e[2] == "bool"


def rand_const(rng, ty, big=True):
    if ty == "bool":
        return ["b", rng.choice(["T", "F"])]
    if ty[0] == "int":
        lo = int(ty[1]) if ty[1] != "_" else -3
        hi = int(ty[2]) if ty[2] != "_" else 4
        if big and ty[1] == "_" and rng.random() < 0.15:
            return ["i", str(rng.choice(upx.BIG))]
        return ["i", str(rng.randint(lo, hi))]
    if ty[0] == "real":
        if ty[1] != "_":
            return ["r", q2s(Fraction(ty[1]) + (Fraction(ty[2]) - Fraction(ty[1])) * Fraction(rng.randint(0, 4), 4))]
        k = rng.random()
        if k < 0.3:
            return ["i", str(rng.randint(-2, 3))]      # set_initial_value(z, 3) stores Int(3)
        return ["r", q2s(Fraction(rng.randint(-5, 5), rng.choice([1, 2, 3])))]
    os_ = OBJ_BY_TYPE[ty[1]]
    n = rng.choice(os_)
    return ["o", n, OBJ_TYPE[n]]


def ground_instances(ref):
    from itertools import product
    doms = [[["o", n, OBJ_TYPE[n]] for n in OBJ_BY_TYPE[t[1]]] for t in ref[2]]
    for args in product(*doms):
        yield ["fl", ref] + list(args)


def make_problem(rng, expr):
    """random problem description around the fluents of expr: most fluents static with (mostly) defined initial values"""
    names = upx.free_names(expr)
    fls, init = [], []
    for ref in names["fl"]:
        static = rng.random() < 0.6
        default = rand_const(rng, ref[1]) if rng.random() < 0.5 else "_"
        fls.append([ref, default, "static" if static else "dynamic"])
        for inst in ground_instances(ref):
            if rng.random() < 0.5:
                init.append([inst, rand_const(rng, ref[1])])
    return ["problem", ["fluents"] + fls, ["init"] + init]


def make_funs(rng, expr):
    names = upx.free_names(expr)
    out = []
    for ref in names["ifun"]:
        for k in list(range(-8, 13)) + [77]:
            if rng.random() < 0.99:
                out.append([ref, [["n", str(k)]], rand_const(rng, ref[1], big=False)])
        for k in upx.BIG[:2]:
            out.append([ref, [["n", str(k)]], rand_const(rng, ref[1])])
    return ["funs"] + out


def cases(rng, tier):
    n = 800 if tier == "quick" else 30000
    for i in range(n):
        g = Gen11(rng, ifuns=(rng.random() < 0.3))
        k = rng.random()
        depth = rng.choice([2, 3, 3, 4])
        if k < 0.25:
            e = planted(rng, g)
            if rng.random() < 0.4:   # embed
                e2 = g.boolean(1)
                if not is_bool(e):
                    e = [rng.choice(["le", "lt", "eq"]), e, g.num(1)]
                e = [rng.choice(["and", "or", "implies", "iff"]), e, e2]
        elif k < 0.85:
            e = g.boolean(depth)
        else:
            e = g.num(depth)
        if g.ifuns and rng.random() < 0.5:   # interpreted functions on constant arguments
            c = rng.choice([["i", str(rng.randint(-8, 12))], ["plus", ["i", "2"], ["i", "3"]], ["i", str(upx.BIG[0])],
                            ["i", "77"]])
            if is_bool(e):
                e = ["and", e, ["or", ["ifun", GB, c], ["le", ["ifun", G, c], X]]]
        prob = make_problem(rng, e) if rng.random() < 0.45 else "none"
        payload = ["simp", ["types"] + [[n_, f if f else "_"] for n_, f in TYPES], ["objects"] + OBJECTS, prob,
                   make_funs(rng, e), e]
        if usable(payload):
            yield payload


def usable(payload):
    """the constructors accept the expression (the grammar occasionally relates unrelated user types) and the TYPE
    CHECKER does not raise while the simplifier rebuilds nodes (OverflowError: float('inf') bounds against integers
    beyond the float range, D-C15c; ZeroDivisionError: `e / c` whose divisor simplified to the constant 0 under a
    bounded numerator — whether such a node can be built is decided by the type checker's interval arithmetic, C15)"""
    try:
        ctx, problem, expr = build(payload)
    except Exception:   # noqa  (UPTypeError; OverflowError / ZeroDivisionError out of the type checker)
        return False
    k, r = run_simplify(ctx, problem, expr)
    if k == "err" and r.startswith("typecheck:"):
        return False
    return True


# ---------------------------------------------------------------------------------------------------
# real code
# ---------------------------------------------------------------------------------------------------

def build(payload):
    """fresh environment, objects, problem (or None), interpreted-function tables, the real FNode"""
    _, types, objects, prob, funs, e = payload
    ctx = Ctx([(t[0], None if t[1] == "_" else t[1]) for t in types[1:]])
    for n, t in objects[1:]:
        ctx.obj(n, t)
    for ref, args, res in funs[1:]:
        ctx.fun(ref)
        key = tuple(Fraction(a[1]) if a[0] == "n" else (a[1] == "T") if a[0] == "b" else a[1] for a in args)
        ctx.fun_tables[ref[0]][key] = const_py(ctx, res)
    expr = ctx.expr(e)
    problem = None
    if prob != "none":
        problem = Problem("p", ctx.env)
        for n, t in objects[1:]:
            problem.add_object(ctx.obj(n, t))
        for ref, default, flag in prob[1][1:]:
            f = ctx.fluent(ref)
            if default == "_":
                problem.add_fluent(f)
            else:
                problem.add_fluent(f, default_initial_value=ctx.expr(default))
            if flag == "dynamic":
                a = InstantaneousAction("set_" + ref[0] + str(len(problem.actions)), _env=ctx.env,
                                        **{f"a{i}": ctx.ty(t) for i, t in enumerate(ref[2])}, **{"w": ctx.ty(ref[1])})
                a.add_effect(f(*[a.parameter(f"a{i}") for i in range(len(ref[2]))]), a.parameter("w"))
                problem.add_action(a)
        for fe, v in prob[2][1:]:
            problem.set_initial_value(ctx.expr(fe), ctx.expr(v))
    return ctx, problem, expr


def const_py(ctx, c):
    if c[0] == "b":
        return c[1] == "T"
    if c[0] == "i":
        return int(c[1])
    if c[0] == "r":
        return Fraction(c[1])
    return ctx.obj(c[1], c[2])


def _from_type_checker(ex):
    import traceback
    return any(fr.filename.endswith("type_checker.py") for fr in traceback.extract_tb(ex.__traceback__))


def run_simplify(ctx, problem, expr):
    """-> ("ok", FNode) | ("err", tag).  Exceptions raised by the TYPE CHECKER while the simplifier rebuilds a node
    (ExpressionManager.create_node type-checks every node: OverflowError = D-C15c, ZeroDivisionError for a divisor whose
    type is the singleton 0 under a bounded numerator) are tagged `typecheck:` — interval arithmetic is C15's model."""
    try:
        return "ok", Simplifier(ctx.env, problem).simplify(expr)
    except (ZeroDivisionError, OverflowError, AssertionError, KeyError) as ex:
        if _from_type_checker(ex):
            return "err", "typecheck:" + type(ex).__name__
        if isinstance(ex, (ZeroDivisionError, AssertionError)):
            return "err", "zero-div" if isinstance(ex, ZeroDivisionError) or "walk_div" in _frames(ex) else "assertion"
        if isinstance(ex, KeyError) and "interpreted function" in str(ex):
            return "err", "ifun-undefined"
        return "err", "other:" + type(ex).__name__
    except Exception as ex:   # noqa
        return "err", "other:" + type(ex).__name__


def _frames(ex):
    import traceback
    return [fr.name for fr in traceback.extract_tb(ex.__traceback__)]


def impl(payload):
    ctx, problem, expr = build(payload)
    k, r = run_simplify(ctx, problem, expr)
    if k == "err":
        return ["err", r]
    return ["ok", enc_expr(r)]


def canon(s):
    """sort binder lists (their order comes out of a Python set in walk_exists)"""
    if isinstance(s, list):
        if s and s[0] in ("exists", "forall") and len(s) == 3:
            return [s[0], sorted([canon(v) for v in s[1]], key=sexp.dumps), canon(s[2])]
        return [canon(x) for x in s]
    return s


def compare(model_ans, impl_ans):
    return canon(model_ans) == canon(impl_ans)


def nontrivial(payload, ans):
    return ans[0] == "ok" and canon(ans[1]) != canon(payload[5])


def _heads(s, acc):
    if isinstance(s, list) and s and isinstance(s[0], str):
        acc.add(s[0])
        for x in s[1:]:
            _heads(x, acc)
    elif isinstance(s, list):
        for x in s:
            _heads(x, acc)


def _maxabs(s):
    m = 0
    if isinstance(s, list):
        if s and s[0] in ("i", "r") and len(s) == 2 and isinstance(s[1], str):
            q = Fraction(s[1])
            return max(abs(q.numerator), abs(q.denominator))
        for x in s:
            m = max(m, _maxabs(x))
    return m


def stats(payload, ans):
    t = []
    e = payload[5]
    if ans[0] == "err":
        return ["err:" + ans[1]]
    hs = set()
    _heads(e, hs)
    t.append("changed" if canon(ans[1]) != canon(e) else "unchanged")
    if ans[1][0] in ("b", "i", "r", "o"):
        t.append("to-constant")
    for h in ("exists", "forall", "div", "ifun", "minus", "times", "plus", "eq", "iff", "implies"):
        if h in hs:
            t.append("has:" + h)
    if payload[3] != "none":
        t.append("with-problem")
    m = _maxabs(e)
    if m > 2 ** 53:
        t.append("const>2^53")
    if m > 10 ** 100:
        t.append("const>10^100")
    n_in = sexp.dumps(e).count("(exists")
    n_out = sexp.dumps(ans[1]).count("(exists")
    if n_out < n_in:
        t.append("exists-removed")
    return t


# ---------------------------------------------------------------------------------------------------
# the property itself, on the real code
# ---------------------------------------------------------------------------------------------------

def fvars(s, bound=frozenset()):
    """free variables of an s-expression (own implementation, not the library's oracle)"""
    out = set()
    if isinstance(s, list) and s:
        h = s[0]
        if h == "v":
            k = (s[1], sexp.dumps(s[2]))
            return set() if k in bound else {k}
        if h in ("exists", "forall"):
            b2 = bound | frozenset((n, sexp.dumps(t)) for n, t in s[1])
            return fvars(s[2], b2)
        if h in ("b", "i", "r", "o", "p", "timing", "present"):
            return out
        start = 2 if h in ("fl", "ifun", "dot") else 1
        for x in s[start:]:
            out |= fvars(x, bound)
    return out


def quantified_types(s, acc=None):
    acc = set() if acc is None else acc
    if isinstance(s, list) and s:
        if s[0] in ("exists", "forall") and len(s) == 3:
            for n, t in s[1]:
                acc.add(sexp.dumps(t))
            quantified_types(s[2], acc)
        else:
            for x in s[1:]:
                quantified_types(x, acc)
    return acc


def interps(payload, k):
    """k random total interpretations agreeing with the problem's static fluents and the function tables"""
    _, types, objects, prob, funs, e = payload
    seed = int(hashlib.sha1(sexp.dumps(payload).encode()).hexdigest()[:12], 16)
    rng = random.Random(seed)
    names = upx.free_names(e)
    fathers = {t[0]: (None if t[1] == "_" else t[1]) for t in types[1:]}
    by_type = {t: [] for t in fathers}
    for n, t in objects[1:]:
        u = t
        while u is not None:
            by_type[u].append(n)
            u = fathers[u]
    fvs = sorted(fvars(e))
    for _ in range(k):
        I = pyden.random_interp(rng, names, by_type)
        I["fn"] = {}
        for ref, args, res in funs[1:]:
            I["fn"][(pyden.key(ref), tuple(pyden.val_of_sexp(a) for a in args))] = pyden.den(res, I)
        if prob != "none":
            static = {pyden.key(f[0]): f[1] for f in prob[1][1:] if f[2] == "static"}
            explicit = {sexp.dumps(fe): v for fe, v in prob[2][1:]}
            for ref in names["fl"]:
                if pyden.key(ref) not in static:
                    continue
                for inst in ground_instances(ref):
                    v = explicit.get(sexp.dumps(inst), static[pyden.key(ref)])
                    if v != "_":
                        I["fl"][(pyden.key(ref), tuple(pyden.den(a, I) for a in inst[2:]))] = pyden.den(v, I)
        rho = {}
        for n, t in fvs:
            ty = sexp.loads(t)
            dom = I["dom"].get(t, [])
            if dom:
                rho[(n, t)] = rng.choice(dom)
        yield I, rho


def oracle(payload):
    ctx, problem, expr = build(payload)
    e = payload[5]
    k, r = run_simplify(ctx, problem, expr)
    if k == "err":
        if r in ("zero-div", "ifun-undefined", "typecheck:ZeroDivisionError"):
            for I, rho in interps(payload, 4):
                if pyden.den(e, I, rho) is not None:
                    return f"simplify raised {r} on an expression that has a value"
            return None
        return f"simplify raised {r}"
    out = enc_expr(r)
    # 1. same value under every sampled interpretation
    for I, rho in interps(payload, 6):
        v = pyden.den(e, I, rho)
        if v is None:
            continue
        w = pyden.den(out, I, rho)
        if w != v:
            return f"value changed: {pyden.val_sexp(v)} -> {pyden.val_sexp(w)}"
    # 2. no new free variable
    extra = fvars(out) - fvars(e)
    if extra:
        return f"new free variable {sorted(extra)}"
    # 3. simplifying the simplified expression changes nothing
    k2, r2 = run_simplify(ctx, problem, r)
    if k2 == "err":
        return f"simplify of the simplified expression raised {r2}"
    if canon(enc_expr(r2)) != canon(out):
        return "not idempotent: " + sexp.dumps(enc_expr(r2))[:300]
    return None


def known_cause(payload):
    """D-C11e: some quantifier ranges over a type without objects"""
    _, types, objects, prob, funs, e = payload
    fathers = {t[0]: (None if t[1] == "_" else t[1]) for t in types[1:]}
    inhabited = set()
    for n, t in objects[1:]:
        u = t
        while u is not None:
            inhabited.add(u)
            u = fathers.get(u)
    for t in quantified_types(e):
        ty = sexp.loads(t)
        if ty[0] == "user" and ty[1] not in inhabited:
            return "D-C11e"
    return None


def shrink(payload):
    head, types, objects, prob, funs, e = payload

    def subs(s):
        """smaller expressions: replace a node by one of its same-sorted children / drop an n-ary argument"""
        if not isinstance(s, list) or not s or s[0] in ("b", "i", "r", "o", "p", "v"):
            return
        h = s[0]
        start = 2 if h in ("fl", "ifun", "exists", "forall", "dot") else 1
        if h in ("and", "or", "plus", "times", "not", "implies", "iff", "minus", "div", "exists", "forall"):
            for x in s[start:]:
                yield x
        if h in ("and", "or", "plus", "times") and len(s) > 3:
            for i in range(1, len(s)):
                yield s[:i] + s[i + 1:]
        for i in range(start, len(s)):
            for y in subs(s[i]):
                yield s[:i] + [y] + s[i + 1:]
    if prob != "none":
        yield [head, types, objects, "none", funs, e]
        if len(prob[2]) > 1:
            yield [head, types, objects, [prob[0], prob[1], ["init"]], funs, e]
    if len(funs) > 1:
        yield [head, types, objects, prob, ["funs"], e]
    for y in subs(e):
        yield [head, types, objects, prob, funs, y]


MANIFEST = {
    "level_text": ("Lean 4 theorems (Props/C11.lean) about an executable model of the repaired Simplifier.walk_* "
                   "(Core/Walkers/Simplify.lean; one function per walk_* method, fuel-indexed because walk_exists re-simplifies), "
                   "stated against the shared reference denotation `den` over unbounded Int/Rat, for ALL expressions, tables and "
                   "interpretations: C11_sound_partial (every defined value of a well-formed expression is preserved, for "
                   "interpretations within the declared types that fix static fluents to their initial values, quantifiers over "
                   "non-empty domains), C11_sound_full_refuted (kernel-checked witness that the non-empty-domain hypothesis cannot "
                   "be dropped: known finding D-C11e), C11_no_new_free_vars, C11_idempotent, C11_fuel_independent. The model is tied "
                   "to the real code by a differential check on the produced expression (binder lists sorted), and the property "
                   "itself (value under sampled exact interpretations, free variables, idempotence) is evaluated on the real code "
                   "for every case."),
    "level_note": ("Trusted: Lean kernel; axioms propext, Classical.choice, Quot.sound; Driver.lean + harness (generator, "
                   "canonicalisation, pyden). Modelled not verified: CPython int/Fraction, dict/set, user callables of interpreted "
                   "functions (tables), the type check of rebuilt nodes (C15). The code violates the property on the unchanged tree "
                   "(D-C11a-d,f,h): repaired by notes/patches/C11-simplifier-soundness.patch, which the model mirrors. Known finding "
                   "D-C11e: quantifiers over object-less types are dropped; the theorems assume non-empty quantified domains."),
    "technique": "Lean 4 proof over an executable model + model/code correspondence",
    "design_ref": "DESIGN.md §5 C11",
}
