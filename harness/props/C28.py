"""C28 — Timed-to-sequential plans convert back to valid temporal plans.

Payload (grammar shared with lean/UPVerif/Core/T2S.lean):

  (t2s (eps _|q) (objects (name type)*) (fluents ref*) (init (fluent-exp const)*)
       (actions A*) (goals e*) (plan (name value*)*))
  A ::= (inst name ((p type)*) (pre e*) (effs E*))
      | (dur  name ((p type)*) (ival lo hi T|F T|F) (conds (K e)*) (effs (start|end E)*))
  K ::= start | end | cc | co | oc | oo      at start, at end, [start,end], [start,end), (start,end], (start,end)
  E ::= (eff assign|increase|decrease fluent-exp value cond ())       (Core/Problem.lean's effect format)
  expressions / types / values: Core/ExprSexp.lean

The plan is a sequence of ground instances of the COMPILED problem (same action names and parameters).
"""
import itertools
import warnings
from collections import OrderedDict
from fractions import Fraction as F

warnings.simplefilter("ignore")
import unified_planning as up
from unified_planning.engines import CompilationKind
from unified_planning.engines.compilers.timed_to_sequential import TimedToSequential
from unified_planning.engines.plan_validator import TimeTriggeredPlanValidator
from unified_planning.engines.results import ValidationResultStatus
from unified_planning.engines.sequential_simulator import UPSequentialSimulator
from unified_planning.model import DurativeAction, EndTiming, InstantaneousAction, Problem, StartTiming
from unified_planning.model.walkers.state_evaluator import StateEvaluator
from unified_planning.model.timing import (ClosedTimeInterval, DurationInterval, LeftOpenTimeInterval,
                                           OpenTimeInterval, RightOpenTimeInterval, TimePointInterval)
from unified_planning.plans import ActionInstance, SequentialPlan

import pyden
import sexp
import upx
from upx import Ctx, q2s

ID = "C28"
GEN = []
CORR_NAME = "compiled-trajectory+back-converted-(start,duration)+tt-verdict"
RULE = ("durative problems over 13 fluents (Boolean, int, real, object-valued, unary) and 2 objects with 1-3 actions: durative "
        "ones with 0-3 conditions at start / at end / over [s,e] [s,e) (s,e] (s,e), 0-2 start and 1-3 end effects (assign / increase / "
        "decrease, start and end effects often on the same fluent), duration intervals closed / fixed / left-open / right-open / open "
        "with constant (incl. ]0,c], 1/1000-wide, fractional), parameter-dependent (int parameter k, object parameter p) and "
        "fluent-dependent bounds (fluents that the plan itself rewrites), plus some instantaneous actions; epsilon unset or "
        "1/1000..5; the plan is a walk of 0-5 ground instances of the COMPILED problem, 85% of the steps picked among those a "
        "reference reading of the compilation deems applicable, the rest at random. The real code answers with the applicable "
        "prefix. Non-trivial = at least one converted durative step whose interval is left-open or has state-dependent bounds, "
        "in a plan that reaches the goals.")
ASSUMPTIONS = [
    "duration intervals are non-empty and admit only positive durations in every state in which the action is started (the "
    "library itself rejects constant empty intervals at definition time); a state-dependent interval that is empty where the "
    "compiled action is applicable has no valid duration at all (C28_valid_back_full_refuted; reported as a finding, kept out of "
    "the generated stream)",
    "epsilon > 0 (the setter's error message demands a positive value although it accepts 0) and continuous time "
    "(TimeTriggeredPlanValidator does not support DISCRETE_TIME problems)",
    "inside one action all applications of a unary fluent use one argument term: the compilation substitutes start effects "
    "syntactically, so bq(p) := v is not seen by a condition on bq(o1) when p = o1 (reported as a finding)",
    "at most one increase/decrease per fluent at end: _compile turns every end increase into an assignment f := f + v, two of "
    "them conflict or collapse into one (reported as a finding)",
    "supported kind only: unconditional, non-quantified effects; conditions and effects at start/end only; no timed effects/goals, "
    "no state invariants, unbounded numeric fluent types; divisors are non-zero constants",
    "plans 'valid for the compiled problem' = every step applicable and the goals true at the end according to the real "
    "UPSequentialSimulator; the oracle explores all such plans up to length 3 (and the payload's own plan) with a per-case cap",
]
MODELLED = [
    "modelled by hand (tied by correspondence): plan_back_conversion_callable (duration choice, epsilon spacing, state threading), "
    "the MEANING of the instantaneous action _compile builds (DAct.collapse: applicability and successor state), the temporal "
    "semantics ttValid (verdict compared with TimeTriggeredPlanValidator on every case)",
    "modelled not verified: the substitution + simplification pipeline of _compile (only its meaning is compared), Simplifier on "
    "ground duration bounds (model = exact value), UPSequentialSimulator, StateEvaluator, heapq ordering of simultaneous "
    "happenings (never simultaneous in converted plans), Fraction",
]
BUDGET_S = {"quick": 60, "thorough": 420}


# ------------------------------------------------------------------------------------------------
# payload access / real objects
# ------------------------------------------------------------------------------------------------

def sec(p, key):
    for s in p[1:]:
        if isinstance(s, list) and s and s[0] == key:
            return s[1:]
    raise KeyError(key)


def with_sec(p, key, items):
    return [p[0]] + [([key] + list(items)) if (isinstance(s, list) and s and s[0] == key) else s for s in p[1:]]


INTERVALS = {
    "start": lambda: TimePointInterval(StartTiming()),
    "end": lambda: TimePointInterval(EndTiming()),
    "cc": lambda: ClosedTimeInterval(StartTiming(), EndTiming()),
    "co": lambda: RightOpenTimeInterval(StartTiming(), EndTiming()),
    "oc": lambda: LeftOpenTimeInterval(StartTiming(), EndTiming()),
    "oo": lambda: OpenTimeInterval(StartTiming(), EndTiming()),
}


class Built:
    pass


def build(p):
    """payload -> real Problem (fresh environment) + lookup tables"""
    objs = sec(p, "objects")
    tnames = []
    for _, t in objs:
        if t not in tnames:
            tnames.append(t)
    # NOTE TimedToSequential._compile builds its InstantaneousActions in the GLOBAL environment (it does not pass
    # problem.environment), so a problem living in a fresh Environment cannot be compiled at all; cases are
    # therefore built in the global environment (names may repeat: error_used_name is off in Ctx).
    ctx = Ctx([(t, None) for t in tnames], env=up.environment.get_environment())
    P = Problem("c28", ctx.env)
    eps = sec(p, "eps")[0]
    if eps != "_":
        P.epsilon = F(eps)
    for n, t in objs:
        P.add_object(ctx.obj(n, t))
    for ref in sec(p, "fluents"):
        P.add_fluent(ctx.fluent(ref))
    for f, v in sec(p, "init"):
        P.set_initial_value(ctx.expr(f), ctx.expr(v))
    for a in sec(p, "actions"):
        params = OrderedDict((pn, ctx.ty(pt)) for pn, pt in a[2])
        if a[0] == "inst":
            act = InstantaneousAction(a[1], params, ctx.env)
            for c in a[3][1:]:
                act.add_precondition(ctx.expr(c))
            for e in a[4][1:]:
                _, kind, f, v, c, _vs = e
                fn = {"assign": act.add_effect, "increase": act.add_increase_effect, "decrease": act.add_decrease_effect}[kind]
                fn(ctx.expr(f), ctx.expr(v), ctx.expr(c))
        else:
            act = DurativeAction(a[1], params, ctx.env)
            _, lo, hi, lopen, ropen = a[3]
            act.set_duration_constraint(DurationInterval(ctx.expr(lo), ctx.expr(hi), lopen == "T", ropen == "T"))
            for k, c in a[4][1:]:
                act.add_condition(INTERVALS[k](), ctx.expr(c))
            for when, e in a[5][1:]:
                _, kind, f, v, c, _vs = e
                t = StartTiming() if when == "start" else EndTiming()
                fn = {"assign": act.add_effect, "increase": act.add_increase_effect, "decrease": act.add_decrease_effect}[kind]
                fn(t, ctx.expr(f), ctx.expr(v), ctx.expr(c))
        P.add_action(act)
    for g in sec(p, "goals"):
        P.add_goal(ctx.expr(g))
    b = Built()
    b.P, b.ctx = P, ctx
    return b


def compile_(b):
    res = TimedToSequential().compile(b.P, CompilationKind.TIMED_TO_SEQUENTIAL)
    b.res, b.C = res, res.problem
    b.sim = UPSequentialSimulator(b.C, error_on_failed_checks=False)
    cfl = set(b.C.fluents)
    b.kept = lambda fe: fe.fluent() in cfl
    return b


def instance(b, step):
    act = b.C.action(step[0])
    return ActionInstance(act, tuple(b.ctx.val(v) for v in step[1:]))


def state_vals(b, p, state):
    """values of every ground fluent of the ORIGINAL problem (payload init order); a fluent pruned from the
    compiled problem is never written, so it keeps its initial value"""
    out = []
    for f, v in sec(p, "init"):
        fe = b.ctx.expr(f)
        c = state.get_value(fe) if b.kept(fe) else b.ctx.expr(v)
        out.append(upx.enc_val(c))
    return out


def back(b, insts):
    ttp = b.res.plan_back_conversion(SequentialPlan(list(insts), b.ctx.env))
    return ttp


def tt_status(b, ttp):
    """verdict of the real TimeTriggeredPlanValidator on the ORIGINAL problem.  The first call per case goes through
    the public `validate` (which checks that the validator supports the problem's kind); later calls on the same
    problem skip that (expensive, plan-independent) kind computation."""
    v = getattr(b, "validator", None)
    if v is None:
        v = b.validator = TimeTriggeredPlanValidator(environment=b.ctx.env)
        return v.validate(b.P, ttp)
    v.skip_checks = True
    return v.validate(b.P, ttp)


B = lambda x: "T" if x else "F"


def impl(payload):
    try:
        b = compile_(build(payload))
    except Exception as e:
        return ["error", "compile", type(e).__name__]
    try:
        state = b.sim.get_initial_state()
        insts, states, stop = [], [], "_"
        for k, step in enumerate(sec(payload, "plan")):
            ai = instance(b, step)
            nxt = b.sim.apply(state, ai)
            if nxt is None:
                stop = str(k)
                break
            insts.append(ai)
            state = nxt
            states.append(state_vals(b, payload, state))
        goal = b.sim.is_goal(state)
        ttp = back(b, insts)
        tas = ttp.timed_actions
        assert len(tas) == len(insts)
        steps = [["step", q2s(s), "_" if d is None else q2s(d), vals] for (s, _, d), vals in zip(tas, states)]
        tt = tt_status(b, ttp).status == ValidationResultStatus.VALID
        return [["steps"] + steps, ["stop", stop], ["goal", B(goal)], ["tt", B(tt)]]
    except Exception as e:
        return ["error", "run", type(e).__name__]


# ------------------------------------------------------------------------------------------------
# the property itself on the real code
# ------------------------------------------------------------------------------------------------

def ground_steps(p):
    """all ground instances (as plan steps) of the actions: user-typed parameters range over the objects of that
    type, bounded integer parameters over their range"""
    objs = sec(p, "objects")
    out = []
    for a in sec(p, "actions"):
        doms = []
        for _, pt in a[2]:
            if pt[0] == "user":
                doms.append([["o", n] for n, t in objs if t == pt[1]])
            elif pt[0] == "int" and pt[1] != "_" and pt[2] != "_":
                doms.append([["n", str(i)] for i in range(int(pt[1]), int(pt[2]) + 1)])
            elif pt == "bool":
                doms.append([["b", "T"], ["b", "F"]])
            else:
                doms.append([])
        for combo in itertools.product(*doms):
            out.append([a[1]] + list(combo))
    return out


ORACLE_DEPTH = 3
ORACLE_MAX_NODES = 120     # states of the compiled problem expanded per case
ORACLE_MAX_PLANS = 14      # valid plans converted back and validated per case


def check_plan(b, insts):
    """clause check for ONE valid plan of the compiled problem; None or the failing clause"""
    ttp = back(b, insts)
    r = tt_status(b, ttp)
    tas = ttp.timed_actions
    if len(tas) != len(insts):
        return "back conversion changed the number of actions"
    se = StateEvaluator(b.P)
    for (start, ai, d), ci in zip(tas, insts):
        if ai.action.name != ci.action.name or tuple(ai.actual_parameters) != tuple(ci.actual_parameters):
            return "back conversion changed an action instance"
        if isinstance(ai.action, DurativeAction):
            if d is None:
                return "durative action without duration"
            # state in which the action starts, taken from the validator's own trace (VALID or not, the trace
            # holds every state up to the failure point)
            tr = r.trace
            if tr is None:
                continue
            before = [t for t in tr if t < start]
            if not before:
                continue
            st = tr[max(before)]
            sub = dict(zip(ai.action.parameters, ai.actual_parameters))
            iv = ai.action.duration
            try:
                lo = F(se.evaluate(iv.lower.substitute(sub), st).constant_value())
                hi = F(se.evaluate(iv.upper.substitute(sub), st).constant_value())
            except Exception:
                continue
            ok = (lo < d if iv.is_left_open() else lo <= d) and (d < hi if iv.is_right_open() else d <= hi)
            if not ok:
                return (f"chosen duration {d} of {ai.action.name} is outside its duration interval "
                        f"{'(' if iv.is_left_open() else '['}{lo}, {hi}{')' if iv.is_right_open() else ']'}")
    if r.status != ValidationResultStatus.VALID:
        return f"back-converted plan is rejected by TimeTriggeredPlanValidator ({r.reason})"
    return None


def oracle(payload):
    """Every plan of the compiled problem (real sequential simulator: each step applicable, goals reached) up to the
    length bound, converted back by the real callable, must be accepted by the real TimeTriggeredPlanValidator for the
    ORIGINAL problem, with every duration inside its action's interval.  Per case: the payload's own plan (its
    applicable prefix) if valid, then the valid plans found by a bounded depth-first exploration, longest first."""
    try:
        b = compile_(build(payload))
    except Exception:
        return None       # outside the compiler's domain: C08's business, not a plan to convert back
    steps = ground_steps(payload)
    cache = {}

    def inst(step):
        k = sexp.dumps(step)
        if k not in cache:
            cache[k] = instance(b, step)
        return cache[k]

    nodes = [0]
    found = []          # (is_own_plan, -length, order, insts)

    def visit(state, insts, forced, own, depth):
        nodes[0] += 1
        if b.sim.is_goal(state):
            found.append((0 if (own and not forced) else 1, -len(insts), len(found), insts))
        if depth == 0 or nodes[0] >= ORACLE_MAX_NODES:
            return
        order = list(steps)
        if forced:
            order = [forced[0]] + [s for s in steps if s != forced[0]]
        for s in order:
            if nodes[0] >= ORACLE_MAX_NODES:
                return
            try:
                ai = inst(s)
                nxt = b.sim.apply(state, ai)
            except Exception:
                continue
            if nxt is None:
                continue
            on_own = own and bool(forced) and s == forced[0]
            visit(nxt, insts + [ai], forced[1:] if on_own else [], on_own, depth - 1)

    plan = sec(payload, "plan")
    visit(b.sim.get_initial_state(), [], plan, True, max(ORACLE_DEPTH, len(plan)))
    for _, _, _, insts in sorted(found, key=lambda x: x[:3])[:ORACLE_MAX_PLANS]:
        v = check_plan(b, insts)
        if v:
            return v + " [plan: " + " ".join(str(i) for i in insts) + "]"
    return None


# ------------------------------------------------------------------------------------------------
# generator guide: the intended meaning of a compiled action, evaluated on payloads with the harness's reference
# evaluator (pyden).  Used ONLY to steer generation towards applicable plans / non-empty intervals and by
# known_cause(); never by impl() or oracle().
# ------------------------------------------------------------------------------------------------

def g_init(p):
    st = {}
    for f, v in sec(p, "init"):
        args = tuple(pyden.den(a, {"fl": {}, "fn": {}, "par": {}, "dom": {}}) for a in f[2:])
        st[(pyden.key(f[1]), args)] = pyden.den(v, None)
    return st


def g_interp(p, st, action, step):
    doms = {}
    for n, t in sec(p, "objects"):
        doms.setdefault(pyden.key(["user", t]), []).append(("o", n))
    par = {pn: pyden.val_of_sexp(v) for (pn, _), v in zip(action[2], step[1:])}
    return {"fl": st, "fn": {}, "par": par, "dom": doms}


def g_effs(I, st, effs):
    out = dict(st)
    for e in effs:
        _, kind, f, v, _c, _vs = e
        args = tuple(pyden.den(a, I) for a in f[2:])
        val = pyden.den(v, I)
        k = (pyden.key(f[1]), args)
        if val is None or k not in out:
            return None
        if kind == "assign":
            out[k] = val
        else:
            out[k] = ("n", out[k][1] + val[1] if kind == "increase" else out[k][1] - val[1])
    return out


def g_holds(I, cs):
    return all(pyden.den(c, I) == ("b", True) for c in cs)


def g_ival(p, st, action, step):
    I = g_interp(p, st, action, step)
    _, lo, hi, lopen, ropen = action[3]
    l, h = pyden.den(lo, I), pyden.den(hi, I)
    if l is None or h is None:
        return None
    return l[1], h[1], lopen == "T", ropen == "T"


def g_ival_ok(iv):
    """non-empty, and every admissible duration positive"""
    if iv is None:
        return False
    lo, hi, lopen, ropen = iv
    nonempty = lo < hi or (lo == hi and not lopen and not ropen)
    return nonempty and (lo > 0 or (lo == 0 and lopen))


def g_step(p, st, step):
    """successor under the intended meaning of the compiled action, or None"""
    action = [a for a in sec(p, "actions") if a[1] == step[0]][0]
    I = g_interp(p, st, action, step)
    if action[0] == "inst":
        if not g_holds(I, action[3][1:]):
            return None
        return g_effs(I, st, action[4][1:])
    conds = action[4][1:]
    if not g_holds(I, [c for k, c in conds if k in ("start", "cc", "co")]):
        return None
    mid = g_effs(I, st, [e for w, e in action[5][1:] if w == "start"])
    if mid is None:
        return None
    I2 = dict(I, fl=mid)
    if not g_holds(I2, [c for k, c in conds if k in ("end", "cc", "co", "oc", "oo")]):
        return None
    return g_effs(I2, mid, [e for w, e in action[5][1:] if w == "end"])


def bad_interval_reachable(p, depth=3, cap=400):
    """does some ground durative action have an empty / non-positive duration interval in a state reachable
    (intended semantics) within `depth` steps?"""
    steps = ground_steps(p)
    acts = {a[1]: a for a in sec(p, "actions")}
    seen, frontier = 0, [g_init(p)]
    for d in range(depth + 1):
        nxt = []
        for st in frontier:
            for s in steps:
                a = acts[s[0]]
                if a[0] == "dur" and not g_ival_ok(g_ival(p, st, a, s)):
                    return True
                if d < depth:
                    n = g_step(p, st, s)
                    if n is not None:
                        nxt.append(n)
                        seen += 1
                        if seen > cap:
                            return False
        frontier = nxt
    return False


# ------------------------------------------------------------------------------------------------
# generator
# ------------------------------------------------------------------------------------------------

INT, REAL = ["int", "_", "_"], ["real", "_", "_"]
UT = ["user", "T"]
FL = {
    "b0": ["b0", "bool", []], "b1": ["b1", "bool", []], "b2": ["b2", "bool", []], "bq": ["bq", "bool", [UT]],
    "x": ["x", INT, []], "y": ["y", INT, []], "z": ["z", REAL, []],
    "at": ["at", UT, []],
    # fluents reserved for duration bounds: initial values > 0, only ever increased / assigned positive constants
    "w": ["w", INT, []], "wr": ["wr", REAL, []], "dq": ["dq", INT, [UT]],
    # unary fluents read under quantifiers: br is written by instantaneous actions only, dr by nobody (a start effect on
    # bq(o1) is not substituted into `forall q. bq(q)`: the aliasing finding)
    "br": ["br", "bool", [UT]], "dr": ["dr", INT, [UT]],
}
OBJS = [["o1", "T"], ["o2", "T"]]
KPAR = ["k", ["int", "1", "3"]]
PPAR = ["p", UT]
ic = lambda n: ["i", str(n)]


def qc(q):
    q = F(q)
    return ic(q.numerator) if q.denominator == 1 else ["r", q2s(q)]


class Gen:
    def __init__(self, rng):
        self.r = rng

    # terms -------------------------------------------------------------------------------------
    def tterm(self, A):
        """the ONE term of type T used by every unary fluent application of this action (no aliasing between
        syntactically different applications inside an action)"""
        return A["t"]

    def fl(self, name, A):
        ref = FL[name]
        return ["fl", ref] + ([self.tterm(A)] if ref[2] else [])

    def num(self, A, real_ok=False, depth=1):
        r = self.r
        k = r.random()
        if depth <= 0 or k < 0.45:
            opts = [ic(r.choice([0, 1, 1, 2, 3, 5])), self.fl("x", A), self.fl("y", A), self.fl("w", A), self.fl("dq", A)]
            if A["k"]:
                opts.append(["p"] + KPAR)
            if real_ok:
                opts += [qc(F(r.choice([1, 3, 5]), 2)), self.fl("z", A), self.fl("wr", A)]
            return r.choice(opts)
        op = r.choice(["plus", "plus", "minus", "times"])
        if op == "times":
            return ["times", ic(r.choice([2, 3, -1])), self.num(A, real_ok, depth - 1)]
        return [op, self.num(A, real_ok, depth - 1), self.num(A, real_ok, depth - 1)]

    def atom(self, A):
        r = self.r
        k = r.random()
        if k < 0.45:
            return self.fl(r.choice(["b0", "b1", "b2", "bq"]), A)
        if k < 0.85:
            real = r.random() < 0.25
            return [r.choice(["le", "lt", "le", "eq"]), self.num(A, real), self.num(A, real)]
        if k < 0.95:
            return ["eq", self.fl("at", A), r.choice([["o", "o1", "T"], ["o", "o2", "T"], self.tterm(A)])]
        v = ["v", "q", UT]
        body = r.choice([["fl", FL["br"], v], ["le", ["fl", FL["dr"], v], r.choice([ic(2), self.fl("x", A), self.fl("w", A)])],
                         ["not", ["eq", ["fl", FL["at"]], v]], ["or", ["fl", FL["br"], v], self.fl("b0", A)]])
        return [r.choice(["exists", "forall"]), [["q", UT]], body]

    def tcond(self, A, depth=1):
        """a condition that mostly holds in the initial state (for one binding of the action's parameters)"""
        c = self.cond(A, depth)
        I = {"fl": self.st0, "fn": {}, "dom": {pyden.key(UT): [("o", o) for o, _ in OBJS]},
             "par": {"p": ("o", self.r.choice(["o1", "o2"])), "k": ("n", F(self.r.choice([1, 2, 3])))}}
        if pyden.den(c, I) != ("b", True) and self.r.random() < 0.8:
            c = c[1] if c[0] == "not" else ["not", c]
        return c

    def cond(self, A, depth=1):
        r = self.r
        k = r.random()
        if depth <= 0 or k < 0.5:
            a = self.atom(A)
            return ["not", a] if r.random() < 0.3 else a
        if k < 0.75:
            return ["and", self.cond(A, depth - 1), self.cond(A, depth - 1)]
        if k < 0.95:
            return ["or", self.cond(A, depth - 1), self.cond(A, depth - 1)]
        return ["implies", self.cond(A, depth - 1), self.cond(A, depth - 1)]

    # effects -----------------------------------------------------------------------------------
    def effect(self, A, taken):
        """one unconditional effect on a ground fluent not yet written at this timing (`taken`: name -> kind);
        several increases/decreases of one fluent may accumulate"""
        r = self.r
        for _ in range(8):
            name = r.choice(["b0", "b1", "b2", "bq", "x", "x", "y", "z", "at", "w", "wr", "dq"] + (["br", "br"] if A.get("inst") else []))
            ty = FL[name][1]
            f = self.fl(name, A)
            if name in ("w", "wr", "dq"):
                # duration fluents stay positive
                if taken.get(name) == "assign" or (name in taken and A.get("single_incdec")):
                    continue
                if r.random() < 0.5 and name not in taken:
                    kind, v = "assign", (ic(r.choice([1, 2, 4])) if name != "wr" else qc(F(r.choice([1, 3, 7]), 2)))
                else:
                    kind, v = "increase", (ic(r.choice([1, 2])) if name != "wr" else qc(F(r.choice([1, 2, 3]), 2)))
            elif ty == "bool":
                if name in taken:
                    continue
                kind = "assign"
                k = r.random()
                v = ["b", r.choice(["T", "F"])] if k < 0.8 else (self.cond(A, 0))
            elif ty == UT:
                if name in taken:
                    continue
                kind, v = "assign", r.choice([["o", "o1", "T"], ["o", "o2", "T"], self.tterm(A)])
            else:
                real = ty == REAL
                if name in taken and (taken[name] == "assign" or A.get("single_incdec")):
                    continue
                if name not in taken and r.random() < 0.5:
                    kind, v = "assign", self.num(A, real, 1)
                else:
                    kind = r.choice(["increase", "decrease"])
                    v = self.num(A, real, 0) if r.random() < 0.5 else (qc(F(r.choice([1, 3]), 2)) if real else ic(r.choice([1, 2, 3])))
            taken[name] = "assign" if kind == "assign" else "incdec"
            return ["eff", kind, f, v, ["b", "T"], []]
        return None

    # durations ---------------------------------------------------------------------------------
    def ival(self, A):
        """non-empty interval with positive durations in every reachable state, by construction"""
        r = self.r
        lopen, ropen = r.choice([(False, False)] * 3 + [(True, False)] * 3 + [(False, True), (True, True)])
        real = r.random() < 0.3
        k = r.random()
        if k < 0.4:     # constant bounds
            lo = F(r.choice([1, 2, 5, 10]), r.choice([1, 1, 2, 100, 1000]) if real else 1)
            if lopen and r.random() < 0.3:
                lo = F(0)
            width = F(r.choice([1, 2, 5]), r.choice([1, 2, 1000]) if real else 1)
            if not lopen and not ropen and r.random() < 0.5:
                width = F(0)        # fixed duration
            return ["ival", qc(lo), qc(lo + width), B(lopen), B(ropen)]
        opts = [self.fl("w", A), self.fl("dq", A), ["plus", self.fl("w", A), self.fl("dq", A)],
                ["times", ic(2), self.fl("w", A)]]
        if A["k"]:
            opts += [["p"] + KPAR, ["plus", ["p"] + KPAR, self.fl("w", A)], ["times", ["p"] + KPAR, self.fl("dq", A)]]
        if real:
            opts += [self.fl("wr", A), ["plus", self.fl("wr", A), self.fl("w", A)], ["div", self.fl("w", A), ic(2)]]
        lo = r.choice(opts)
        k = r.random()
        if k < 0.25 and not lopen and not ropen:
            hi = lo                                                   # fixed, state-dependent
        elif k < 0.7:
            hi = ["plus", lo, qc(F(r.choice([1, 2, 3]), r.choice([1, 2]) if real else 1))]
        elif k < 0.85:
            hi = ["plus", lo, r.choice([self.fl("w", A), self.fl("dq", A)])]
        else:
            hi = ["times", ic(r.choice([2, 3])), lo]
        return ["ival", lo, hi, B(lopen), B(ropen)]

    # actions -----------------------------------------------------------------------------------
    def frame(self):
        r = self.r
        haveP, haveK = r.random() < 0.45, r.random() < 0.3
        params = ([PPAR] if haveP else []) + ([KPAR] if haveK else [])
        t = ["p"] + PPAR if haveP else ["o", r.choice(["o1", "o2"]), "T"]
        return {"params": params, "t": t, "k": haveK}

    def dur_action(self, i):
        r = self.r
        A = self.frame()
        conds = []
        for _ in range(r.choice([0, 1, 1, 2, 3])):
            conds.append([r.choice(["start", "start", "end", "end", "cc", "cc", "co", "oc", "oo"]), self.tcond(A, r.choice([0, 1]))])
        effs = []
        ts, te = {}, {}
        A["single_incdec"] = False
        for _ in range(r.choice([0, 1, 1, 2])):
            e = self.effect(A, ts)
            if e:
                effs.append(["start", e])
        A["single_incdec"] = True       # two end increases of one fluent become two assignments -> compile error (C08)
        for _ in range(r.choice([1, 1, 2, 3])):
            # end effects are biased towards fluents touched at start (the interesting substitutions)
            e = self.effect(A, te)
            if e:
                effs.append(["end", e])
        # a condition stating exactly what a start effect establishes: over (start,end] / at end it holds thanks to
        # the effect, over [start,end] / at start it must already hold before it
        for w_, e in effs:
            if w_ == "start" and e[1] == "assign" and e[3][0] in ("b", "i", "r", "o") and r.random() < 0.3:
                c = (e[2] if e[3] == ["b", "T"] else ["not", e[2]]) if e[3][0] == "b" else ["eq", e[2], e[3]]
                conds.append([r.choice(["oc", "oo", "end", "end", "cc", "co", "start"]), c])
        r.shuffle(effs)
        return ["dur", f"d{i}", A["params"], self.ival(A), ["conds"] + conds, ["effs"] + effs]

    def inst_action(self, i):
        r = self.r
        A = self.frame()
        A["single_incdec"] = False
        A["inst"] = True
        pre = [self.tcond(A, r.choice([0, 1])) for _ in range(r.choice([0, 1, 1, 2]))]
        effs, t = [], {}
        for _ in range(r.choice([1, 1, 2])):
            e = self.effect(A, t)
            if e:
                effs.append(e)
        return ["inst", f"i{i}", A["params"], ["pre"] + pre, ["effs"] + effs]

    def problem(self):
        r = self.r
        init = []
        for name, ref in FL.items():
            argss = [[]] if not ref[2] else [[["o", o, t]] for o, t in OBJS]
            for args in argss:
                ty = ref[1]
                if name in ("w", "dq", "dr"):
                    v = ic(r.choice([1, 2, 3]))
                elif name == "wr":
                    v = qc(F(r.choice([1, 3, 5]), 2))
                elif ty == "bool":
                    v = ["b", r.choice(["T", "T", "F"])]
                elif ty == INT:
                    v = ic(r.choice([0, 1, 2, 3]))
                elif ty == REAL:
                    v = qc(F(r.choice([0, 1, 3, 5]), 2))
                else:
                    v = ["o", r.choice(["o1", "o2"]), "T"]
                init.append([["fl", ref] + args, v])
        p0 = ["t2s", ["eps", "_"], ["objects"] + OBJS, ["fluents"] + list(FL.values()), ["init"] + init,
              ["actions"], ["goals"], ["plan"]]
        self.st0 = g_init(p0)
        acts = []
        n = r.choice([1, 2, 2, 3])
        for i in range(n):
            acts.append(self.inst_action(i) if (r.random() < 0.2 and i > 0) else self.dur_action(i))
        A0 = {"params": [], "t": ["o", "o1", "T"], "k": False}
        goals = [self.cond(A0, r.choice([0, 1])) for _ in range(r.choice([0, 0, 1, 1, 2]))]
        eps = r.choice(["_", "_", "_", "1/10", "1", "1/1000", "5"])
        p = ["t2s", ["eps", eps], ["objects"] + OBJS, ["fluents"] + list(FL.values()), ["init"] + init,
             ["actions"] + acts, ["goals"] + goals, ["plan"]]
        # plan: a walk that mostly follows steps the guide considers applicable
        steps = ground_steps(p)
        plan, st = [], self.st0
        for _ in range(r.choice([0, 1, 2, 2, 3, 3, 4, 5])):
            if st is not None and r.random() < 0.85:
                ok = [s_ for s_ in steps if g_step(p, st, s_) is not None]
                s_ = r.choice(ok) if ok else r.choice(steps)
            else:
                s_ = r.choice(steps)
            plan.append(s_)
            st = g_step(p, st, s_) if st is not None else None
        return with_sec(p, "plan", plan)


def cases(rng, tier):
    n = {"quick": 240, "thorough": 4000}.get(tier, 240)
    g = Gen(rng)
    for _ in range(n):
        yield g.problem()


# ------------------------------------------------------------------------------------------------
# evidence helpers
# ------------------------------------------------------------------------------------------------

def _ival_tag(a):
    _, lo, hi, lopen, ropen = a[3]
    const = lo[0] in ("i", "r") and hi[0] in ("i", "r")
    shape = {"FF": "closed", "TF": "left-open", "FT": "right-open", "TT": "open"}[lopen + ropen]
    if shape == "closed" and lo == hi:
        shape = "fixed"
    return shape, const


def _converted(payload, ans):
    """(action sexp) of every converted step"""
    acts = {a[1]: a for a in sec(payload, "actions")}
    n = len(ans[0]) - 1
    return [acts[s[0]] for s in sec(payload, "plan")[:n]]


def nontrivial(payload, ans):
    if ans[0] == "error" or ans[2][1] != "T":
        return False
    for a in _converted(payload, ans):
        if a[0] == "dur":
            shape, const = _ival_tag(a)
            if shape in ("left-open", "open") or not const:
                return True
    return False


def stats(payload, ans):
    if ans[0] == "error":
        return ["error-" + ans[1]]
    conv = _converted(payload, ans)
    t = [f"converted-{len(conv)}", "stop-" + ("none" if ans[1][1] == "_" else "inapplicable-step"),
         "goal-" + ans[2][1], "tt-" + ans[3][1], "eps-" + ("default" if sec(payload, "eps")[0] == "_" else "set")]
    for a in conv:
        if a[0] == "dur":
            shape, const = _ival_tag(a)
            t.append(f"ival-{shape}-{'const' if const else 'state-dep'}")
            kinds = sorted(set(k for k, _ in a[4][1:]))
            t += [f"cond-{k}" for k in kinds]
            fs, fe = set(sexp.dumps(e[2]) for w, e in a[5][1:] if w == "start"), set(sexp.dumps(e[2]) for w, e in a[5][1:] if w == "end")
            if fs & fe:
                t.append("start+end-effect-on-one-fluent")
        else:
            t.append("instantaneous")
    return t


def known_cause(payload):
    """id of the listed finding that explains a failure on this payload"""
    for a in sec(payload, "actions"):
        if a[0] != "dur":
            continue
        ends = [sexp.dumps(e[2]) for w, e in a[5][1:] if w == "end" and e[1] != "assign"]
        if len(ends) != len(set(ends)):
            return "C28-repeated-end-increase"
    for a in sec(payload, "actions"):
        terms = {}

        def walk(e):
            if isinstance(e, list):
                if e and e[0] == "fl" and len(e) > 2:
                    terms.setdefault(e[1][0], set()).add(sexp.dumps(e[2:]))
                for x in e:
                    walk(x)
        walk(a)
        if any(len(v) > 1 for v in terms.values()):
            return "C28-syntactic-substitution-aliasing"
    try:
        if bad_interval_reachable(payload, depth=max(3, len(sec(payload, "plan")))):
            return "C28-degenerate-duration-interval"
    except Exception:
        pass
    return None


def shrink(payload):
    plan = sec(payload, "plan")
    for i in range(len(plan)):
        yield with_sec(payload, "plan", plan[:i] + plan[i + 1:])
    acts = sec(payload, "actions")
    used = set(s[0] for s in plan)
    for i, a in enumerate(acts):
        if a[1] not in used:
            yield with_sec(payload, "actions", acts[:i] + acts[i + 1:])
    goals = sec(payload, "goals")
    for i in range(len(goals)):
        yield with_sec(payload, "goals", goals[:i] + goals[i + 1:])
    for i, a in enumerate(acts):
        if a[0] == "dur":
            cs, es = a[4][1:], a[5][1:]
            for j in range(len(cs)):
                yield with_sec(payload, "actions", acts[:i] + [a[:4] + [["conds"] + cs[:j] + cs[j + 1:], a[5]]] + acts[i + 1:])
            for j in range(len(es)):
                yield with_sec(payload, "actions", acts[:i] + [a[:5] + [["effs"] + es[:j] + es[j + 1:]]] + acts[i + 1:])
        else:
            cs, es = a[3][1:], a[4][1:]
            for j in range(len(cs)):
                yield with_sec(payload, "actions", acts[:i] + [a[:3] + [["pre"] + cs[:j] + cs[j + 1:], a[4]]] + acts[i + 1:])
            for j in range(len(es)):
                yield with_sec(payload, "actions", acts[:i] + [a[:4] + [["effs"] + es[:j] + es[j + 1:]]] + acts[i + 1:])
    if sec(payload, "eps")[0] != "_":
        yield with_sec(payload, "eps", ["_"])
    # fluents nobody mentions
    body = sexp.dumps([sec(payload, "actions"), sec(payload, "goals")])
    for ref in sec(payload, "fluents"):
        if sexp.dumps(ref) not in body:
            yield with_sec(with_sec(payload, "fluents", [f for f in sec(payload, "fluents") if f != ref]),
                           "init", [iv for iv in sec(payload, "init") if iv[0][1] != ref])
    objs = sec(payload, "objects")
    if objs and not any(a[2] for a in acts) and '(o ' not in body and "(user " not in sexp.dumps(sec(payload, "fluents")):
        yield with_sec(payload, "objects", [])


MANIFEST = {
    "level_text": ("Lean 4 theorems (Props/C28.lean) over an executable model of plan_back_conversion_callable (repaired code): for "
                   "EVERY non-empty duration interval (closed/left-open/right-open/open, any rational, state-dependent bounds evaluated "
                   "along the compiled plan) the chosen duration passes the validator's interval test (C28_duration_inside*, full); the "
                   "converted plan starts each action exactly epsilon after the previous end, actions never overlap and happenings are "
                   "strictly increasing (C28_spacing*, full); a plan valid for the compiled problem converts back to a plan accepted by an "
                   "explicit temporal semantics (C28_valid_back_partial: at-start/at-end/over-all conditions, start/end effects, compiled "
                   "action taken at its meaning, intervals non-empty and positive where actions start; the unrestricted statement is "
                   "refuted in Lean by an empty-interval witness). Model and code are tied on every run by a differential check of the "
                   "compiled trajectory, the (start, duration) list and the validator's verdict, plus the property's own oracle: all valid "
                   "plans of the compiled problem up to length 3 found with the real simulator, converted back by the real callable and "
                   "judged by the real TimeTriggeredPlanValidator on the original problem."),
    "level_note": ("Trusted: Lean kernel; axioms propext, Classical.choice, Quot.sound; Driver.lean + harness. Modelled, not verified: "
                   "_compile's substitution/simplification (only its meaning is compared on generated states), Simplifier on ground bounds, "
                   "UPSequentialSimulator, StateEvaluator, Fraction. Needs the repair in notes/patches/C28-left-open-duration.patch: the "
                   "unchanged tree gives left-open intervals the duration min_time_step (D-C28)."),
    "technique": "Lean 4 proof (induction over the plan with a trace invariant) + model/code correspondence + end-to-end oracle",
    "design_ref": "DESIGN.md §5 C28, §6 D-C28",
}
