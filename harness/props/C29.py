"""C29 — Durative-to-processes plan conversions are mutually inverse.

Payload (see lean/UPVerif/Drv/C29.lean for the grammar):
  (case (sfl SF*) (acts ACT*) (fwd TA*))    forward conversion, then back conversion of its result
  (case (sfl SF*) (acts ACT*) (back CA*))   back conversion of an arbitrary compiled plan
"""
import itertools
import warnings
from fractions import Fraction as F

warnings.simplefilter("ignore")
import unified_planning as up
from unified_planning.engines import CompilationKind
from unified_planning.engines.compilers.durative_actions_to_processes import DurativeActionToProcesses
from unified_planning.exceptions import UPValueError
from unified_planning.model import (DurativeAction, EndTiming, Fluent, InstantaneousAction, Object, Problem,
                                    StartTiming, TimeInterval)
from unified_planning.model.timing import DurationInterval
from unified_planning.plans import TimeTriggeredPlan
from unified_planning.shortcuts import BoolType, IntType, RealType, UserType

ID = "C29"
GEN = []
CORR_NAME = "forward-and-back-plan-conversion"
RULE = ("problems of 1-4 actions (instantaneous; durative with constant / parameter-dependent / static-fluent-dependent fixed "
        "durations; durative with variable durations incl. structurally different but equal-valued bounds and open intervals) "
        "with random intermediate condition intervals and effect timings; (a) time-triggered plans over their ground instances "
        "on a coarse time grid (repeated identical instances, back-to-back, shuffled listing order), mostly with the declared durations, sometimes with wrong/missing/too-short durations or an unknown action; "
        "(b) compiled plans for the back conversion alone: events of valid plans with dropped/duplicated/shifted/foreign events. "
        "Non-trivial = a forward case whose round trip succeeds on >= 2 instances of which at least one is durative, or a back "
        "case that pairs at least one end event.")
ASSUMPTIONS = [
    "plans 'of the original problem': the duration listed for a fixed-duration instance equals the declared one (DESIGN 2.11); "
    "other plans are run through model and code (correspondence) but are outside the property's quantifier for the oracle",
    "the inverse clause is demanded for plans all of whose instances are instantaneous or of fixed duration (the property's quantifier); "
    "variable-duration round trips are compared model-vs-code only",
    "'inside its action's duration' is read as start < end-event time <= start + duration (DESIGN C29_end_inside)",
    "equality of the returned plan is as multisets of (start, action, actual parameters, duration); listing order is not demanded "
    "(it is nevertheless compared model-vs-code, being deterministic)",
    "duration expressions: + - * / over int/real constants, numeric parameters and static fluents of object parameters, small "
    "constants, non-zero divisors (keeps clear of the simplifier's float division, C11)",
    "problems stay inside the compiler's supported kind (no end-relative timing after the end, no start-relative one before the start)",
]
MODELLED = ["modelled by hand (tied by correspondence): _forward_plan_to_plan, _back_plan_to_plan, _action_variable_duration, "
            "_get_first_end_timing and which compiled actions _compile records per original action",
            "modelled not verified: Simplifier/Substituter on the duration bound (model = exact value of the bound), "
            "injectivity of the compiled-action dictionaries (fresh names), Python dict insertion order, stable sorted(), Fraction"]
BUDGET_S = {"quick": 60, "thorough": 500}

OBJS = ["l1", "l2", "l3"]
SF_ARITY = {"w1": 1, "d2": 2}


# ------------------------------------------------------------------------------------------------
# payload helpers
# ------------------------------------------------------------------------------------------------

def rat(s):
    return F(s)


def rs(q):
    q = F(q)
    return str(q.numerator) if q.denominator == 1 else f"{q.numerator}/{q.denominator}"


def pv_key(p):
    return tuple(p)


def ev(e, ps, sfl):
    """exact value of a duration expression under actual parameters (harness-side reference; None = undefined)"""
    k = e[0]
    if k == "i":
        return F(int(e[1]))
    if k == "r":
        return F(e[1])
    if k == "p":
        i = int(e[1])
        if i >= len(ps) or ps[i][0] not in ("i", "r"):
            return None
        return F(ps[i][1])
    if k == "sf":
        tab = sfl.get(e[1])
        if tab is None:
            return None
        args = []
        for j in e[2:]:
            if int(j) >= len(ps):
                return None
            args.append(pv_key(ps[int(j)]))
        for a, v in tab[1]:
            if tuple(pv_key(x) for x in a) == tuple(args):
                return F(v)
        return None if tab[0] == "none" else F(tab[0])
    a, b = ev(e[1], ps, sfl), ev(e[2], ps, sfl)
    if a is None or b is None:
        return None
    if k == "+":
        return a + b
    if k == "-":
        return a - b
    if k == "*":
        return a * b
    if k == "/":
        return None if b == 0 else a / b
    raise ValueError(k)


def sfl_table(payload):
    return {s[0]: (s[1], [(e[0], e[1]) for e in s[2:]]) for s in payload[1][1:]}


def acts_of(payload):
    return payload[2][1:]


def act_timings(a):
    ts = []
    for lo, hi in a[7]:
        ts += [lo, hi]
    return ts + list(a[8])


def is_variable(a):
    return a[0] == "dur" and (a[5] == "T" or a[6] == "T" or a[3] != a[4])


def first_end_delay(a):
    ds = [F(t[1]) for t in act_timings(a) if t[0] == "e"]
    return min(ds) if ds else F(0)


# ------------------------------------------------------------------------------------------------
# building the real objects
# ------------------------------------------------------------------------------------------------

_cache = {}


class Built:
    pass


def build(payload):
    key = repr((payload[1], payload[2]))
    if key in _cache:
        return _cache[key]
    env = up.environment.get_environment()
    mgr = env.expression_manager
    Loc = UserType("Loc")
    p = Problem("c29")
    objs = {n: Object(n, Loc) for n in OBJS}
    p.add_objects(list(objs.values()))
    cfl = Fluent("cnd", BoolType())
    p.add_fluent(cfl, default_initial_value=True)
    sfs = {}
    for s in payload[1][1:]:
        name, dflt = s[0], s[1]
        ar = SF_ARITY[name]
        fl = Fluent(name, RealType(), **{f"a{i}": Loc for i in range(ar)})
        sfs[name] = fl
        if dflt == "none":
            p.add_fluent(fl)
        else:
            p.add_fluent(fl, default_initial_value=F(dflt))
        for args, v in s[2:]:
            p.set_initial_value(fl(*[pval(a, objs, mgr) for a in args]), F(v))
    actions = {}
    nfl = 0
    for a in acts_of(payload):
        kind, name, params = a[0], a[1], a[2]
        kw = {}
        for i, ps in enumerate(params):
            if ps[0] == "int":
                kw[f"q{i}"] = IntType(int(ps[1]), int(ps[2]))
            elif ps[0] == "real":
                kw[f"q{i}"] = RealType()
            elif ps[0] == "obj":
                kw[f"q{i}"] = Loc
            elif ps[0] == "bool":
                kw[f"q{i}"] = BoolType()
            else:
                raise ValueError(ps)
        if kind == "inst":
            act = InstantaneousAction(name, **kw)
            fl = Fluent(f"h{nfl}", BoolType())
            nfl += 1
            p.add_fluent(fl, default_initial_value=False)
            act.add_effect(fl, True)
        else:
            act = DurativeAction(name, **kw)
            aps = act.parameters

            def dx(e):
                k = e[0]
                if k == "i":
                    return mgr.Int(int(e[1]))
                if k == "r":
                    return mgr.Real(F(e[1]))
                if k == "p":
                    return mgr.ParameterExp(aps[int(e[1])])
                if k == "sf":
                    return sfs[e[1]](*[aps[int(j)] for j in e[2:]])
                l, r = dx(e[1]), dx(e[2])
                return {"+": mgr.Plus, "-": mgr.Minus, "*": mgr.Times, "/": mgr.Div}[k](l, r)

            act.set_duration_constraint(DurationInterval(dx(a[3]), dx(a[4]), a[5] == "T", a[6] == "T"))

            def tm(t):
                d = F(t[1])
                return (StartTiming() + d) if t[0] == "s" else (EndTiming() + d)

            for lo, hi in a[7]:
                act.add_condition(TimeInterval(tm(lo), tm(hi)), cfl)
            for t in a[8]:
                fl = Fluent(f"h{nfl}", BoolType())
                nfl += 1
                p.add_fluent(fl, default_initial_value=False)
                act.add_effect(tm(t), fl, True)
        p.add_action(act)
        actions[name] = act
    b = Built()
    b.problem, b.actions, b.objs, b.mgr = p, actions, objs, mgr
    b.res = DurativeActionToProcesses().compile(p, CompilationKind.DURATIVE_ACTIONS_TO_PROCESSES)
    b.fwd = b.res.plan_forward_conversion
    b.back = b.res.plan_back_conversion
    # compiled action -> (role, original name), from the dictionaries the conversions themselves use
    b.start_of = dict(b.fwd.keywords["start_actions_forward"])          # original -> compiled start
    b.end_of = {o: c for o, (c, _) in b.fwd.keywords["end_actions_forward"].items()}
    b.role = {}
    for o, c in b.start_of.items():
        b.role[c.name] = ("start", o.name)
    for o, c in b.end_of.items():
        b.role[c.name] = ("end", o.name)
    b.foreign = {}
    if len(_cache) > 400:
        _cache.clear()
    _cache[key] = b
    return b


def pval(a, objs, mgr):
    k = a[0]
    if k == "i":
        return mgr.Int(int(a[1]))
    if k == "r":
        return mgr.Real(F(a[1]))
    if k == "o":
        return mgr.ObjectExp(objs[a[1]])
    if k == "b":
        return mgr.Bool(a[1] == "T")
    raise ValueError(a)


def pval_out(e):
    if e.is_int_constant():
        return ["i", str(e.constant_value())]
    if e.is_real_constant():
        return ["r", rs(e.constant_value())]
    if e.is_object_exp():
        return ["o", e.object().name]
    if e.is_bool_constant():
        return ["b", "T" if e.bool_constant_value() else "F"]
    raise ValueError(str(e))


def foreign_action(b, name):
    if name not in b.foreign:
        act = InstantaneousAction(name)
        b.foreign[name] = act
    return b.foreign[name]


def orig_plan(b, tas):
    items = []
    for _, t, name, ps, d in tas:
        act = b.actions.get(name)
        if act is None:
            act = foreign_action(b, name)
        items.append((F(t), act(*[pval(x, b.objs, b.mgr) for x in ps]), None if d == "none" else F(d)))
    return TimeTriggeredPlan(items, b.problem.environment)


def comp_plan(b, cas):
    items = []
    for _, t, role, name, ps in cas:
        orig = b.actions.get(name)
        if role == "start" and orig is not None:
            act = b.start_of[orig]
        elif role == "end" and orig is not None and orig in b.end_of:
            act = b.end_of[orig]
        else:
            # an instantaneous action that does not originate from the compiler
            act = foreign_action(b, "zz_" + name)
            ps = []
        items.append((F(t), act(*[pval(x, b.objs, b.mgr) for x in ps]), None))
    return TimeTriggeredPlan(items, b.problem.environment)


def err_of(e):
    if isinstance(e, KeyError):
        return ["err", "key"]
    if isinstance(e, AssertionError):
        return ["err", "assert"]
    if isinstance(e, UPValueError):
        return ["err", "value"]
    if isinstance(e, IndexError):
        return ["err", "index"]
    return ["err", "other:" + type(e).__name__]


def fwd_out(b, plan):
    out = ["ok"]
    for t, ai, d in plan.timed_actions:
        role, name = b.role.get(ai.action.name, ("other", ai.action.name))
        if d is not None:
            role = "with-duration:" + role
        out.append(["ca", rs(t), role, name, [pval_out(x) for x in ai.actual_parameters]])
    return out


def back_out(b, plan):
    out = ["ok"]
    for t, ai, d in plan.timed_actions:
        name = ai.action.name
        if b.actions.get(name) is not ai.action and b.actions.get(name) != ai.action:
            name = "not-original:" + name
        out.append(["ta", rs(t), name, [pval_out(x) for x in ai.actual_parameters], "none" if d is None else rs(d)])
    return out


def impl(payload):
    b = build(payload)
    op = payload[3]
    if op[0] == "fwd":
        plan = orig_plan(b, op[1:])
        try:
            fw = b.fwd(plan)
        except Exception as e:
            return [["fwd", err_of(e)], ["back", "skip"]]
        try:
            bk = back_out(b, b.back(fw))
        except Exception as e:
            bk = err_of(e)
        return [["fwd", fwd_out(b, fw)], ["back", bk]]
    if op[0] == "back":
        plan = comp_plan(b, op[1:])
        try:
            bk = back_out(b, b.back(plan))
        except Exception as e:
            bk = err_of(e)
        return [["back", bk]]
    raise ValueError(op[0])


# ------------------------------------------------------------------------------------------------
# the property itself, on the real code
# ------------------------------------------------------------------------------------------------

def in_quantifier(payload):
    """is the `fwd` plan a plan 'of the original problem' as far as durations go?  returns (ok, all_fixed)"""
    sfl = sfl_table(payload)
    decl = {a[1]: a for a in acts_of(payload)}
    all_fixed = True
    for _, t, name, ps, d in payload[3][1:]:
        a = decl.get(name)
        if a is None:
            return False, False
        if a[0] == "inst":
            if d != "none":
                return False, False
        elif is_variable(a):
            all_fixed = False
            if d == "none":
                return False, False
        else:
            want = ev(a[3], ps, sfl)
            if want is None or d == "none" or F(d) != want:
                return False, False
    return True, all_fixed


def oracle(payload):
    op = payload[3]
    if op[0] != "fwd":
        return None
    ok, all_fixed = in_quantifier(payload)
    if not ok:
        return None
    b = build(payload)
    plan = orig_plan(b, op[1:])
    try:
        fw = b.fwd(plan)
    except AssertionError:
        if all_fixed:
            return "forward conversion raised AssertionError on a fixed-duration plan"
        return None   # a variable-duration instance too short for its first end-relative timing: outside the quantifier
    except Exception as e:
        return f"forward conversion raised {type(e).__name__}"
    # clause 2: every compiled end event lies inside the duration of an instance of its action with the same parameters
    back_kw = b.back.keywords
    for t, ai, _ in fw.timed_actions:
        if ai.action in back_kw["end_actions"]:
            orig = back_kw["end_actions"][ai.action][0]
            if not any(oai.action == orig and oai.actual_parameters == ai.actual_parameters and d is not None
                       and s < t <= s + d for s, oai, d in plan.timed_actions):
                return f"end event {ai} at {t} is not inside the duration of any instance of {orig.name}"
    # every original instance is started at its own start time
    if len([1 for _, ai, _ in fw.timed_actions if ai.action in back_kw["start_actions"]]) != len(plan.timed_actions):
        return "forward plan does not start every instance exactly once"
    if not all_fixed:
        return None
    # clause 1: back(forward(plan)) has the same timed instances (multiset)
    try:
        bk = b.back(fw)
    except Exception as e:
        return f"back conversion of the forward plan raised {type(e).__name__}"

    def ms(pl):
        out = []
        for s, ai, d in pl.timed_actions:
            if b.actions.get(ai.action.name) != ai.action:
                return None
            out.append((F(s), ai.action.name, tuple(str(x.node_type) + ":" + str(x) for x in ai.actual_parameters),
                        None if d is None else F(d)))
        return sorted(out, key=repr)
    m1, m2 = ms(plan), ms(bk)
    if m2 is None:
        return "round trip returned an action that is not an action of the original problem"
    if m1 != m2:
        return "back(forward(plan)) differs from plan as a multiset of (start, action, parameters, duration)"
    return None


# ------------------------------------------------------------------------------------------------
# measurement
# ------------------------------------------------------------------------------------------------

def nontrivial(payload, ans):
    d = {x[0]: x[1] for x in ans}
    op = payload[3]
    if op[0] == "fwd":
        if d["fwd"][0] != "ok" or d["back"] == "skip" or d["back"][0] != "ok":
            return False
        decl = {a[1]: a for a in acts_of(payload)}
        return len(op) - 1 >= 2 and any(decl[x[2]][0] == "dur" for x in op[1:])
    return d["back"][0] == "ok" and any(c[2] == "end" for c in op[1:])


def stats(payload, ans):
    d = {x[0]: x[1] for x in ans}
    op = payload[3]
    tags = [op[0]]
    if op[0] == "fwd":
        ok, all_fixed = in_quantifier(payload)
        tags.append("in-quantifier" + ("/all-fixed" if all_fixed else "/some-variable") if ok else "outside-quantifier")
        tags.append("fwd:" + (d["fwd"][0] if d["fwd"][0] == "ok" else "err-" + d["fwd"][1]))
        insts = [(x[1], x[2], repr(x[3])) for x in op[1:]]
        if len(set(insts)) < len(insts):
            tags.append("identical-instances")
        keys = [(x[2], repr(x[3])) for x in op[1:]]
        if len(set(keys)) < len(keys):
            tags.append("same-action-params-repeated")
        ts = [F(x[1]) for x in op[1:]]
        if ts != sorted(ts):
            tags.append("listed-out-of-time-order")
        ends = {(x[2], repr(x[3]), F(x[1]) + F(x[4])) for x in op[1:] if x[4] != "none"}
        if any((x[2], repr(x[3]), F(x[1])) in ends for x in op[1:]):
            tags.append("back-to-back")
        sfl = sfl_table(payload)
        decl = {a[1]: a for a in acts_of(payload)}
        for x in op[1:]:
            a = decl.get(x[2])
            if a is not None and a[0] == "dur" and not is_variable(a) and a[3][0] not in ("i", "r"):
                tags.append("param-dependent-duration")
                break
    b = d["back"]
    tags.append("back:" + ("skip" if b == "skip" else "ok" if b[0] == "ok" else "err-" + b[1]))
    tags.append("n=%d" % min(len(op) - 1, 9))
    return tags


# ------------------------------------------------------------------------------------------------
# generation
# ------------------------------------------------------------------------------------------------

GRID = [F(0), F(1), F(2), F(3), F(4), F(5), F(6), F(8), F(1, 2), F(3, 2), F(5, 2), F(7, 3), F(10)]


def gen_const(rng, lo=1, hi=6):
    r = rng.random()
    if r < 0.6:
        return ["i", str(rng.randint(lo, hi))]
    if r < 0.8:
        return ["r", rs(F(rng.randint(lo, hi)))]          # Real(k): structurally different from Int(k)
    return ["r", rs(F(rng.randint(2 * lo, 2 * hi + 1), 2))]


def gen_params(rng):
    n = rng.choice([0, 0, 1, 1, 2, 3])
    out = []
    for _ in range(n):
        r = rng.random()
        if r < 0.4:
            lo = rng.randint(1, 2)
            out.append(["int", str(lo), str(lo + rng.randint(1, 3))])
        elif r < 0.9:      # (real-typed action parameters are rejected by the compiler itself — a C08 matter)
            out.append(["obj"])
        else:
            out.append(["bool"])
    return out


def gen_expr(rng, params, sfl_names, depth=0, allow_mul=True):
    nums = [i for i, p in enumerate(params) if p[0] in ("int", "real")]
    objs = [i for i, p in enumerate(params) if p[0] == "obj"]
    r = rng.random()
    if depth >= 2 or r < 0.3:
        c = []
        if nums:
            c += [["p", str(rng.choice(nums))]] * 3
        if objs and sfl_names:
            f = rng.choice(sfl_names)
            c += [["sf", f] + [str(rng.choice(objs)) for _ in range(SF_ARITY[f])]] * 3
        c.append(gen_const(rng))
        return rng.choice(c)
    ops = ["+", "+"] + (["*", "/"] if allow_mul else [])
    o = rng.choice(ops)
    a = gen_expr(rng, params, sfl_names, depth + 1, allow_mul)
    if o == "/":
        return ["/", a, ["i", str(rng.choice([1, 2, 3, 4]))]]
    b = gen_expr(rng, params, sfl_names, depth + 1, allow_mul)
    return [o, a, b]


def gen_timings(rng):
    """condition intervals and effect timings inside the supported kind"""
    delays = [F(1), F(1, 2), F(2), F(3, 2)]

    def intermediate():
        d = rng.choice(delays)
        return ["s", rs(d)] if rng.random() < 0.5 else ["e", rs(-d)]
    conds, effs = [], []
    for _ in range(rng.choice([0, 0, 1, 1, 2])):
        r = rng.random()
        if r < 0.25:
            iv = [["s", "0"], ["e", "0"]]
        elif r < 0.4:
            iv = [["s", "0"], ["s", "0"]]
        elif r < 0.55:
            iv = [["e", "0"], ["e", "0"]]
        else:
            a, c = intermediate(), intermediate()
            if a[0] == "e" and c[0] == "s":
                a, c = c, a
            if a[0] == c[0] and F(a[1]) > F(c[1]):
                a, c = c, a
            iv = [a, c]
        if iv not in conds:
            conds.append(iv)
    for _ in range(rng.choice([0, 1, 1, 2, 3])):
        r = rng.random()
        t = ["s", "0"] if r < 0.2 else ["e", "0"] if r < 0.5 else intermediate()
        if t not in effs:
            effs.append(t)
    return conds, effs


def gen_problem(rng, fixed_only):
    sfl = []
    for name in SF_ARITY:
        if rng.random() < 0.6:
            dflt = rs(rng.choice([F(1), F(2), F(3), F(5, 2)])) if rng.random() < 0.85 else "none"
            entries = []
            for args in rng.sample(list(itertools.product(OBJS, repeat=SF_ARITY[name])), rng.randint(0, 3)):
                entries.append([[["o", a] for a in args], rs(rng.choice([F(1), F(2), F(4), F(7), F(3, 2), F(1, 3)]))])
            sfl.append([name, dflt] + entries)
    names = [s[0] for s in sfl]
    undefined_possible = any(s[1] == "none" for s in sfl)
    acts = []
    n = rng.choice([1, 2, 2, 3, 3, 4])
    pool = ["a", "b", "c", "d", "a_start", "b_first_end"]
    rng.shuffle(pool)
    for k in range(n):
        name = pool[k]
        params = gen_params(rng)
        r = rng.random()
        if r < 0.2:
            acts.append(["inst", name, params])
            continue
        conds, effs = gen_timings(rng)
        if fixed_only or r < 0.65:
            e = gen_expr(rng, params, names, allow_mul=not undefined_possible)
            acts.append(["dur", name, params, e, e, "F", "F", conds, effs])
        else:
            v = rng.random()
            if v < 0.15:      # equal value, different structure: the code treats it as variable
                c = rng.randint(2, 6)
                lo, hi = ["i", str(c)], ["r", str(c)]
                lopen = ropen = "F"
            elif v < 0.3 and any(p[0] in ("int", "real") for p in params):
                i = str([j for j, p in enumerate(params) if p[0] in ("int", "real")][0])
                lo, hi = ["+", ["p", i], ["i", "1"]], ["+", ["i", "1"], ["p", i]]
                lopen = ropen = "F"
            else:
                a = rng.randint(1, 4)
                lo, hi = ["i", str(a)], ["i", str(a + rng.randint(1, 6))]
                if rng.random() < 0.3 and any(p[0] == "int" for p in params):
                    i = str([j for j, p in enumerate(params) if p[0] == "int"][0])
                    lo, hi = ["p", i], ["+", ["p", i], ["i", str(rng.randint(1, 5))]]
                lopen = "T" if rng.random() < 0.2 else "F"
                ropen = "T" if rng.random() < 0.2 else "F"
            overall = [["s", "0"], ["e", "0"]]
            if overall in conds and not any(t[0] == "e" and F(t[1]) < 0 for t in effs + [x for iv in conds for x in iv]):
                # the compiler itself raises AssertionError (l. 913) for a variable duration with an overall condition
                # and no earlier end-relative timing — a C08 matter; stay out of it
                if rng.random() < 0.5:
                    conds = [iv for iv in conds if iv != overall]
                else:
                    effs = effs + [["e", rs(-rng.choice([F(1), F(1, 2), F(2)]))]]
            acts.append(["dur", name, params, lo, hi, lopen, ropen, conds, effs])
    return ["sfl"] + sfl, ["acts"] + acts


def gen_actuals(rng, params):
    out = []
    for p in params:
        if p[0] == "int":
            out.append(["i", str(rng.randint(int(p[1]), int(p[2])))])
        elif p[0] == "real":
            r = rng.random()
            out.append(["i", str(rng.randint(1, 3))] if r < 0.4 else ["r", rs(F(rng.randint(1, 3)))] if r < 0.7
                       else ["r", rs(F(rng.randint(1, 7), 2))])
        elif p[0] == "obj":
            out.append(["o", rng.choice(OBJS[:2] if rng.random() < 0.8 else OBJS)])
        else:
            out.append(["b", rng.choice(["T", "F"])])
    return out


def gen_plan(rng, sflp, actsp, adversarial):
    sfl = {s[0]: (s[1], [(e[0], e[1]) for e in s[2:]]) for s in sflp[1:]}
    acts = actsp[1:]
    n = rng.choice([0, 1, 2, 3, 3, 4, 5, 6, 8])
    plan = []
    for _ in range(n):
        r = rng.random()
        if plan and r < 0.2:        # identical instance again
            plan.append(list(rng.choice(plan)))
            continue
        prev = rng.choice(plan) if plan and r < 0.5 else None
        if prev is not None and prev[2] in [a[1] for a in acts]:
            a = [x for x in acts if x[1] == prev[2]][0]
            ps = prev[3]
        else:
            a = rng.choice(acts)
            ps = gen_actuals(rng, a[2])
        t = rng.choice(GRID)
        if prev is not None and prev[4] != "none" and rng.random() < 0.6:
            t = F(prev[1]) + F(prev[4])     # back-to-back with an instance of the same (action, params)
        if a[0] == "inst":
            d = "none"
        elif is_variable(a):
            lo, hi = ev(a[3], ps, sfl), ev(a[4], ps, sfl)
            lo = F(1) if lo is None else lo
            hi = lo + 3 if hi is None or hi < lo else hi
            d = rs(rng.choice([lo, hi, (lo + hi) / 2, lo + F(1, 2), hi + 1, -first_end_delay(a), -first_end_delay(a) + F(1, 2)]))
            if F(d) <= 0:
                d = "1"
        else:
            v = ev(a[3], ps, sfl)
            d = "none" if v is None else rs(v)
            if v is None:
                d = "2"
        plan.append(["ta", rs(t), a[1], ps, d])
    if adversarial and plan:
        for _ in range(rng.choice([1, 1, 2])):
            i = rng.randrange(len(plan))
            x = list(plan[i])
            r = rng.random()
            if r < 0.3:
                x[4] = "none" if x[4] != "none" else "3"
            elif r < 0.6 and x[4] != "none":
                x[4] = rs(rng.choice([F(x[4]) + 1, F(1, 2), F(1), F(x[4]) / 2]))
            elif r < 0.75:
                x = ["ta", x[1], "zz_unknown", [], "none"]
            else:
                x[1] = rs(rng.choice(GRID))
            plan[i] = x
    if rng.random() < 0.6:
        rng.shuffle(plan)
    else:
        plan.sort(key=lambda x: F(x[1]))
    return plan


def events_of(plan, actsp):
    decl = {a[1]: a for a in actsp[1:]}
    ev_ = []
    for x in plan:
        a = decl.get(x[2])
        if a is None:
            continue
        ev_.append(["ca", x[1], "start", x[2], x[3]])
        if is_variable(a) and x[4] != "none":
            te = F(x[1]) + F(x[4]) + first_end_delay(a)
            ev_.append(["ca", rs(te), "end", x[2], x[3]])
    return ev_


def gen_back(rng, sflp, actsp):
    plan = gen_plan(rng, sflp, actsp, False)
    evs = events_of(plan, actsp)
    decl = {a[1]: a for a in actsp[1:]}
    r = rng.random()
    if evs and r < 0.6:
        for _ in range(rng.choice([1, 1, 2])):
            if not evs:
                break
            i = rng.randrange(len(evs))
            m = rng.random()
            if m < 0.25:
                del evs[i]
            elif m < 0.45:
                evs.insert(rng.randrange(len(evs) + 1), list(evs[i]))
            elif m < 0.65:
                e = list(evs[i])
                e[1] = rs(rng.choice(GRID))
                evs[i] = e
            elif m < 0.8:
                evs.insert(rng.randrange(len(evs) + 1), ["ca", rs(rng.choice(GRID)), "other", "foreign", []])
            else:
                e = list(evs[i])
                if e[2] == "start" and is_variable(decl[e[3]]):
                    e[2] = "end"
                elif e[2] == "end":
                    e[2] = "start"
                evs[i] = e
    if rng.random() < 0.7:
        rng.shuffle(evs)
    return evs


def cases(rng, tier):
    n = 700 if tier == "quick" else 14000
    i = attempts = skipped = 0
    while i < n:
        fixed_only = rng.random() < 0.45
        sflp, actsp = gen_problem(rng, fixed_only)
        attempts += 1
        if skipped * 2 <= attempts or attempts < 40:
            # safety net: problems the compiler itself rejects are not C29's business; if that becomes the rule
            # rather than the exception the cases are emitted anyway (and then show up as crashes)
            try:
                build(["case", sflp, actsp, ["fwd"]])
            except Exception:
                skipped += 1
                continue
        for _ in range(rng.choice([2, 3, 4])):
            r = rng.random()
            if r < 0.55:
                op = ["fwd"] + gen_plan(rng, sflp, actsp, False)
            elif r < 0.75:
                op = ["fwd"] + gen_plan(rng, sflp, actsp, True)
            else:
                op = ["back"] + gen_back(rng, sflp, actsp)
            yield ["case", sflp, actsp, op]
            i += 1


def shrink(payload):
    sflp, actsp, op = payload[1], payload[2], payload[3]
    items = op[1:]
    for i in range(len(items)):
        yield ["case", sflp, actsp, [op[0]] + items[:i] + items[i + 1:]]
    used = {x[2] if op[0] == "fwd" else x[3] for x in items}
    acts = actsp[1:]
    for i, a in enumerate(acts):
        if a[1] not in used:
            yield ["case", sflp, ["acts"] + acts[:i] + acts[i + 1:], op]
    for i, a in enumerate(acts):
        if a[0] == "dur" and (a[7] or a[8]):
            if a[7]:
                yield ["case", sflp, ["acts"] + acts[:i] + [a[:7] + [a[7][1:], a[8]]] + acts[i + 1:], op]
            if a[8]:
                yield ["case", sflp, ["acts"] + acts[:i] + [a[:8] + [a[8][1:]]] + acts[i + 1:], op]
    usedsf = repr(actsp)
    sfs = sflp[1:]
    for i, s in enumerate(sfs):
        if ("'" + s[0] + "'") not in usedsf:
            yield ["case", ["sfl"] + sfs[:i] + sfs[i + 1:], actsp, op]
    for i, x in enumerate(items):
        if x[1] != "0":
            y = list(x)
            y[1] = "0"
            yield ["case", sflp, actsp, [op[0]] + items[:i] + [y] + items[i + 1:]]


MANIFEST = {
    "level_text": ("Lean 4 theorems (Props/C29.lean) about an executable model of _forward_plan_to_plan/_back_plan_to_plan, for all "
                   "problems, plan lengths, parameters and rational times: for every plan whose instances are instantaneous or of "
                   "fixed duration with the declared durations, back(forward(plan)) succeeds and is a permutation of plan "
                   "(C29_inverse_fixed; forward is then exactly one start event per instance, C29_forward_fixed_shape); every compiled "
                   "end event of any forward plan lies strictly after the start and not after the end of an instance of its "
                   "variable-duration action with the same parameters (C29_end_inside), every instance is started exactly once at "
                   "its start time (C29_forward_starts), and forward is total on plans long enough for their first end-relative "
                   "timing (C29_forward_total, C29_endDelay_nonpos). Extra: the round trip also holds with variable durations when "
                   "instances of one (action, parameters) are strictly separated (C29_inverse_variable_partial); without that proviso "
                   "it is refuted on a concrete witness (C29_inverse_variable_full_refuted; outside this property's quantifier). "
                   "The model is tied to the code by a differential check of both conversions on generated problems/plans "
                   "(including adversarial compiled plans for the back conversion) and by a direct oracle of the property on the real code."),
    "level_note": ("Trusted: Lean kernel; axioms propext, Classical.choice, Quot.sound; the correspondence harness. Modelled not verified: "
                   "Simplifier/Substituter on duration bounds (model uses the bound's exact value), fresh-name injectivity of the "
                   "compiled-action dictionaries, dict order, sorted() stability, Fraction. Reading decisions: multiset equality; "
                   "durations as declared; 'inside' = (start, start+duration]."),
    "technique": "Lean 4 proof over an executable model + model/code correspondence",
    "design_ref": "DESIGN.md §5 C29",
}
