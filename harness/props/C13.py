"""C13 — Substitution replaces exactly the free occurrences of its keys (Substituter.substitute)."""
import hashlib
import random
import warnings

warnings.simplefilter("ignore")
from unified_planning.exceptions import UPTypeError

import pyden
import sexp
import upx
from upx import Ctx, ExprGen, enc_expr

ID = "C13"
GEN = []
CORR_NAME = "substitute-output"
RULE = ("4 of 5 cases are single calls on a fresh environment, every 5th is a HISTORY (see the end). One single case = (expression, ordered map of (key, value, verdict of key.type.is_compatible(value.type) on the real types)). "
        "Expressions: 55% from the shared typed grammar (upx.ExprGen: connectives with nested same-operator nodes, raw double "
        "negations, arithmetic with huge constants, comparisons, equalities over related user types, quantifiers over T/S/U/E) "
        "extended with fluents over a bounded integer parameter (h, hb); 38% built around a quantifier whose variable is used "
        "(optionally a nested binder over the same variable, or a copy of a body literal beside the quantifier = free occurrences "
        "of its variable); 30% of the quantified ones get a copy of a quantifier body beside them, 15% have their variables "
        "renamed into a two-name pool (shadowing). Keys: whole quantified subformulas, fluent applications / parameters / "
        "variables occurring in the expression, compound subterms, subterms of other keys or values (nested keys), the image of "
        "a subterm under the pairs chosen so far (must not be substituted again), the expression itself, keys absent from the "
        "expression. Values: generated at the key's real type (retried until compatible), 30% over the bound variables of the "
        "expression (capture), 20% containing another key, 25% constants (grounding style); 13% of the maps get one value of a "
        "wrong type (malformed stream), 2% are empty. Planted: 4% a compound key whose interior cannot be rebuilt (D-C13a), 3% a "
        "simple key active under a binder whose value mentions the bound variable (F-C13-capture). Non-trivial = the map was "
        "rejected, or the result differs from the input. "
        "HISTORY = 2-5 calls run in order on the shared substituter of ONE environment (alternately through FNode.substitute and "
        "env.substituter.substitute); the oracle is evaluated on every call (= the last call of each prefix), the model (the "
        "stack-and-cache machine Dag.Env.run started fresh) answers every call. Steps: a fresh single case; an earlier call "
        "repeated verbatim; an earlier expression with a new map; a new expression built from 1-2 Boolean sub-terms of earlier "
        "expressions (as it is, negated, beside each other or beside fresh material, in either order), its map drawn with 60% "
        "priority per pair over the keys of the earlier maps (other values); a call that PASSES the up-front type check and raises "
        "half-way through the rebuild — a trap atom (hb(K) / h(K) in a comparison with K:int[0,10] or int[3,7] mapped to a "
        "parameter/constant/sum whose interval overlaps K's but not the fluent parameter's int[0,5]; or a division whose divisor "
        "key is mapped to 0), possibly negated or inside a connective, placed first (50%) or anywhere among sub-terms shared with "
        "the history, which the walker rewrites and caches before it reaches the trap; 45% of the histories start with such a call, "
        "25% of the later steps are one, and the step after one shares sub-terms with it with probability 0.7. Non-trivial history = "
        "a call after the first is non-trivial and the history repeats a call, or follows a failed walk, or rewrites a shared "
        "sub-term (outside quantifier bodies) differently in two calls.")
ASSUMPTIONS = ["keys and values are FNodes of the expression's environment (auto_promote of Python constants/Fluent objects is not exercised)",
               "the map is a dict: keys are pairwise distinct",
               "the property presupposes that its result exists: of a call whose top-down result contains a node the library's type "
               "checker rejects (interval types are compatible when they overlap, which is not transitive; division by the constant "
               "0; float overflow in the checker's bound arithmetic, D-C15c) nothing is demanded but that it raises. Such calls are "
               "not generated as single cases; inside histories they ARE made (they are how the shared substituter is left "
               "half-way): the nodes the real expression manager refuses are measured on a scratch environment and given to the "
               "model as an input table, like the is_compatible verdicts — typing is C15's subject",
               "histories keep out of the territory of the open finding F-C13-capture (no call of a history has a value with a "
               "free variable bound over an active occurrence of its key): every failure in a history is reported",
               "the expression with each key replaced is read modulo the expression manager's constructors, through which every "
               "rebuilt node goes (And/Or/Plus/Times of 0/1 arguments, double negation): the oracle compares normal forms, the "
               "correspondence compares the exact output",
               "semantic clause (DESIGN 2.11): checked for maps whose keys are parameters, variables or fluent applications with "
               "constant arguments, when every other application of a keyed fluent in the expression differs from the key in a "
               "constant argument, and the values of variable keys are defined",
               "objects are identified by name (one declared type per name); parameters by name (one type per name)"]
MODELLED = ["modelled by hand (tied by correspondence): Substituter.substitute/_push_with_children_to_stack/walk_replace_or_identity, "
            "IdentityDagWalker.walk_* with the ExpressionManager n-ary/Not normalisations, FreeVarsOracle; dict as duplicate-free "
            "association list; for single calls the DagWalker stack/memo machine as the pure recursion it computes, for histories "
            "the machine itself (Core/DagWalker.lean, shared with C14: walk/iter_walk/_process_stack, the one-time cache keyed by "
            "the node only, the try/finally of walk, Substituter's _push_with_children_to_stack with a new Substituter for "
            "quantifier bodies, the pre-check of substitute) run over the whole history; is_compatible verdicts and the set of "
            "nodes create_node refuses are inputs of the model (C15 models typing)"]
EXTRA_PROPS = ["UPVerif.Props.C13History"]
BUDGET_S = {"quick": 45, "thorough": 500}

TYPES = [list(t) for t in ExprGen.TYPES]
OBJ_BY_TYPE = {"T": ["t1", "t2", "s1", "s2"], "S": ["s1", "s2"], "U": ["u1"], "E": []}
U = lambda n: ["user", n]
INT, REAL = ExprGen.INT, ExprGen.REAL
I05 = ["int", "0", "5"]
H = ["h", INT, [I05]]
HB = ["hb", "bool", [I05]]
XB = ["fl", ["xb", ["int", "0", "10"], []]]
PK = ["p", "pk", ["int", "8", "20"]]
PK3 = ["p", "pk3", ["int", "0", "3"]]
LEAVES = ("b", "i", "r", "o", "p", "v", "timing", "present")
QUANT = ("exists", "forall")
K = sexp.dumps


# ---------------------------------------------------------------------------------------------------
# s-expression helpers (reference notions written from the property text; independent of the Lean model)
# ---------------------------------------------------------------------------------------------------

def children(e):
    h = e[0]
    if h in LEAVES:
        return []
    if h in ("fl", "ifun"):
        return e[2:]
    if h == "dot":
        return [e[2]]
    if h in QUANT:
        return [e[2]]
    return e[1:]


def with_children(e, cs):
    h = e[0]
    if h in LEAVES:
        return e
    if h in ("fl", "ifun"):
        return [h, e[1]] + list(cs)
    if h == "dot":
        return [h, e[1], cs[0]]
    if h in QUANT:
        return [h, e[1], cs[0]]
    return [h] + list(cs)


def bound_of(e):
    return set((n, K(t)) for n, t in e[1])


def free_vars(e):
    h = e[0]
    if h == "v":
        return {(e[1], K(e[2]))}
    if h in QUANT:
        return free_vars(e[2]) - bound_of(e)
    out = set()
    for c in children(e):
        out |= free_vars(c)
    return out


def subterms(e, scope=()):
    """(subterm, variables bound above it) for every node, pre-order"""
    yield e, scope
    sc = scope
    if e[0] in QUANT:
        sc = tuple(scope) + tuple((n, t) for n, t in e[1])
    for c in children(e):
        yield from subterms(c, sc)


def ref_subst(e, pairs):
    """The property's own reading: top-down, a maximal occurrence of a key is replaced by its value as a
    whole (nothing is substituted inside the inserted value); below a quantifier the pairs whose key mentions
    a variable bound there are inactive."""
    for k, v in pairs:
        if k == e:
            return v
    if e[0] in QUANT:
        b = bound_of(e)
        return [e[0], e[1], ref_subst(e[2], [(k, v) for k, v in pairs if not (free_vars(k) & b)])]
    return with_children(e, [ref_subst(c, pairs) for c in children(e)])


def nf(e):
    """normal form for the expression manager's constructors"""
    h = e[0]
    if h in LEAVES:
        return e
    cs = [nf(c) for c in children(e)]
    if h in ("and", "or", "plus", "times"):
        if not cs:
            return {"and": ["b", "T"], "or": ["b", "F"], "plus": ["i", "0"], "times": ["i", "1"]}[h]
        if len(cs) == 1:
            return cs[0]
    if h == "not" and len(cs) == 1 and cs[0][0] == "not":
        return cs[0][1]
    return with_children(e, cs)


def is_const(e):
    return e[0] in ("b", "i", "r", "o")


def simple_key(k):
    return k[0] in ("p", "v") or (k[0] == "fl" and all(is_const(a) for a in k[2:]))


def const_val(c):
    return pyden.den(c, {"fl": {}, "fn": {}, "par": {}, "dom": {}})


def captures(e, pairs):
    """some value has a free variable bound by a quantifier of `e` in whose body its key is still active and occurs"""
    for q, _ in subterms(e):
        if q[0] in QUANT:
            b = bound_of(q)
            for k, v in pairs:
                if (free_vars(v) & b) and not (free_vars(k) & b) and any(t == k for t, _ in subterms(q[2])):
                    return True
    return False


# ---------------------------------------------------------------------------------------------------
# generator
# ---------------------------------------------------------------------------------------------------

class Gen13(ExprGen):
    def __init__(self, rng, **kw):
        super().__init__(rng, **kw)
        self.int_fl = self.int_fl + [H]
        self.bool_fl = self.bool_fl + [HB]

    def fl_app(self, ref, scope):
        if ref[2] == [I05]:
            r = self.rng.random()
            a = XB if r < 0.5 else PK3 if r < 0.7 else ["i", str(self.rng.randint(0, 5))]
            return ["fl", ref, a]
        return ExprGen.fl_app(self, ref, scope)


def type_info(c, s):
    """(kind, detail) of the real type of an s-expression built in the scratch context"""
    t = c.expr(s).type
    if t.is_bool_type():
        return ("bool", None)
    if t.is_int_type():
        return ("int", t)
    if t.is_real_type():
        return ("real", t)
    if t.is_user_type():
        return ("user", t.name)
    return ("other", None)


def gen_value(rng, g, kind, detail, scope, depth):
    if kind == "bool":
        return g.boolean(depth, scope)
    if kind == "int":
        return g.num(depth, scope, real_ok=False)
    if kind == "real":
        return g.num(depth, scope, real_ok=rng.random() < 0.7)
    if kind == "user":
        ty = detail
        if ty == "T" and rng.random() < 0.4:
            ty = "S"
        return g.obj_of(ty, scope)
    return None


def wrong_value(rng, g, kind, detail, scope):
    """a value of a type the key's type does not accept (malformed stream)"""
    if kind == "bool":
        return rng.choice([g.num(1, scope), g.obj_of("T", scope)])
    if kind in ("int", "real"):
        c = [g.boolean(1, scope), g.obj_of("S", scope)]
        if kind == "int":
            c.append(["r", "1/2"])
            c.append(["fl", ["z", REAL, []]])
        return rng.choice(c)
    other = {"T": ["U"], "S": ["U", "T"], "U": ["T", "S"], "E": ["T"]}[detail]
    return rng.choice([g.obj_of(rng.choice(other), ()), g.boolean(0, scope), ["i", "1"]])


def rename_shadow(e, rng):
    """rename quantified variables into a two-name pool per type (nested binders then shadow each other);
    binder lists keep pairwise distinct variables"""
    def go(x, ren):
        h = x[0]
        if h == "v":
            return ["v", ren.get((x[1], K(x[2])), x[1]), x[2]]
        if h in QUANT:
            r2, vs, used = dict(ren), [], set()
            for n, t in x[1]:
                nn = "q" + str(rng.randrange(2))
                if (nn, K(t)) in used:
                    nn = n
                used.add((nn, K(t)))
                r2[(n, K(t))] = nn
                vs.append([nn, t])
            return [h, vs, go(x[2], r2)]
        return with_children(x, [go(c, ren) for c in children(x)])
    return go(e, {})


def planted_interior(rng, g):
    """D-C13a: a compound key whose interior cannot be rebuilt under the map although the key is replaced as a whole"""
    inner = ["fl", rng.choice([H, HB]), XB]
    if inner[1] is H:
        key = [rng.choice(["le", "lt", "eq"]), inner, ["i", str(rng.randint(0, 9))]]
        if rng.random() < 0.4:
            key = ["not", key]
    else:
        key = [rng.choice(["and", "or", "implies"]), inner, g.boolean(1)]
    e = [rng.choice(["and", "or"]), key, g.boolean(1)]
    if rng.random() < 0.3:
        e = ["not", e]
    if rng.random() < 0.3:
        e = ["forall", [["w1", U("S")]], ["or", e, ["fl", ["bs", "bool", [U("S")]], ["v", "w1", U("S")]]]]
    val = rng.choice([PK, ["i", "9"], ["plus", XB, ["i", "6"]]])
    pairs = [(key, g.boolean(rng.choice([0, 1]))), (XB, val)]
    if rng.random() < 0.5:
        pairs.reverse()
    return e, pairs


BQ = ["bq", "bool", [U("T")]]
BS = ["bs", "bool", [U("S")]]
OWN = ["own", U("T"), [U("S")]]


def quant_rich(rng, g, depth):
    """an expression built around a quantifier whose variable is really used, optionally with a copy of the body
    beside it (free occurrences of the variable) or a nested binder"""
    g.fresh += 1
    tyn = rng.choice(["T", "S", "S", "U"])
    name = f"q{g.fresh}"
    var = ["v", name, U(tyn)]
    sc = ((name, U(tyn)),)
    lits = [["eq", var, g.obj_of(tyn, ())], ["eq", g.obj_of(tyn, ()), var]]
    if tyn in ("T", "S"):
        lits += [["fl", BQ, var], ["fl", BQ, var], ["le", ["fl", ["xq", ["int", "-5", "5"], [U("T")]], var], g.num(0)]]
    if tyn == "S":
        lits += [["fl", BS, var], ["eq", ["fl", OWN, var], g.obj_of("T", sc)]]
    parts = [rng.choice(lits) for _ in range(rng.choice([1, 1, 2]))] + [g.boolean(max(depth - 1, 0), sc)]
    rng.shuffle(parts)
    body = [rng.choice(["and", "or"])] + parts if rng.random() < 0.85 else ["implies", parts[0], parts[-1]]
    if rng.random() < 0.2:     # nested binder, sometimes over the same variable
        g.fresh += 1
        n2 = name if rng.random() < 0.4 else f"q{g.fresh}"
        body = [body[0], [rng.choice(QUANT), [[n2, U(tyn)]], [rng.choice(["and", "or"]), rng.choice(lits), ["fl", BQ if tyn != "U" else ["b1", "bool", []]] + ([["v", n2, U(tyn)]] if tyn != "U" else [])]]] + body[1:] \
            if body[0] in ("and", "or") else body
    q = [rng.choice(QUANT), [[name, U(tyn)]], body]
    r = rng.random()
    if r < 0.25:
        return q
    if r < 0.5:
        return [rng.choice(["and", "or"]), q, g.boolean(max(depth - 1, 0))]
    if r < 0.8:
        return [rng.choice(["and", "or"]), rng.choice(parts), q] if rng.random() < 0.5 else ["implies", body, q]
    return ["not", q] if rng.random() < 0.5 else ["iff", q, g.boolean(1)]


def planted_capture(rng, g):
    """F-C13-capture: a simple key stays active under a binder while its value mentions the bound variable"""
    tyn = rng.choice(["T", "S"])
    g.fresh += 1
    name = f"q{g.fresh}"
    var = ["v", name, U(tyn)]
    k = rng.choice([["fl", ["b0", "bool", []]], ["p", "pb", "bool"], ["fl", BQ, ["o", "t1", "T"]],
                    ["fl", ["at", U("T"), []]], ["p", "pt", U("T")]])
    if k[0] == "p" and k[2] == "bool" or (k[0] == "fl" and k[1][1] == "bool"):
        v = rng.choice([["fl", BQ, var], ["not", ["fl", BQ, var]], ["eq", var, ["o", "s1", "S"]]])
        occ = k
    else:
        v = var if rng.random() < 0.7 or tyn == "T" else ["fl", OWN, var]
        occ = rng.choice([["fl", BQ, k], ["eq", k, ["o", "s2", "S"]]])
    body = [rng.choice(["and", "or"]), ["fl", BQ, var], occ]
    if rng.random() < 0.5:
        body = [body[0], body[2], body[1]]
    q = [rng.choice(QUANT), [[name, U(tyn)]], body]
    e = q if rng.random() < 0.5 else [rng.choice(["and", "or"]), q, occ]
    pairs = [(k, v)]
    if rng.random() < 0.3:
        pairs.append((["fl", ["b1", "bool", []]], g.boolean(0)))
    return e, pairs


def make_case(rng, g):
    """returns (e, [(k, v)]) or None"""
    r0 = rng.random()
    if r0 < 0.04:
        return planted_interior(rng, g)
    if r0 < 0.07:
        return planted_capture(rng, g)
    depth = rng.choice([1, 2, 2, 3, 3, 4])
    if r0 < 0.45:
        e = quant_rich(rng, g, min(depth, 3))
    else:
        e = g.boolean(depth) if rng.random() < 0.85 else g.num(depth)
    boolean = e[0] in ("and", "or", "not", "implies", "iff", "le", "lt", "eq", "exists", "forall", "b") or \
        (e[0] == "fl" and e[1][1] == "bool") or (e[0] == "p" and e[2] == "bool")
    qs = [t for t, _ in subterms(e) if t[0] in QUANT]
    if boolean and qs and rng.random() < 0.3:
        q = rng.choice(qs)
        e = [rng.choice(["and", "or"]), e, q[2]] if rng.random() < 0.5 else [rng.choice(["and", "or"]), q[2], e]
    if qs and rng.random() < 0.15:
        e = rename_shadow(e, rng)
    pairs = make_pairs(rng, g, e)
    if pairs is None:
        return None
    return e, pairs


def make_pairs(rng, g, e, prefer=(), c=None):
    """an ordered map for `e` (see RULE); `prefer`: keys of earlier calls of a history, drawn with priority so that
    consecutive calls rewrite shared sub-terms differently.  Returns None when no pair could be made."""
    subs = list(subterms(e))
    qs = [t for t, _ in subs if t[0] in QUANT]
    bound_all = []
    for t, _ in subs:
        if t[0] in QUANT:
            for n, ty in t[1]:
                if (n, ty) not in bound_all:
                    bound_all.append((n, ty))
    atoms = [t for t, _ in subs if t[0] in ("fl", "p", "v")]
    compound = [t for t, _ in subs if t[0] not in LEAVES]
    npairs = rng.choice([1, 1, 1, 2, 2, 2, 3, 3, 4]) if rng.random() > 0.02 else 0
    if c is None:
        c = Ctx(TYPES)
    c.expr(e)
    pairs = []
    malformed = rng.random() < 0.13
    bad_at = rng.randrange(max(npairs, 1))
    prefer = [k for k in prefer if any(t == k for t, _ in subs)]
    for i in range(npairs):
        r = rng.random()
        k = None
        if prefer and rng.random() < 0.6:
            k = rng.choice(prefer)
        elif r < 0.1 and qs:
            k = rng.choice(qs)
        elif r < 0.38 and atoms:
            k = rng.choice(atoms)
        elif r < 0.72 and compound:
            k = rng.choice(compound)
        elif r < 0.80 and pairs:
            src = rng.choice(pairs)[rng.randrange(2)]
            inner = [t for t, _ in subterms(src)]
            k = rng.choice(inner)
        elif r < 0.86 and pairs and compound:
            # a key equal to what a subterm BECOMES under the pairs chosen so far (must not be substituted again)
            t = rng.choice(compound)
            k = ref_subst(t, pairs)
            if k == t:
                k = nf(k) if nf(k) != t else None
        elif r < 0.9:
            k = e
        else:
            k = rng.choice([g.boolean(1), ["fl", ["b2", "bool", []]], ["fl", ["y", INT, []]], ["p", "pt", U("T")],
                            ["fl", ["bq", "bool", [U("T")]], ["o", "t1", "T"]]])
        if k is None or any(k == k2 for k2, _ in pairs):
            continue
        kind, detail = type_info(c, k)
        if kind == "other":
            continue
        scope = tuple(bound_all) if (bound_all and rng.random() < 0.3) else ()
        if malformed and i == bad_at:
            v = wrong_value(rng, g, kind, detail, scope)
        else:
            v = None
            for _ in range(6):
                rr = rng.random()
                if rr < 0.2 and pairs:      # a value that contains (or is) another key
                    other = rng.choice(pairs)[0]
                    ok2, _d = type_info(c, other)
                    if ok2 == kind or (ok2, kind) == ("int", "real"):
                        cand = other if rng.random() < 0.4 or kind == "user" else \
                            (["and", other, g.boolean(0, scope)] if kind == "bool" else ["plus", other, ["i", "1"]])
                    else:
                        cand = gen_value(rng, g, kind, detail, scope, rng.choice([0, 0, 1, 2]))
                elif rr < 0.45:             # grounding style: a constant
                    cand = gen_value(rng, ExprGen(rng, params=False), kind, detail, (), 0)
                    if cand is not None and cand[0] == "fl":
                        cand = gen_value(rng, g, kind, detail, scope, 0)
                else:
                    cand = gen_value(rng, g, kind, detail, scope, rng.choice([0, 0, 1, 2]))
                if cand is None:
                    continue
                v = cand
                if c.expr(k).type.is_compatible(c.expr(cand).type):
                    break
        if v is None:
            continue
        pairs.append((k, v))
    if npairs > 0 and not pairs:
        return None
    return pairs


# ---------------------------------------------------------------------------------------------------
# histories: several calls on the shared substituter of ONE environment
# ---------------------------------------------------------------------------------------------------

PM = ["p", "pm", ["int", "3", "7"]]
PN = ["p", "pn", ["int", "6", "9"]]
BOOL_HEADS = ("and", "or", "not", "implies", "iff", "le", "lt", "eq", "exists", "forall", "b")


def is_bool(e):
    return e[0] in BOOL_HEADS or (e[0] == "fl" and e[1][1] == "bool") or (e[0] == "p" and e[2] == "bool")


def outer_subterms(e):
    """sub-terms not below a quantifier (quantifier bodies are walked by a Substituter of their own)"""
    yield e
    if e[0] not in QUANT:
        for c in children(e):
            yield from outer_subterms(c)


class Refused(Exception):
    def __init__(self, node):
        Exception.__init__(self)
        self.node = node


def mk_node(e, cs):
    """the node the expression manager's constructor returns for `e`'s operator on new children"""
    h = e[0]
    if h in ("and", "or", "plus", "times"):
        if not cs:
            return {"and": ["b", "T"], "or": ["b", "F"], "plus": ["i", "0"], "times": ["i", "1"]}[h]
        if len(cs) == 1:
            return cs[0]
    if h == "not" and len(cs) == 1 and cs[0][0] == "not" and len(cs[0]) == 2:
        return cs[0][1]
    return with_children(e, cs)


def measure_refused(c, e, pairs):
    """Which node does the REAL expression manager (scratch context `c`) refuse when the top-down result is built
    node by node, later-listed children first?  Raises Refused(node) at the first one; returns the result otherwise.
    This measures an input table of the model (like the is_compatible verdicts): typing is C15's subject."""
    for k, v in pairs:
        if k == e:
            return v
    h = e[0]
    if h in LEAVES:
        return e
    if h in QUANT:
        b = bound_of(e)
        kept = [(k, v) for k, v in pairs if not (free_vars(k) & b)]
        n = [h, e[1], measure_refused(c, e[2], kept) if kept else e[2]]
    else:
        cs = [measure_refused(c, ch, pairs) for ch in reversed(children(e))][::-1]
        n = mk_node(e, cs)
    try:
        c.expr(n)
    except Exception:
        raise Refused(n)
    return n


def trap(rng, g):
    """(Boolean atom, key, value): the pair passes the up-front test `key.type.is_compatible(value.type)`, but the node
    around the key cannot be rebuilt with the value in the key's place"""
    r = rng.random()
    if r < 0.7:     # integer intervals are compatible when they overlap, which is not transitive
        key, vals = rng.choice([(XB, [PK, PN, ["i", "9"], ["i", "6"], ["plus", XB, ["i", "6"]]]),
                                (PM, [PN, ["i", "6"], ["i", "7"]])])
        if rng.random() < 0.5:
            return ["fl", HB, key], key, rng.choice(vals)
        op = rng.choice(["le", "lt", "eq"])
        a, b = ["fl", H, key], g.num(rng.choice([0, 0, 1]), real_ok=False)
        return ([op, a, b] if rng.random() < 0.6 else [op, b, a]), key, rng.choice(vals)
    # a divisor that becomes the constant 0
    key = rng.choice([["fl", ["x", INT, []]], ["fl", ["y", INT, []]], ["p", "pj", INT]])
    d = ["div", g.num(rng.choice([0, 1]), real_ok=False), key]
    if rng.random() < 0.3:
        d = ["plus", d, g.num(0)]
    return [rng.choice(["le", "lt"]), d, g.num(0)], key, ["i", "0"]


def shared_terms(rng, prev, n):
    """up to n Boolean sub-terms of earlier expressions of the history (compound ones preferred)"""
    cands = []
    for e in prev:
        for t in outer_subterms(e):
            if is_bool(t) and t[0] != "b" and t not in cands:
                cands.append(t)
    comp = [t for t in cands if t[0] not in LEAVES and t[0] != "fl"]
    out = []
    for _ in range(n):
        pool = comp if comp and rng.random() < 0.7 else cands
        if pool:
            out.append(rng.choice(pool))
    return out


def sharing_expr(rng, g, prev):
    """an expression that shares sub-terms with earlier expressions of the history"""
    ts = shared_terms(rng, prev, rng.choice([1, 1, 2]))
    if not ts:
        return g.boolean(2)
    r = rng.random()
    t = ts[0]
    if r < 0.15:
        return t
    if r < 0.3:
        return ["not", t]
    op = rng.choice(["and", "or"])
    if len(ts) == 2 and r < 0.55:
        args = [ts[0], ts[1]] + ([g.boolean(1)] if rng.random() < 0.4 else [])
    else:
        args = [t, g.boolean(rng.choice([0, 1, 2]))]
    rng.shuffle(args)
    if r > 0.9 and len(args) == 2:
        return [rng.choice(["implies", "iff"])] + args
    return [op] + args


def failing_expr(rng, g, prev):
    """an expression with a trap among sub-terms shared with the history; the walker visits later-listed children first,
    so whatever stands to the right of the trap has been rewritten (and cached) when the trap raises"""
    t, key, bad = trap(rng, g)
    r = rng.random()
    if r < 0.2:
        t = ["not", t]
    elif r < 0.35:
        t = [rng.choice(["and", "or"]), t, g.boolean(0)] if rng.random() < 0.5 else [rng.choice(["and", "or"]), g.boolean(0), t]
    others = shared_terms(rng, prev, rng.choice([1, 1, 2])) if prev else []
    while len(others) < 1 or (len(others) < 3 and rng.random() < 0.35):
        others.append(g.boolean(rng.choice([1, 1, 2])))
    pos = 0 if rng.random() < 0.5 else rng.randrange(len(others) + 1)
    args = others[:pos] + [t] + others[pos:]
    if len(args) == 2 and rng.random() < 0.2:
        return [rng.choice(["implies", "iff"])] + args, key, bad
    return [rng.choice(["and", "or"])] + args, key, bad


def make_history(rng, g):
    """[(e, pairs)]: 2-5 calls on one environment.  Kinds of step: a fresh case; the same call again; the same expression
    with a new map; a new expression sharing sub-terms with earlier ones, its map drawn with priority over the keys of the
    earlier maps (other values); a call that passes the type check of its map and raises half-way through the rebuild."""
    n = rng.choice([2, 2, 3, 3, 4, 5])
    c = Ctx(TYPES)
    calls, keys = [], []
    after_fail = False
    for i in range(n):
        prev = [e for e, _ in calls]
        if not calls:
            kind = "fail" if rng.random() < 0.45 else "fresh"
        elif after_fail:
            kind = rng.choices(["share-last", "newmap", "fresh", "fail", "repeat"], [70, 10, 8, 7, 5])[0]
        else:
            kind = rng.choices(["share", "fail", "newmap", "repeat", "fresh"], [40, 25, 15, 10, 10])[0]
        made = None
        if kind == "fail":
            e, key, bad = failing_expr(rng, g, prev)
            ps = make_pairs(rng, g, e, prefer=keys, c=c) or []
            ps = [(k, v) for k, v in ps if k != key]
            ps.insert(rng.randrange(len(ps) + 1), (key, bad))
            made = (e, ps)
        elif kind == "fresh":
            made = make_case(rng, g)
        elif kind == "repeat":
            made = rng.choice(calls)
        else:
            if kind == "newmap":
                e = rng.choice(prev)
            else:
                e = sharing_expr(rng, g, prev[-1:] if kind == "share-last" else prev[-2:] if rng.random() < 0.7 else prev)
            ps = make_pairs(rng, g, e, prefer=keys, c=c)
            made = None if ps is None else (e, ps)
        if made is None or captures(made[0], made[1]):
            continue
        calls.append(made)
        after_fail = kind == "fail"
        for k, _ in made[1]:
            if k not in keys and k[0] in ("fl", "p", "v", "not", "le", "lt", "eq", "and", "or"):
                keys.append(k)
    return calls if len(calls) >= 2 else None


def hist_payload(calls):
    """payload for a history; None when an input cannot be built, keys repeat, or a call is in the territory of the open
    finding F-C13-capture (single cases cover it; here every failure must be attributable to the history)"""
    c = Ctx(TYPES)
    rej, out = [], []
    for e, pairs in calls:
        if captures(e, pairs) or len(set(K(k) for k, _ in pairs)) != len(pairs):
            return None
        try:
            c.expr(e)
            vs, allok = [], True
            for k, v in pairs:
                ok = c.expr(k).type.is_compatible(c.expr(v).type)
                allok = allok and ok
                vs.append([k, v, "T" if ok else "F"])
        except Exception:
            return None
        if allok and pairs:
            try:
                measure_refused(c, e, pairs)
            except Refused as r:
                if r.node not in rej:
                    rej.append(r.node)
        out.append(["subst", e, vs])
    return ["hist", ["reject"] + rej] + out


def is_hist(payload):
    return payload[0] == "hist"


def calls_of(payload):
    return [(c[1], [(k, v) for k, v, _ in c[2]]) for c in payload[2:]]


def with_verdicts(e, pairs):
    """payload for (e, pairs); None when something cannot even be built, or when the top-down result does not exist"""
    c = Ctx(TYPES)
    try:
        c.expr(e)
        out = []
        allok = True
        for k, v in pairs:
            ok = c.expr(k).type.is_compatible(c.expr(v).type)
            allok = allok and ok
            out.append([k, v, "T" if ok else "F"])
        if allok and pairs:
            c.expr(ref_subst(e, pairs))
    except Exception:
        return None
    return ["subst", e, out]


def cases(rng, tier):
    """every 5th case is a history (its own random stream, so that the single-call stream does not depend on it)"""
    n = 1300 if tier == "quick" else 12000
    hrng = random.Random(rng.getrandbits(64))
    produced = 0
    attempts = 0
    while produced < n and attempts < 4 * n:
        attempts += 1
        if produced % 5 == 4:
            g = Gen13(hrng, big=hrng.random() < 0.25)
            try:
                made = make_history(hrng, g)
            except Exception:
                made = None
            p = None if made is None else hist_payload(made)
        else:
            g = Gen13(rng, big=rng.random() < 0.5)
            try:
                made = make_case(rng, g)
            except Exception:
                made = None   # an expression of the shared grammar the real constructors reject (huge constants: D-C15c)
            p = None if made is None else with_verdicts(*made)
        if p is None:
            continue
        produced += 1
        yield p


# ---------------------------------------------------------------------------------------------------
# real code
# ---------------------------------------------------------------------------------------------------

REJECT_MSG = "is not compatible with the given substitution"


def run_real(payload, c=None, via_node=True):
    """One call, on a fresh environment or (history) on the environment of `c`, through FNode.substitute or through
    env.substituter.substitute (the same shared object).
    -> (ctx, e, dict, outcome) with outcome ('ok', fnode) | ('reject', clean?) | ('error', name)"""
    if c is None:
        c = Ctx(TYPES)
    e = c.expr(payload[1])
    d = {}
    for k, v, _ in payload[2]:
        d[c.expr(k)] = c.expr(v)
    sub = c.env.substituter
    before = (len(c.em.expressions), list(sub.stack), dict(sub.memoization))
    try:
        r = e.substitute(d) if via_node else sub.substitute(e, d)
    except UPTypeError as ex:
        if REJECT_MSG in str(ex):
            # "rejected before anything changes": the shared walker and the expression table are as they were
            clean = before == (len(c.em.expressions), list(sub.stack), dict(sub.memoization))
            return c, e, d, ("reject", clean)
        return c, e, d, ("error", "UPTypeError-in-walk")
    except Exception as ex:
        return c, e, d, ("error", type(ex).__name__)
    return c, e, d, ("ok", r)


WALK_RAISES = ("UPTypeError-in-walk", "ZeroDivisionError", "OverflowError")   # what create_node's type check raises


def run_hist(payload):
    """all calls of a history in order on ONE environment -> (ctx, [(e, dict, outcome)])"""
    c = Ctx(TYPES)
    res = []
    for i, call in enumerate(payload[2:]):
        _, e, d, out = run_real(call, c=c, via_node=(i % 2 == 0))
        res.append((e, d, out))
    return c, res


def ans_of(out, in_history=False):
    if out[0] == "ok":
        return ["ok", enc_expr(out[1])]
    if out[0] == "reject":
        return "reject" if out[1] else ["reject", "dirty"]
    if in_history and out[1] in WALK_RAISES:
        return "undefined"
    return ["error", out[1]]


def impl(payload):
    if is_hist(payload):
        _, res = run_hist(payload)
        return ["hist"] + [ans_of(out, True) for _, _, out in res]
    _, _, _, out = run_real(payload)
    return ans_of(out)


def pairs_of(payload):
    return [(k, v) for k, v, _ in payload[2]]


def nontrivial(payload, ans):
    if is_hist(payload):
        # a later call of the history does something, and the history gives it something to be confused by
        later = any(nontrivial(c, a) for c, a in list(zip(payload[2:], ans[1:]))[1:])
        return later and bool(set(hist_tags(payload, ans)) & {"hist-shared-subterm-rewritten-differently", "hist-call-repeated",
                                                               "hist-call-after-failed-walk"})
    if ans == "reject":
        return True
    return isinstance(ans, list) and ans[0] == "ok" and ans[1] != payload[1]


def hist_tags(payload, ans):
    calls = calls_of(payload)
    t = ["history", f"hist-calls={len(calls)}"]
    answers = ans[1:] if isinstance(ans, list) else []
    failed = [i for i, a in enumerate(answers) if a == "undefined"]
    if failed:
        t.append("hist-has-failed-walk")
    if any(a == "reject" for a in answers):
        t.append("hist-has-rejected-map")
    if any(i + 1 < len(answers) for i in failed):
        t.append("hist-call-after-failed-walk")
    if any(calls[i] == calls[j] for i in range(len(calls)) for j in range(i)):
        t.append("hist-call-repeated")
    outer = [[x for x in outer_subterms(e)] for e, _ in calls]
    diff = stale = False
    for j in range(1, len(calls)):
        for i in range(j):
            if not calls[i][1] or not calls[j][1]:
                continue
            for x in outer[i]:
                if x[0] not in ("b", "i", "r", "o") and x in outer[j] and ref_subst(x, calls[i][1]) != ref_subst(x, calls[j][1]):
                    diff = True
                    if i in failed and all(answers[m] in ("undefined", "reject") for m in range(i, j)):
                        stale = True
                    break
    if diff:
        t.append("hist-shared-subterm-rewritten-differently")
    if stale:
        t.append("hist-shared-subterm-rewritten-differently-right-after-failed-walk")
    return t


def stats(payload, ans):
    if is_hist(payload):
        return hist_tags(payload, ans)
    e, pairs = payload[1], pairs_of(payload)
    t = [f"pairs={min(len(pairs), 4)}"]
    if ans == "reject":
        t.append("reject")
    elif isinstance(ans, list) and ans[0] == "ok":
        t.append("changed" if ans[1] != e else "unchanged")
        if pairs and ans[1] != ref_subst(e, pairs):
            t.append("manager-normalisation-visible")
    else:
        t.append("error")
    if any(k[0] not in LEAVES and k[0] != "fl" for k, _ in pairs):
        t.append("compound-key")
    if any(k[0] in QUANT for k, _ in pairs):
        t.append("quantifier-key")
    if any(k[0] == "v" for k, _ in pairs):
        t.append("variable-key")
    ks = [k for k, _ in pairs]
    if any(a is not b and any(t2 == a for t2, _ in subterms(b)) for a in ks for b in ks):
        t.append("nested-keys")
    if any(any(t2 == k for t2, _ in subterms(v)) for k in ks for _, v in pairs):
        t.append("value-contains-key")
    for q, _ in subterms(e):
        if q[0] in QUANT and any((free_vars(k) & bound_of(q)) and any(t2 == k for t2, _ in subterms(q[2])) for k in ks):
            t.append("key-inactive-under-binder")
            break
    if captures(e, pairs):
        t.append("value-captured")
    if pairs and all(simple_key(k) for k in ks):
        t.append("simple-keys")
    if ans != "reject" and semantic_domain(e, pairs):
        t.append("semantic-clause-evaluated")
    return t


# ---------------------------------------------------------------------------------------------------
# oracle: the property's statement on the real code
# ---------------------------------------------------------------------------------------------------

def semantic_domain(e, pairs):
    """the maps for which the semantic clause is claimed (ASSUMPTIONS)"""
    if not pairs or not all(simple_key(k) for k, _ in pairs):
        return False
    fkeys = [k for k, _ in pairs if k[0] == "fl"]
    apps = [t for t, _ in subterms(e) if t[0] == "fl"] + fkeys
    for k in fkeys:
        for a in apps:
            if a[1] == k[1] and a != k:
                if len(a) == len(k) and not any(is_const(x) and is_const(y) and const_val(x) != const_val(y)
                                                for x, y in zip(a[2:], k[2:])):
                    return False
    pnames = {}
    for t, _ in list(subterms(e)) + [(k, ()) for k, _ in pairs]:
        if t[0] == "p":
            if pnames.setdefault(t[1], K(t[2])) != K(t[2]):
                return False
    return True


def semantic_check(e, pairs, result, rng):
    names = upx.free_names(["and", e, result] + [k for k, _ in pairs] + [v for _, v in pairs])
    fv = set()
    for x in [e, result] + [k for k, _ in pairs] + [v for _, v in pairs]:
        fv |= free_vars(x)
    for trial in range(3):
        I = pyden.random_interp(rng, names, OBJ_BY_TYPE, defined=1.0 if trial < 2 else 0.85)
        rho = {}
        for n, tk in sorted(fv):
            ty = sexp.loads(tk)
            dom = OBJ_BY_TYPE.get(ty[1], []) if ty[0] == "user" else []
            if dom and rng.random() < 0.9:
                rho[(n, tk)] = ("o", rng.choice(dom))
        I2 = {"fl": dict(I["fl"]), "fn": I["fn"], "par": dict(I["par"]), "dom": I["dom"]}
        rho2 = dict(rho)
        skip = False
        for k, v in pairs:
            val = pyden.den(v, I, rho)
            if k[0] == "p":
                if val is None:
                    I2["par"].pop(k[1], None)
                else:
                    I2["par"][k[1]] = val
            elif k[0] == "v":
                if val is None:
                    skip = True
                else:
                    rho2[(k[1], K(k[2]))] = val
            else:
                key = (K(k[1]), tuple(const_val(a) for a in k[2:]))
                if val is None:
                    I2["fl"].pop(key, None)
                else:
                    I2["fl"][key] = val
        if skip:
            continue
        try:
            lhs = pyden.den(result, I, rho)
            rhs = pyden.den(e, I2, rho2)
        except OverflowError:
            continue
        if lhs != rhs:
            return (f"semantic clause: result evaluates to {pyden.val_sexp(lhs)} but the original under the updated "
                    f"interpretation to {pyden.val_sexp(rhs)}")
    return None


def oracle(payload):
    """The property on the real code.  For a history: the property is a statement about the result of a call, so it is
    evaluated on every call of the history as run, in order, on ONE environment (each call is the last call of a prefix)."""
    rng = random.Random(int(hashlib.sha1(K(payload).encode()).hexdigest()[:8], 16))
    if is_hist(payload):
        try:
            _, res = run_hist(payload)
        except Exception:
            return None
        n = len(res)
        for i, ((fe, d, out), (e, pairs)) in enumerate(zip(res, calls_of(payload))):
            v = oracle_call(e, pairs, fe, d, out, rng)
            if v:
                return f"call {i + 1} of {n} on one environment: {v}"
        return None
    try:
        c, fe, d, out = run_real(payload)
    except Exception:
        return None     # the inputs themselves are rejected by the real constructors: not a case of this property
    return oracle_call(payload[1], pairs_of(payload), fe, d, out, rng)


def oracle_call(e, pairs, fe, d, out, rng):
    """the property's clauses for ONE call: `fe.substitute(d)` had the outcome `out`"""
    if len(d) != len(pairs):
        return None
    compat = [k.type.is_compatible(v.type) for k, v in d.items()]
    if not pairs:
        return None if (out[0] == "ok" and out[1] is fe) else "empty map: the expression itself is not returned"
    if not all(compat):
        if out[0] != "reject":
            return "a map with an incompatible pair was not rejected"
        if not out[1]:
            return "rejection happened after something changed (substituter stack/memo or new expressions)"
        return None
    if out[0] == "reject":
        return "a type-compatible map was rejected"
    ref = ref_subst(e, pairs)
    if out[0] == "error":
        try:
            Ctx(TYPES).expr(ref)
        except Exception:
            return None  # the result does not exist as a well-typed expression (ASSUMPTIONS)
        return f"substitute raised {out[1]} although the top-down result is a well-formed expression"
    res = enc_expr(out[1])
    if nf(res) != nf(ref):
        return "result is not the expression with each maximal free key occurrence replaced (top-down, no re-substitution)"
    if semantic_domain(e, pairs):
        return semantic_check(e, pairs, res, rng)
    return None


def known_cause(payload):
    if is_hist(payload):
        return None     # histories keep out of the finding's territory (hist_payload)
    if captures(payload[1], pairs_of(payload)):
        return "F-C13-capture"
    return None


def shrink_hist(payload):
    calls = calls_of(payload)
    cands = []
    for i in range(len(calls)):
        if len(calls) > 1:
            cands.append(calls[:i] + calls[i + 1:])
    for i, (e, pairs) in enumerate(calls):
        for j in range(len(pairs)):
            cands.append(calls[:i] + [(e, pairs[:j] + pairs[j + 1:])] + calls[i + 1:])
        for ch in children(e):
            if is_bool(ch) == is_bool(e):
                cands.append(calls[:i] + [(ch, pairs)] + calls[i + 1:])
        if e[0] in ("and", "or", "plus", "times") and len(e) > 3:
            for j in range(1, len(e)):
                cands.append(calls[:i] + [(e[:j] + e[j + 1:], pairs)] + calls[i + 1:])
        for j, (k, v) in enumerate(pairs):
            for ch in children(v):
                cands.append(calls[:i] + [(e, pairs[:j] + [(k, ch)] + pairs[j + 1:])] + calls[i + 1:])
    for cs in cands:
        p = hist_payload(cs)
        if p is not None:
            yield p


def shrink(payload):
    if is_hist(payload):
        yield from shrink_hist(payload)
        return
    e, pairs = payload[1], pairs_of(payload)
    cands = []
    for i in range(len(pairs)):
        cands.append((e, pairs[:i] + pairs[i + 1:]))
    for ch in children(e):
        cands.append((ch, pairs))
    for i, ch in enumerate(children(e)):
        for gc in children(ch):
            cs = list(children(e))
            cs[i] = gc
            cands.append((with_children(e, cs), pairs))
    if e[0] in ("and", "or", "plus", "times") and len(e) > 3:
        for i in range(1, len(e)):
            cands.append((e[:i] + e[i + 1:], pairs))
    for i, (k, v) in enumerate(pairs):
        for ch in children(v):
            cands.append((e, pairs[:i] + [(k, ch)] + pairs[i + 1:]))
    for e2, p2 in cands:
        p = with_verdicts(e2, p2)
        if p is not None:
            yield p


MANIFEST = {
    "level_text": ("Lean 4 theorems (Props/C13.lean) about the executable model of Substituter.substitute, for all expressions and maps: "
                   "the walker equals the declarative top-down replacement relation (maximal key occurrences, binder rule, values "
                   "inserted verbatim), rejects before walking iff some pair is incompatible, and — for maps whose keys are parameters, "
                   "variables or fluent applications with constant arguments, under the stated decidable side conditions and in the "
                   "absence of variable capture — the result denotes what the original denotes under the interpretation updated by "
                   "the map. The capture case is a known finding (kernel-checked counterexample). Props/C13History.lean "
                   "states the same clauses for the last call of ANY history of calls on the environment's shared substituter, run on the "
                   "model of the stack-and-cache machine (earlier calls may have returned, been rejected, or raised half-way at a node "
                   "the expression manager refuses): the answer is the one computed from the call's own arguments, a rejected map leaves "
                   "the machine exactly as it was, and the machine that clears its cache only after successful walks is refuted on a "
                   "kernel-checked two-call history. The model is tied to the code by a "
                   "differential correspondence on the exact produced expression (single calls on fresh environments and histories of "
                   "calls on one environment) plus a direct oracle of the property on the real class, evaluated on every call."),
    "level_note": ("Partial: semantic clause proved only without capture of free variables of values (open finding F-C13-capture). "
                   "Trusted: Lean kernel; axioms propext, Classical.choice, Quot.sound; the correspondence harness. Modelled not "
                   "verified: dict semantics, the DagWalker machine (C14), typing of rebuilt nodes and is_compatible (C15)."),
    "technique": "Lean 4 proof about an executable model + model/code correspondence",
    "design_ref": "DESIGN.md §5 C13",
}
