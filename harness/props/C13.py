"""C13 — Substitution replaces exactly the free occurrences of its keys (Substituter.substitute)."""
import hashlib
import random
import warnings

warnings.simplefilter("ignore")
from unified_planning.exceptions import UPTypeError

import pyden
import sexp
import upx
from upx import Ctx, ExprGen, enc_expr

ID = "C13"
GEN = []
CORR_NAME = "substitute-output"
RULE = ("one case = (expression, ordered map of (key, value, verdict of key.type.is_compatible(value.type) on the real types)). "
        "Expressions: 55% from the shared typed grammar (upx.ExprGen: connectives with nested same-operator nodes, raw double "
        "negations, arithmetic with huge constants, comparisons, equalities over related user types, quantifiers over T/S/U/E) "
        "extended with fluents over a bounded integer parameter (h, hb); 38% built around a quantifier whose variable is used "
        "(optionally a nested binder over the same variable, or a copy of a body literal beside the quantifier = free occurrences "
        "of its variable); 30% of the quantified ones get a copy of a quantifier body beside them, 15% have their variables "
        "renamed into a two-name pool (shadowing). Keys: whole quantified subformulas, fluent applications / parameters / "
        "variables occurring in the expression, compound subterms, subterms of other keys or values (nested keys), the image of "
        "a subterm under the pairs chosen so far (must not be substituted again), the expression itself, keys absent from the "
        "expression. Values: generated at the key's real type (retried until compatible), 30% over the bound variables of the "
        "expression (capture), 20% containing another key, 25% constants (grounding style); 13% of the maps get one value of a "
        "wrong type (malformed stream), 2% are empty. Planted: 4% a compound key whose interior cannot be rebuilt (D-C13a), 3% a "
        "simple key active under a binder whose value mentions the bound variable (F-C13-capture). Non-trivial = the map was "
        "rejected, or the result differs from the input.")
ASSUMPTIONS = ["keys and values are FNodes of the expression's environment (auto_promote of Python constants/Fluent objects is not exercised)",
               "the map is a dict: keys are pairwise distinct",
               "the property presupposes that its result exists: cases whose top-down result contains a node the library's type "
               "checker rejects (interval types are compatible when they overlap, which is not transitive; float overflow in the "
               "checker's bound arithmetic, D-C15c) are not generated — typing is C15's subject",
               "the expression with each key replaced is read modulo the expression manager's constructors, through which every "
               "rebuilt node goes (And/Or/Plus/Times of 0/1 arguments, double negation): the oracle compares normal forms, the "
               "correspondence compares the exact output",
               "semantic clause (DESIGN 2.11): checked for maps whose keys are parameters, variables or fluent applications with "
               "constant arguments, when every other application of a keyed fluent in the expression differs from the key in a "
               "constant argument, and the values of variable keys are defined",
               "objects are identified by name (one declared type per name); parameters by name (one type per name)"]
MODELLED = ["modelled by hand (tied by correspondence): Substituter.substitute/_push_with_children_to_stack/walk_replace_or_identity, "
            "IdentityDagWalker.walk_* with the ExpressionManager n-ary/Not normalisations, FreeVarsOracle; dict as duplicate-free "
            "association list; the DagWalker stack/memo machine as the pure recursion it computes (C14 models the machine); "
            "is_compatible verdicts are inputs of the model (C15 models typing)"]
BUDGET_S = {"quick": 45, "thorough": 500}

TYPES = [list(t) for t in ExprGen.TYPES]
OBJ_BY_TYPE = {"T": ["t1", "t2", "s1", "s2"], "S": ["s1", "s2"], "U": ["u1"], "E": []}
U = lambda n: ["user", n]
INT, REAL = ExprGen.INT, ExprGen.REAL
I05 = ["int", "0", "5"]
H = ["h", INT, [I05]]
HB = ["hb", "bool", [I05]]
XB = ["fl", ["xb", ["int", "0", "10"], []]]
PK = ["p", "pk", ["int", "8", "20"]]
PK3 = ["p", "pk3", ["int", "0", "3"]]
LEAVES = ("b", "i", "r", "o", "p", "v", "timing", "present")
QUANT = ("exists", "forall")
K = sexp.dumps


# ---------------------------------------------------------------------------------------------------
# s-expression helpers (reference notions written from the property text; independent of the Lean model)
# ---------------------------------------------------------------------------------------------------

def children(e):
    h = e[0]
    if h in LEAVES:
        return []
    if h in ("fl", "ifun"):
        return e[2:]
    if h == "dot":
        return [e[2]]
    if h in QUANT:
        return [e[2]]
    return e[1:]


def with_children(e, cs):
    h = e[0]
    if h in LEAVES:
        return e
    if h in ("fl", "ifun"):
        return [h, e[1]] + list(cs)
    if h == "dot":
        return [h, e[1], cs[0]]
    if h in QUANT:
        return [h, e[1], cs[0]]
    return [h] + list(cs)


def bound_of(e):
    return set((n, K(t)) for n, t in e[1])


def free_vars(e):
    h = e[0]
    if h == "v":
        return {(e[1], K(e[2]))}
    if h in QUANT:
        return free_vars(e[2]) - bound_of(e)
    out = set()
    for c in children(e):
        out |= free_vars(c)
    return out


def subterms(e, scope=()):
    """(subterm, variables bound above it) for every node, pre-order"""
    yield e, scope
    sc = scope
    if e[0] in QUANT:
        sc = tuple(scope) + tuple((n, t) for n, t in e[1])
    for c in children(e):
        yield from subterms(c, sc)


def ref_subst(e, pairs):
    """The property's own reading: top-down, a maximal occurrence of a key is replaced by its value as a
    whole (nothing is substituted inside the inserted value); below a quantifier the pairs whose key mentions
    a variable bound there are inactive."""
    for k, v in pairs:
        if k == e:
            return v
    if e[0] in QUANT:
        b = bound_of(e)
        return [e[0], e[1], ref_subst(e[2], [(k, v) for k, v in pairs if not (free_vars(k) & b)])]
    return with_children(e, [ref_subst(c, pairs) for c in children(e)])


def nf(e):
    """normal form for the expression manager's constructors"""
    h = e[0]
    if h in LEAVES:
        return e
    cs = [nf(c) for c in children(e)]
    if h in ("and", "or", "plus", "times"):
        if not cs:
            return {"and": ["b", "T"], "or": ["b", "F"], "plus": ["i", "0"], "times": ["i", "1"]}[h]
        if len(cs) == 1:
            return cs[0]
    if h == "not" and len(cs) == 1 and cs[0][0] == "not":
        return cs[0][1]
    return with_children(e, cs)


def is_const(e):
    return e[0] in ("b", "i", "r", "o")


def simple_key(k):
    return k[0] in ("p", "v") or (k[0] == "fl" and all(is_const(a) for a in k[2:]))


def const_val(c):
    return pyden.den(c, {"fl": {}, "fn": {}, "par": {}, "dom": {}})


def captures(e, pairs):
    """some value has a free variable bound by a quantifier of `e` in whose body its key is still active and occurs"""
    for q, _ in subterms(e):
        if q[0] in QUANT:
            b = bound_of(q)
            for k, v in pairs:
                if (free_vars(v) & b) and not (free_vars(k) & b) and any(t == k for t, _ in subterms(q[2])):
                    return True
    return False


# ---------------------------------------------------------------------------------------------------
# generator
# ---------------------------------------------------------------------------------------------------

class Gen13(ExprGen):
    def __init__(self, rng, **kw):
        super().__init__(rng, **kw)
        self.int_fl = self.int_fl + [H]
        self.bool_fl = self.bool_fl + [HB]

    def fl_app(self, ref, scope):
        if ref[2] == [I05]:
            r = self.rng.random()
            a = XB if r < 0.5 else PK3 if r < 0.7 else ["i", str(self.rng.randint(0, 5))]
            return ["fl", ref, a]
        return ExprGen.fl_app(self, ref, scope)


def type_info(c, s):
    """(kind, detail) of the real type of an s-expression built in the scratch context"""
    t = c.expr(s).type
    if t.is_bool_type():
        return ("bool", None)
    if t.is_int_type():
        return ("int", t)
    if t.is_real_type():
        return ("real", t)
    if t.is_user_type():
        return ("user", t.name)
    return ("other", None)


def gen_value(rng, g, kind, detail, scope, depth):
    if kind == "bool":
        return g.boolean(depth, scope)
    if kind == "int":
        return g.num(depth, scope, real_ok=False)
    if kind == "real":
        return g.num(depth, scope, real_ok=rng.random() < 0.7)
    if kind == "user":
        ty = detail
        if ty == "T" and rng.random() < 0.4:
            ty = "S"
        return g.obj_of(ty, scope)
    return None


def wrong_value(rng, g, kind, detail, scope):
    """a value of a type the key's type does not accept (malformed stream)"""
    if kind == "bool":
        return rng.choice([g.num(1, scope), g.obj_of("T", scope)])
    if kind in ("int", "real"):
        c = [g.boolean(1, scope), g.obj_of("S", scope)]
        if kind == "int":
            c.append(["r", "1/2"])
            c.append(["fl", ["z", REAL, []]])
        return rng.choice(c)
    other = {"T": ["U"], "S": ["U", "T"], "U": ["T", "S"], "E": ["T"]}[detail]
    return rng.choice([g.obj_of(rng.choice(other), ()), g.boolean(0, scope), ["i", "1"]])


def rename_shadow(e, rng):
    """rename quantified variables into a two-name pool per type (nested binders then shadow each other);
    binder lists keep pairwise distinct variables"""
    def go(x, ren):
        h = x[0]
        if h == "v":
            return ["v", ren.get((x[1], K(x[2])), x[1]), x[2]]
        if h in QUANT:
            r2, vs, used = dict(ren), [], set()
            for n, t in x[1]:
                nn = "q" + str(rng.randrange(2))
                if (nn, K(t)) in used:
                    nn = n
                used.add((nn, K(t)))
                r2[(n, K(t))] = nn
                vs.append([nn, t])
            return [h, vs, go(x[2], r2)]
        return with_children(x, [go(c, ren) for c in children(x)])
    return go(e, {})


def planted_interior(rng, g):
    """D-C13a: a compound key whose interior cannot be rebuilt under the map although the key is replaced as a whole"""
    inner = ["fl", rng.choice([H, HB]), XB]
    if inner[1] is H:
        key = [rng.choice(["le", "lt", "eq"]), inner, ["i", str(rng.randint(0, 9))]]
        if rng.random() < 0.4:
            key = ["not", key]
    else:
        key = [rng.choice(["and", "or", "implies"]), inner, g.boolean(1)]
    e = [rng.choice(["and", "or"]), key, g.boolean(1)]
    if rng.random() < 0.3:
        e = ["not", e]
    if rng.random() < 0.3:
        e = ["forall", [["w1", U("S")]], ["or", e, ["fl", ["bs", "bool", [U("S")]], ["v", "w1", U("S")]]]]
    val = rng.choice([PK, ["i", "9"], ["plus", XB, ["i", "6"]]])
    pairs = [(key, g.boolean(rng.choice([0, 1]))), (XB, val)]
    if rng.random() < 0.5:
        pairs.reverse()
    return e, pairs


BQ = ["bq", "bool", [U("T")]]
BS = ["bs", "bool", [U("S")]]
OWN = ["own", U("T"), [U("S")]]


def quant_rich(rng, g, depth):
    """an expression built around a quantifier whose variable is really used, optionally with a copy of the body
    beside it (free occurrences of the variable) or a nested binder"""
    g.fresh += 1
    tyn = rng.choice(["T", "S", "S", "U"])
    name = f"q{g.fresh}"
    var = ["v", name, U(tyn)]
    sc = ((name, U(tyn)),)
    lits = [["eq", var, g.obj_of(tyn, ())], ["eq", g.obj_of(tyn, ()), var]]
    if tyn in ("T", "S"):
        lits += [["fl", BQ, var], ["fl", BQ, var], ["le", ["fl", ["xq", ["int", "-5", "5"], [U("T")]], var], g.num(0)]]
    if tyn == "S":
        lits += [["fl", BS, var], ["eq", ["fl", OWN, var], g.obj_of("T", sc)]]
    parts = [rng.choice(lits) for _ in range(rng.choice([1, 1, 2]))] + [g.boolean(max(depth - 1, 0), sc)]
    rng.shuffle(parts)
    body = [rng.choice(["and", "or"])] + parts if rng.random() < 0.85 else ["implies", parts[0], parts[-1]]
    if rng.random() < 0.2:     # nested binder, sometimes over the same variable
        g.fresh += 1
        n2 = name if rng.random() < 0.4 else f"q{g.fresh}"
        body = [body[0], [rng.choice(QUANT), [[n2, U(tyn)]], [rng.choice(["and", "or"]), rng.choice(lits), ["fl", BQ if tyn != "U" else ["b1", "bool", []]] + ([["v", n2, U(tyn)]] if tyn != "U" else [])]]] + body[1:] \
            if body[0] in ("and", "or") else body
    q = [rng.choice(QUANT), [[name, U(tyn)]], body]
    r = rng.random()
    if r < 0.25:
        return q
    if r < 0.5:
        return [rng.choice(["and", "or"]), q, g.boolean(max(depth - 1, 0))]
    if r < 0.8:
        return [rng.choice(["and", "or"]), rng.choice(parts), q] if rng.random() < 0.5 else ["implies", body, q]
    return ["not", q] if rng.random() < 0.5 else ["iff", q, g.boolean(1)]


def planted_capture(rng, g):
    """F-C13-capture: a simple key stays active under a binder while its value mentions the bound variable"""
    tyn = rng.choice(["T", "S"])
    g.fresh += 1
    name = f"q{g.fresh}"
    var = ["v", name, U(tyn)]
    k = rng.choice([["fl", ["b0", "bool", []]], ["p", "pb", "bool"], ["fl", BQ, ["o", "t1", "T"]],
                    ["fl", ["at", U("T"), []]], ["p", "pt", U("T")]])
    if k[0] == "p" and k[2] == "bool" or (k[0] == "fl" and k[1][1] == "bool"):
        v = rng.choice([["fl", BQ, var], ["not", ["fl", BQ, var]], ["eq", var, ["o", "s1", "S"]]])
        occ = k
    else:
        v = var if rng.random() < 0.7 or tyn == "T" else ["fl", OWN, var]
        occ = rng.choice([["fl", BQ, k], ["eq", k, ["o", "s2", "S"]]])
    body = [rng.choice(["and", "or"]), ["fl", BQ, var], occ]
    if rng.random() < 0.5:
        body = [body[0], body[2], body[1]]
    q = [rng.choice(QUANT), [[name, U(tyn)]], body]
    e = q if rng.random() < 0.5 else [rng.choice(["and", "or"]), q, occ]
    pairs = [(k, v)]
    if rng.random() < 0.3:
        pairs.append((["fl", ["b1", "bool", []]], g.boolean(0)))
    return e, pairs


def make_case(rng, g):
    """returns (e, [(k, v)]) or None"""
    r0 = rng.random()
    if r0 < 0.04:
        return planted_interior(rng, g)
    if r0 < 0.07:
        return planted_capture(rng, g)
    depth = rng.choice([1, 2, 2, 3, 3, 4])
    if r0 < 0.45:
        e = quant_rich(rng, g, min(depth, 3))
    else:
        e = g.boolean(depth) if rng.random() < 0.85 else g.num(depth)
    boolean = e[0] in ("and", "or", "not", "implies", "iff", "le", "lt", "eq", "exists", "forall", "b") or \
        (e[0] == "fl" and e[1][1] == "bool") or (e[0] == "p" and e[2] == "bool")
    qs = [t for t, _ in subterms(e) if t[0] in QUANT]
    if boolean and qs and rng.random() < 0.3:
        q = rng.choice(qs)
        e = [rng.choice(["and", "or"]), e, q[2]] if rng.random() < 0.5 else [rng.choice(["and", "or"]), q[2], e]
    if qs and rng.random() < 0.15:
        e = rename_shadow(e, rng)
    subs = list(subterms(e))
    bound_all = []
    for t, _ in subs:
        if t[0] in QUANT:
            for n, ty in t[1]:
                if (n, ty) not in bound_all:
                    bound_all.append((n, ty))
    atoms = [t for t, _ in subs if t[0] in ("fl", "p", "v")]
    compound = [t for t, _ in subs if t[0] not in LEAVES]
    npairs = rng.choice([1, 1, 1, 2, 2, 2, 3, 3, 4]) if rng.random() > 0.02 else 0
    c = Ctx(TYPES)
    c.expr(e)
    pairs = []
    malformed = rng.random() < 0.13
    bad_at = rng.randrange(max(npairs, 1))
    for i in range(npairs):
        r = rng.random()
        k = None
        if r < 0.1 and qs:
            k = rng.choice(qs)
        elif r < 0.38 and atoms:
            k = rng.choice(atoms)
        elif r < 0.72 and compound:
            k = rng.choice(compound)
        elif r < 0.80 and pairs:
            src = rng.choice(pairs)[rng.randrange(2)]
            inner = [t for t, _ in subterms(src)]
            k = rng.choice(inner)
        elif r < 0.86 and pairs and compound:
            # a key equal to what a subterm BECOMES under the pairs chosen so far (must not be substituted again)
            t = rng.choice(compound)
            k = ref_subst(t, pairs)
            if k == t:
                k = nf(k) if nf(k) != t else None
        elif r < 0.9:
            k = e
        else:
            k = rng.choice([g.boolean(1), ["fl", ["b2", "bool", []]], ["fl", ["y", INT, []]], ["p", "pt", U("T")],
                            ["fl", ["bq", "bool", [U("T")]], ["o", "t1", "T"]]])
        if k is None or any(k == k2 for k2, _ in pairs):
            continue
        kind, detail = type_info(c, k)
        if kind == "other":
            continue
        scope = tuple(bound_all) if (bound_all and rng.random() < 0.3) else ()
        if malformed and i == bad_at:
            v = wrong_value(rng, g, kind, detail, scope)
        else:
            v = None
            for _ in range(6):
                rr = rng.random()
                if rr < 0.2 and pairs:      # a value that contains (or is) another key
                    other = rng.choice(pairs)[0]
                    ok2, _d = type_info(c, other)
                    if ok2 == kind or (ok2, kind) == ("int", "real"):
                        cand = other if rng.random() < 0.4 or kind == "user" else \
                            (["and", other, g.boolean(0, scope)] if kind == "bool" else ["plus", other, ["i", "1"]])
                    else:
                        cand = gen_value(rng, g, kind, detail, scope, rng.choice([0, 0, 1, 2]))
                elif rr < 0.45:             # grounding style: a constant
                    cand = gen_value(rng, ExprGen(rng, params=False), kind, detail, (), 0)
                    if cand is not None and cand[0] == "fl":
                        cand = gen_value(rng, g, kind, detail, scope, 0)
                else:
                    cand = gen_value(rng, g, kind, detail, scope, rng.choice([0, 0, 1, 2]))
                if cand is None:
                    continue
                v = cand
                if c.expr(k).type.is_compatible(c.expr(cand).type):
                    break
        if v is None:
            continue
        pairs.append((k, v))
    if npairs > 0 and not pairs:
        return None
    return e, pairs


def with_verdicts(e, pairs):
    """payload for (e, pairs); None when something cannot even be built, or when the top-down result does not exist"""
    c = Ctx(TYPES)
    try:
        c.expr(e)
        out = []
        allok = True
        for k, v in pairs:
            ok = c.expr(k).type.is_compatible(c.expr(v).type)
            allok = allok and ok
            out.append([k, v, "T" if ok else "F"])
        if allok and pairs:
            c.expr(ref_subst(e, pairs))
    except Exception:
        return None
    return ["subst", e, out]


def cases(rng, tier):
    n = 1500 if tier == "quick" else 12000
    produced = 0
    attempts = 0
    while produced < n and attempts < 4 * n:
        attempts += 1
        g = Gen13(rng, big=rng.random() < 0.5)
        try:
            made = make_case(rng, g)
        except Exception:
            made = None   # an expression of the shared grammar the real constructors reject (huge constants: D-C15c)
        if made is None:
            continue
        p = with_verdicts(*made)
        if p is None:
            continue
        produced += 1
        yield p


# ---------------------------------------------------------------------------------------------------
# real code
# ---------------------------------------------------------------------------------------------------

REJECT_MSG = "is not compatible with the given substitution"


def run_real(payload):
    """-> (ctx, e, dict, outcome) with outcome ('ok', fnode) | ('reject', clean?) | ('error', name)"""
    c = Ctx(TYPES)
    e = c.expr(payload[1])
    d = {}
    for k, v, _ in payload[2]:
        d[c.expr(k)] = c.expr(v)
    sub = c.env.substituter
    before = len(c.em.expressions)
    try:
        r = e.substitute(d)
    except UPTypeError as ex:
        if REJECT_MSG in str(ex):
            clean = (not sub.stack) and (not sub.memoization) and len(c.em.expressions) == before
            return c, e, d, ("reject", clean)
        return c, e, d, ("error", "UPTypeError-in-walk")
    except Exception as ex:
        return c, e, d, ("error", type(ex).__name__)
    return c, e, d, ("ok", r)


def impl(payload):
    _, _, _, out = run_real(payload)
    if out[0] == "ok":
        return ["ok", enc_expr(out[1])]
    if out[0] == "reject":
        return "reject" if out[1] else ["reject", "dirty"]
    return ["error", out[1]]


def pairs_of(payload):
    return [(k, v) for k, v, _ in payload[2]]


def nontrivial(payload, ans):
    if ans == "reject":
        return True
    return isinstance(ans, list) and ans[0] == "ok" and ans[1] != payload[1]


def stats(payload, ans):
    e, pairs = payload[1], pairs_of(payload)
    t = [f"pairs={min(len(pairs), 4)}"]
    if ans == "reject":
        t.append("reject")
    elif isinstance(ans, list) and ans[0] == "ok":
        t.append("changed" if ans[1] != e else "unchanged")
        if pairs and ans[1] != ref_subst(e, pairs):
            t.append("manager-normalisation-visible")
    else:
        t.append("error")
    if any(k[0] not in LEAVES and k[0] != "fl" for k, _ in pairs):
        t.append("compound-key")
    if any(k[0] in QUANT for k, _ in pairs):
        t.append("quantifier-key")
    if any(k[0] == "v" for k, _ in pairs):
        t.append("variable-key")
    ks = [k for k, _ in pairs]
    if any(a is not b and any(t2 == a for t2, _ in subterms(b)) for a in ks for b in ks):
        t.append("nested-keys")
    if any(any(t2 == k for t2, _ in subterms(v)) for k in ks for _, v in pairs):
        t.append("value-contains-key")
    for q, _ in subterms(e):
        if q[0] in QUANT and any((free_vars(k) & bound_of(q)) and any(t2 == k for t2, _ in subterms(q[2])) for k in ks):
            t.append("key-inactive-under-binder")
            break
    if captures(e, pairs):
        t.append("value-captured")
    if pairs and all(simple_key(k) for k in ks):
        t.append("simple-keys")
    if ans != "reject" and semantic_domain(e, pairs):
        t.append("semantic-clause-evaluated")
    return t


# ---------------------------------------------------------------------------------------------------
# oracle: the property's statement on the real code
# ---------------------------------------------------------------------------------------------------

def semantic_domain(e, pairs):
    """the maps for which the semantic clause is claimed (ASSUMPTIONS)"""
    if not pairs or not all(simple_key(k) for k, _ in pairs):
        return False
    fkeys = [k for k, _ in pairs if k[0] == "fl"]
    apps = [t for t, _ in subterms(e) if t[0] == "fl"] + fkeys
    for k in fkeys:
        for a in apps:
            if a[1] == k[1] and a != k:
                if len(a) == len(k) and not any(is_const(x) and is_const(y) and const_val(x) != const_val(y)
                                                for x, y in zip(a[2:], k[2:])):
                    return False
    pnames = {}
    for t, _ in list(subterms(e)) + [(k, ()) for k, _ in pairs]:
        if t[0] == "p":
            if pnames.setdefault(t[1], K(t[2])) != K(t[2]):
                return False
    return True


def semantic_check(e, pairs, result, rng):
    names = upx.free_names(["and", e, result] + [k for k, _ in pairs] + [v for _, v in pairs])
    fv = set()
    for x in [e, result] + [k for k, _ in pairs] + [v for _, v in pairs]:
        fv |= free_vars(x)
    for trial in range(3):
        I = pyden.random_interp(rng, names, OBJ_BY_TYPE, defined=1.0 if trial < 2 else 0.85)
        rho = {}
        for n, tk in sorted(fv):
            ty = sexp.loads(tk)
            dom = OBJ_BY_TYPE.get(ty[1], []) if ty[0] == "user" else []
            if dom and rng.random() < 0.9:
                rho[(n, tk)] = ("o", rng.choice(dom))
        I2 = {"fl": dict(I["fl"]), "fn": I["fn"], "par": dict(I["par"]), "dom": I["dom"]}
        rho2 = dict(rho)
        skip = False
        for k, v in pairs:
            val = pyden.den(v, I, rho)
            if k[0] == "p":
                if val is None:
                    I2["par"].pop(k[1], None)
                else:
                    I2["par"][k[1]] = val
            elif k[0] == "v":
                if val is None:
                    skip = True
                else:
                    rho2[(k[1], K(k[2]))] = val
            else:
                key = (K(k[1]), tuple(const_val(a) for a in k[2:]))
                if val is None:
                    I2["fl"].pop(key, None)
                else:
                    I2["fl"][key] = val
        if skip:
            continue
        try:
            lhs = pyden.den(result, I, rho)
            rhs = pyden.den(e, I2, rho2)
        except OverflowError:
            continue
        if lhs != rhs:
            return (f"semantic clause: result evaluates to {pyden.val_sexp(lhs)} but the original under the updated "
                    f"interpretation to {pyden.val_sexp(rhs)}")
    return None


def oracle(payload):
    e, pairs = payload[1], pairs_of(payload)
    rng = random.Random(int(hashlib.sha1(K(payload).encode()).hexdigest()[:8], 16))
    try:
        c, fe, d, out = run_real(payload)
    except Exception:
        return None     # the inputs themselves are rejected by the real constructors: not a case of this property
    if len(d) != len(pairs):
        return None
    compat = [k.type.is_compatible(v.type) for k, v in d.items()]
    if not pairs:
        return None if (out[0] == "ok" and out[1] is fe) else "empty map: the expression itself is not returned"
    if not all(compat):
        if out[0] != "reject":
            return "a map with an incompatible pair was not rejected"
        if not out[1]:
            return "rejection happened after something changed (substituter stack/memo or new expressions)"
        return None
    if out[0] == "reject":
        return "a type-compatible map was rejected"
    ref = ref_subst(e, pairs)
    if out[0] == "error":
        try:
            Ctx(TYPES).expr(ref)
        except Exception:
            return None  # the result does not exist as a well-typed expression (ASSUMPTIONS)
        return f"substitute raised {out[1]} although the top-down result is a well-formed expression"
    res = enc_expr(out[1])
    if nf(res) != nf(ref):
        return "result is not the expression with each maximal free key occurrence replaced (top-down, no re-substitution)"
    if semantic_domain(e, pairs):
        return semantic_check(e, pairs, res, rng)
    return None


def known_cause(payload):
    if captures(payload[1], pairs_of(payload)):
        return "F-C13-capture"
    return None


def shrink(payload):
    e, pairs = payload[1], pairs_of(payload)
    cands = []
    for i in range(len(pairs)):
        cands.append((e, pairs[:i] + pairs[i + 1:]))
    for ch in children(e):
        cands.append((ch, pairs))
    for i, ch in enumerate(children(e)):
        for gc in children(ch):
            cs = list(children(e))
            cs[i] = gc
            cands.append((with_children(e, cs), pairs))
    if e[0] in ("and", "or", "plus", "times") and len(e) > 3:
        for i in range(1, len(e)):
            cands.append((e[:i] + e[i + 1:], pairs))
    for i, (k, v) in enumerate(pairs):
        for ch in children(v):
            cands.append((e, pairs[:i] + [(k, ch)] + pairs[i + 1:]))
    for e2, p2 in cands:
        p = with_verdicts(e2, p2)
        if p is not None:
            yield p


MANIFEST = {
    "level_text": ("Lean 4 theorems (Props/C13.lean) about the executable model of Substituter.substitute, for all expressions and maps: "
                   "the walker equals the declarative top-down replacement relation (maximal key occurrences, binder rule, values "
                   "inserted verbatim), rejects before walking iff some pair is incompatible, and — for maps whose keys are parameters, "
                   "variables or fluent applications with constant arguments, under the stated decidable side conditions and in the "
                   "absence of variable capture — the result denotes what the original denotes under the interpretation updated by "
                   "the map. The capture case is a known finding (kernel-checked counterexample). The model is tied to the code by a "
                   "differential correspondence on the exact produced expression plus a direct oracle of the property on the real class."),
    "level_note": ("Partial: semantic clause proved only without capture of free variables of values (open finding F-C13-capture). "
                   "Trusted: Lean kernel; axioms propext, Classical.choice, Quot.sound; the correspondence harness. Modelled not "
                   "verified: dict semantics, the DagWalker machine (C14), typing of rebuilt nodes and is_compatible (C15)."),
    "technique": "Lean 4 proof about an executable model + model/code correspondence",
    "design_ref": "DESIGN.md §5 C13",
}
