"""C20 — Protobuf round trip is lossless.

Two streams of cases:

  modelled   (ty …) (tystr …) (real …) (timing …) (interval …) (expr …) (effect …) (action …) (problem …)
             the REAL writer's message and the REAL reader's result on it are compared, field by field, with the
             Lean model's (lean/UPVerif/Core/Proto.lean);
  rt         (rt …) end-to-end cases for the parts outside the model (metrics, trajectory constraints, plans,
             hierarchical / scheduling problems, all bundled examples, engine results): model and impl both answer
             `oracle-only`, the property oracle does the work.

The oracle (written from the property text) is evaluated on EVERY case of both streams.
"""
import hashlib
import random
import warnings
from collections import OrderedDict
from fractions import Fraction

warnings.simplefilter("ignore")
import unified_planning as up
import unified_planning.grpc.generated.unified_planning_pb2 as proto
from unified_planning.engines import (CompilationKind, LogLevel, LogMessage, PlanGenerationResult,
                                      PlanGenerationResultStatus, ValidationResult, ValidationResultStatus)
from unified_planning.environment import Environment, get_environment
from unified_planning.grpc.proto_reader import ProtobufReader, convert_type_str
from unified_planning.grpc.proto_writer import ProtobufWriter, proto_type
from unified_planning.model import (DurativeAction, Effect, EffectKind, InstantaneousAction, Problem, Timepoint,
                                    TimepointKind, Timing)
from unified_planning.model.fnode import FNode
from unified_planning.model.operators import OperatorKind as OK
from unified_planning.model.timing import DurationInterval, TimeInterval
from unified_planning.plans import ActionInstance, SequentialPlan, TimeTriggeredPlan

import sexp
import upp
import upx
from upx import enc_ty, q2s

ID = "C20"
GEN = []
CORR_NAME = "writer-message-and-reader-result"
RULE = ("modelled stream: types (all finite/infinite bound combinations, bounds up to 10^30, adversarial user type names: "
        "builtin look-alikes, brackets, commas, reserved `up:` names, undeclared), arbitrary type strings given to the reader, "
        "rationals around the int64 limits, every timepoint kind x container x delay, intervals with every openness, "
        "expressions from upx.ExprGen extended with timing / presence leaves and boundary constants, effects, instantaneous "
        "and durative actions, and classical/numeric/temporal problems from upp.ProblemGen extended with durative actions, "
        "timed goals/effects, epsilon and the two flags; ~6% ill-scoped contexts (undeclared object / fluent / type) to "
        "exercise reader failures.  rt stream: ProblemGen problems with metrics and trajectory constraints, generated plans, "
        "hand-parameterised hierarchical and scheduling problems, engine results, and ALL bundled examples with their plans. "
        "Non-trivial = the writer accepts and the case contains something beyond Boolean/unbounded scalars: a bounded or user "
        "type, a non-integer or large constant, a timing, an effect, or (rt) a whole object.")
ASSUMPTIONS = [
    "`equal` for engine results means equal on every field the .proto schema carries (status, plan / problem, engine name, "
    "metrics, log messages, and the behaviour of map_back_action_instance on every action of the compiled problem), as the "
    "library's own tests read it; ValidationResult.reason / inapplicable_action / metric_evaluations / trace have no field.",
    "names (problem, container, type) are non-empty strings: the schema uses the empty string for `absent` "
    "(tested: Problem('') reads back as Problem(None); finding D-C20d)",
    "empty plans and time-triggered steps with an explicit zero duration are kept out of the generators: the schema does not "
    "record the plan class of an empty plan nor distinguish `duration 0` from `no duration` (finding D-C20c)",
    "values outside int64 make the protobuf runtime raise in the writer: `writer rejects`, outside the property",
    "simulated effects, interpreted functions, processes / continuous effects have no field in the schema: the (repaired) "
    "writer raises for each of them = `writer rejects`; the modelled stream stays inside assign/increase/decrease effects",
    "the reader is given the environment of the original object",
    "ASCII names; decimal strings as printed by str(int) / str(Fraction) (int('+1'), Fraction('1.5') are not modelled)",
]
MODELLED = [
    "modelled by hand (tied by correspondence): proto_type, convert_type_str, FNode2Protobuf.walk_*, _convert_expression, "
    "_convert_atom, _convert_effect, _convert_timing/_timepoint/_time_interval/_duration, _convert_action, the mirrored "
    "fields of _convert_problem",
    "modelled not verified: protobuf runtime (int64 range check, string defaults), Fraction / int parsing beyond canonical "
    "decimal strings, re-validation done by add_effect / add_fluent / add_action / Effect.__init__ on already valid objects "
    "(taken as identity), ExpressionManager.create_node's type check",
]
BUDGET_S = {"quick": 70, "thorough": 700}

B = sexp.B
I64 = 2 ** 63

# ------------------------------------------------------------------------------------------------
# wire format <-> real objects (extension of upx / upp by timings, durative actions, temporal problems)
# ------------------------------------------------------------------------------------------------

TPK = {"global_start": TimepointKind.GLOBAL_START, "global_end": TimepointKind.GLOBAL_END,
       "start": TimepointKind.START, "end": TimepointKind.END}
TPK_INV = {v: k for k, v in TPK.items()}


def mk_timing(s):
    assert s[0] == "tm"
    cont = s[2][1] if len(s[2]) > 1 else None
    return Timing(Fraction(s[3]), Timepoint(TPK[s[1]], cont))


def enc_timing(t):
    c = t.timepoint.container
    return ["tm", TPK_INV[t.timepoint.kind], ["c"] if c is None else ["c", c], q2s(Fraction(t.delay))]


def mk_interval(s):
    assert s[0] == "ti"
    return TimeInterval(mk_timing(s[1]), mk_timing(s[2]), s[3] == "T", s[4] == "T")


def enc_interval(i):
    return ["ti", enc_timing(i.lower), enc_timing(i.upper), B(i.is_left_open()), B(i.is_right_open())]


class Ctx(upx.Ctx):
    def expr(self, s):
        if s[0] == "tm":
            return self.em.TimingExp(mk_timing(s))
        if s[0] == "present":
            return self.em.PresentExp(up.model.Presence(s[1]))
        return super().expr(s)


def enc_expr(e):
    t = e.node_type
    if t == OK.TIMING_EXP:
        return enc_timing(e.timing())
    if t == OK.PRESENT_EXP:
        return ["present", e.presence().container]
    if t == OK.BOOL_CONSTANT:
        return ["b", B(e.bool_constant_value())]
    if t == OK.INT_CONSTANT:
        return ["i", str(e.int_constant_value())]
    if t == OK.REAL_CONSTANT:
        return ["r", q2s(e.real_constant_value())]
    if t == OK.OBJECT_EXP:
        return ["o", e.object().name, e.object().type.name]
    if t == OK.PARAM_EXP:
        return ["p", e.parameter().name, enc_ty(e.parameter().type)]
    if t == OK.VARIABLE_EXP:
        return ["v", e.variable().name, enc_ty(e.variable().type)]
    if t == OK.FLUENT_EXP:
        f = e.fluent()
        return ["fl", [f.name, enc_ty(f.type), [enc_ty(p.type) for p in f.signature]]] + [enc_expr(a) for a in e.args]
    if t in (OK.EXISTS, OK.FORALL):
        return ["exists" if t == OK.EXISTS else "forall", [[v.name, enc_ty(v.type)] for v in e.variables()], enc_expr(e.arg(0))]
    return [upx.OPS[t]] + [enc_expr(a) for a in e.args]


EK_S = {"assign": EffectKind.ASSIGN, "increase": EffectKind.INCREASE, "decrease": EffectKind.DECREASE}


def mk_effect(ctx, s):
    _, kind, f, v, c, vs = s
    return Effect(ctx.expr(f), ctx.expr(v), ctx.expr(c), EK_S[kind], tuple(ctx.var(n, t) for n, t in vs))


def enc_effect(e):
    return ["eff", "assign" if e.is_assignment() else "increase" if e.is_increase() else "decrease",
            enc_expr(e.fluent), enc_expr(e.value), enc_expr(e.condition), [[v.name, enc_ty(v.type)] for v in e.forall]]


def mk_action(ctx, s):
    if s[0] == "action":
        _, name, params, pre, effs = s
        act = InstantaneousAction(name, OrderedDict((pn, ctx.ty(pt)) for pn, pt in params), ctx.env)
        for c in pre[1:]:
            act.add_precondition(ctx.expr(c))
        for e in effs[1:]:
            _, kind, f, v, c, vs = e
            fn = {"assign": act.add_effect, "increase": act.add_increase_effect, "decrease": act.add_decrease_effect}[kind]
            fn(ctx.expr(f), ctx.expr(v), ctx.expr(c), forall=tuple(ctx.var(n, t) for n, t in vs))
        return act
    _, name, params, dur, conds, effs = s
    act = DurativeAction(name, OrderedDict((pn, ctx.ty(pt)) for pn, pt in params), ctx.env)
    act.set_duration_constraint(DurationInterval(ctx.expr(dur[1]), ctx.expr(dur[2]), dur[3] == "T", dur[4] == "T"))
    for c in conds[1:]:
        for e in c[1:]:
            act.add_condition(mk_interval(c[0]), ctx.expr(e))
    for g in effs[1:]:
        for e in g[1:]:
            _, kind, f, v, c, vs = e
            fn = {"assign": act.add_effect, "increase": act.add_increase_effect, "decrease": act.add_decrease_effect}[kind]
            fn(mk_timing(g[0]), ctx.expr(f), ctx.expr(v), ctx.expr(c), forall=tuple(ctx.var(n, t) for n, t in vs))
    return act


def enc_action(a):
    params = [[p.name, enc_ty(p.type)] for p in a.parameters]
    if isinstance(a, InstantaneousAction):
        return ["action", a.name, params, ["pre"] + [enc_expr(c) for c in a.preconditions],
                ["effs"] + [enc_effect(e) for e in a.effects]]
    d = a.duration
    return ["daction", a.name, params, ["dur", enc_expr(d.lower), enc_expr(d.upper), B(d.is_left_open()), B(d.is_right_open())],
            ["conds"] + [[enc_interval(i)] + [enc_expr(c) for c in cs] for i, cs in a.conditions.items()],
            ["effs"] + [[enc_timing(t)] + [enc_effect(e) for e in es] for t, es in a.effects.items()]]


def ctx_problem(cs):
    """(ctx (types n*) (objects (n t)*) (fluents ref*)) -> (Ctx, Problem declaring exactly that)"""
    ctx = Ctx()
    P = Problem("ctx", ctx.env)
    for n, f in cs[1][1:]:
        P._add_user_type(ctx.add_type(n, None if f == "_" else f))
    for n, t in cs[2][1:]:
        P.add_object(ctx.obj(n, t))
    for ref in cs[3][1:]:
        P.add_fluent(ctx.fluent(ref))
    return ctx, P


def sec(ps, key):
    for s in ps[2:]:
        if isinstance(s, list) and s and s[0] == key:
            return s[1:]
    return None


def mk_problem(ps, ctx=None):
    """extended problem format -> (Problem, Ctx); sections traj / metrics (upp) are optional"""
    types = [(n, None if f == "_" else f) for n, f in sec(ps, "types")]
    ctx = ctx or Ctx()
    name = None if ps[1] == ["none"] else ps[1]
    P = Problem(name, ctx.env)
    for n, f in types:
        P._add_user_type(ctx.add_type(n, f))
    for n, t in sec(ps, "objects"):
        P.add_object(ctx.obj(n, t))
    for ref, d in sec(ps, "fluents"):
        fl = ctx.fluent(ref)
        if d == "_":
            P.add_fluent(fl)
        else:
            P.add_fluent(fl, default_initial_value=ctx.expr(d))
    acts = {}
    for a in sec(ps, "actions"):
        act = mk_action(ctx, a)
        P.add_action(act)
        acts[act.name] = act
    for g in sec(ps, "teffs") or []:
        for e in g[1:]:
            P._add_effect_instance(mk_timing(g[0]), mk_effect(ctx, e))
    for f, v in sec(ps, "init"):
        P.set_initial_value(ctx.expr(f), ctx.expr(v))
    for g in sec(ps, "goals"):
        P.add_goal(ctx.expr(g))
    for g in sec(ps, "tgoals") or []:
        for e in g[1:]:
            P.add_timed_goal(mk_interval(g[0]), ctx.expr(e))
    for t in sec(ps, "traj") or []:
        P.add_trajectory_constraint(ctx.expr(t))
    from unified_planning.model.metrics import (MaximizeExpressionOnFinalState, MinimizeActionCosts,
                                                MinimizeExpressionOnFinalState, MinimizeMakespan,
                                                MinimizeSequentialPlanLength, Oversubscription, TemporalOversubscription)
    for m in sec(ps, "metrics") or []:
        if m[0] == "min-action-costs":
            P.add_quality_metric(MinimizeActionCosts({acts[a]: ctx.expr(e) for a, e in m[1]},
                                                     None if m[2] == "_" else ctx.expr(m[2]), ctx.env))
        elif m[0] == "min-length":
            P.add_quality_metric(MinimizeSequentialPlanLength(ctx.env))
        elif m[0] == "min-makespan":
            P.add_quality_metric(MinimizeMakespan(ctx.env))
        elif m[0] == "min-final":
            P.add_quality_metric(MinimizeExpressionOnFinalState(ctx.expr(m[1]), ctx.env))
        elif m[0] == "max-final":
            P.add_quality_metric(MaximizeExpressionOnFinalState(ctx.expr(m[1]), ctx.env))
        elif m[0] == "oversub":
            P.add_quality_metric(Oversubscription({ctx.expr(g): Fraction(w) for g, w in m[1]}, ctx.env))
        elif m[0] == "temporal-oversub":
            P.add_quality_metric(TemporalOversubscription({(mk_interval(i), ctx.expr(g)): Fraction(w) for i, g, w in m[1]}, ctx.env))
        else:
            raise ValueError(m)
    eps = sec(ps, "eps")
    if eps and eps[0] != "_":
        P.epsilon = Fraction(eps[0])
    fl = sec(ps, "flags")
    if fl:
        P.discrete_time = fl[0] == "T"
        P.self_overlapping = fl[1] == "T"
    return P, ctx


def enc_problem(P):
    return ["problem", ["none"] if P.name is None else P.name,
            ["types"] + [[t.name, t.father.name if t.father is not None else "_"] for t in P.user_types],
            ["objects"] + [[o.name, o.type.name] for o in P.all_objects],
            ["fluents"] + [[[f.name, enc_ty(f.type), [enc_ty(p.type) for p in f.signature]],
                            enc_expr(P.fluents_defaults[f]) if f in P.fluents_defaults else "_"] for f in P.fluents],
            ["init"] + [[enc_expr(f), enc_expr(v)] for f, v in P.explicit_initial_values.items()],
            ["actions"] + [enc_action(a) for a in P.actions],
            ["goals"] + [enc_expr(g) for g in P.goals],
            ["tgoals"] + [[enc_interval(i)] + [enc_expr(g) for g in gs] for i, gs in P.timed_goals.items()],
            ["teffs"] + [[enc_timing(t)] + [enc_effect(e) for e in es] for t, es in P.timed_effects.items()],
            ["eps", "_" if P.epsilon is None else q2s(P.epsilon)],
            ["flags", B(P.discrete_time), B(P.self_overlapping)]]


# ------------------------------------------------------------------------------------------------
# canonical dump of protobuf messages (format of lean/UPVerif/Drv/C20.lean)
# ------------------------------------------------------------------------------------------------

def d_real(m):
    return ["real", str(m.numerator), str(m.denominator)]


def d_timing(m):
    return ["timing", ["tp", proto.Timepoint.TimepointKind.Name(m.timepoint.kind), m.timepoint.container_id],
            d_real(m.delay) if m.HasField("delay") else "none"]


def d_interval(m):
    return ["ti", B(m.is_left_open), d_timing(m.lower), B(m.is_right_open), d_timing(m.upper)]


def d_atom(a):
    f = a.WhichOneof("content")
    if f is None:
        return ["u"]
    if f == "symbol":
        return ["s", a.symbol]
    if f == "int":
        return ["i", str(a.int)]
    if f == "real":
        return ["r", str(a.real.numerator), str(a.real.denominator)]
    return ["b", B(a.boolean)]


def d_pe(m):
    return ["pe", d_atom(m.atom), [d_pe(x) for x in m.list], m.type, proto.ExpressionKind.Name(m.kind)]


EFFK = {0: "assign", 1: "increase", 2: "decrease"}


def d_effect(m):
    return ["eff", proto.EffectExpression.EffectKind.Name(m.kind).lower(), d_pe(m.fluent), d_pe(m.value), d_pe(m.condition),
            [d_pe(x) for x in m.forall]]


def d_duration(m):
    b = m.controllable_in_bounds
    return ["dur", B(b.is_left_open), d_pe(b.lower), B(b.is_right_open), d_pe(b.upper)]


def d_action(m):
    return ["action", m.name, [[p.name, p.type] for p in m.parameters],
            d_duration(m.duration) if m.HasField("duration") else "none",
            [["cond", d_pe(c.cond), d_interval(c.span) if c.HasField("span") else "none"] for c in m.conditions],
            [["e", d_effect(e.effect), d_timing(e.occurrence_time) if e.HasField("occurrence_time") else "none"] for e in m.effects]]


def d_problem(m):
    return ["problem", m.problem_name, [[t.type_name, t.parent_type] for t in m.types],
            [[f.name, f.value_type, [[p.name, p.type] for p in f.parameters],
              d_pe(f.default_value) if f.HasField("default_value") else "none"] for f in m.fluents],
            [[o.name, o.type] for o in m.objects], [d_action(a) for a in m.actions],
            [[d_pe(a.fluent), d_pe(a.value)] for a in m.initial_state],
            [[d_effect(t.effect), d_timing(t.occurrence_time)] for t in m.timed_effects],
            [[d_pe(g.goal), d_interval(g.timing) if g.HasField("timing") else "none"] for g in m.goals],
            d_real(m.epsilon) if m.HasField("epsilon") else "none", B(m.discrete_time), B(m.self_overlapping)]


# ------------------------------------------------------------------------------------------------
# running the real code on one modelled case
# ------------------------------------------------------------------------------------------------

class Reject(Exception):
    pass


def write(x, *args):
    """the REAL writer on a fresh converter (a failed walk leaves the walker's stack dirty, C14)"""
    try:
        return ProtobufWriter().convert(x, *args)
    except BaseException as e:   # noqa: any exception = the writer does not accept the object
        raise Reject(type(e).__name__)


def answer(build, dump, read, enc):
    try:
        obj = build()
        msg = write(obj)
    except Reject:
        return "reject", None, None
    m = dump(msg)
    try:
        back = read(msg)
        d = enc(back)
    except BaseException:
        return [["msg", m], ["dec", "err"]], obj, None
    return [["msg", m], ["dec", d]], obj, back


def run_case(payload):
    """-> (canonical answer, original object or None, object read back or None)"""
    k = payload[0]
    if k == "ty":
        ctx = Ctx()
        P = Problem("t", ctx.env)
        for n in payload[1]:
            P._add_user_type(ctx.tm.UserType(n))
        t = ctx.tm.UserType(payload[2][1]) if payload[2][0] == "user" else ctx.ty(payload[2])
        try:
            s = proto_type(t)
        except BaseException:
            return "reject", None, None
        try:
            back = convert_type_str(s, P)
            return [["msg", s], ["dec", enc_ty(back)]], t, back
        except BaseException:
            return [["msg", s], ["dec", "err"]], t, None
    if k == "tystr":
        ctx = Ctx()
        P = Problem("t", ctx.env)
        for n in payload[1]:
            P._add_user_type(ctx.tm.UserType(n))
        try:
            return ["dec", enc_ty(convert_type_str(payload[2], P))], None, None
        except BaseException:
            return ["dec", "err"], None, None
    if k == "real":
        return answer(lambda: Fraction(payload[1]), d_real, lambda m: ProtobufReader().convert(m), q2s)
    if k == "timing":
        return answer(lambda: mk_timing(payload[1]), d_timing, lambda m: ProtobufReader().convert(m), enc_timing)
    if k == "interval":
        return answer(lambda: mk_interval(payload[1]), d_interval, lambda m: ProtobufReader().convert(m), enc_interval)
    if k in ("expr", "effect", "action"):
        ctx, P = ctx_problem(payload[1])
        if k == "expr":
            def enc(x):
                if not isinstance(x, FNode):
                    raise TypeError("not an expression")
                return enc_expr(x)
            return answer(lambda: ctx.expr(payload[2]), d_pe, lambda m: ProtobufReader().convert(m, P), enc)
        if k == "effect":
            return answer(lambda: mk_effect(ctx, payload[2]), d_effect, lambda m: ProtobufReader().convert(m, P), enc_effect)
        return answer(lambda: mk_action(ctx, payload[2]), d_action, lambda m: ProtobufReader().convert(m, P), enc_action)
    if k == "problem":
        box = {}

        def build():
            P, ctx = mk_problem(payload[1])
            box["env"] = ctx.env
            return P
        return answer(build, d_problem, lambda m: ProtobufReader().convert(m, box["env"]), enc_problem)
    raise ValueError(k)


def impl(payload):
    if payload[0] == "rt":
        return "oracle-only"
    return run_case(payload)[0]


# ------------------------------------------------------------------------------------------------
# the property itself, on the real code
# ------------------------------------------------------------------------------------------------

def rt_check(obj, read, what, same=None):
    """`read(write(obj)) == obj` for objects the writer accepts"""
    try:
        msg = write(obj)
    except Reject:
        return None
    try:
        back = read(msg)
    except BaseException as e:
        return f"{what}: the reader fails on the writer's own message ({type(e).__name__}: {str(e)[:120]})"
    if same is not None:
        return same(obj, back)
    if not (back == obj):
        return f"{what}: the object read back differs from the original"
    return None


def same_problem(p, q):
    if type(p) is not type(q):
        return f"problem read back as {type(q).__name__}, was {type(p).__name__}"
    if not (q == p):
        return "problem read back differs from the original"
    if q.kind != p.kind:
        return "problem read back has a different kind"
    return None


def well_scoped(cs, s):
    """the expression only mentions what the context declares, with the declared types"""
    types = set(n for n, _ in cs[1][1:])
    objs = {n: t for n, t in cs[2][1:]}
    fls = {r[0]: r for r in cs[3][1:]}

    def ty_ok(t):
        return t[0] != "user" or t[1] in types

    def go(e):
        h = e[0]
        if h == "o":
            return objs.get(e[1]) == e[2] and e[2] in types
        if h in ("p", "v"):
            return ty_ok(e[2])
        if h == "fl":
            r = e[1]
            return fls.get(r[0]) == r and r[0] not in objs and ty_ok(r[1]) and all(ty_ok(t) for t in r[2]) and all(go(a) for a in e[2:])
        if h in ("exists", "forall"):
            return all(ty_ok(t) for _, t in e[1]) and go(e[2])
        if h in ("b", "i", "r", "tm", "present"):
            return True
        return all(go(a) for a in e[1:])
    return go(s)


def scoped_parts(payload):
    k = payload[0]
    if k == "expr":
        return [payload[2]]
    if k == "effect":
        e = payload[2]
        return [e[2], e[3], e[4]] + [["v", n, t] for n, t in e[5]]
    if k == "action":
        a = payload[2]
        out = [["p", n, t] for n, t in a[2]]
        if a[0] == "action":
            out += a[3][1:]
            effs = a[4][1:]
        else:
            out += [a[3][1], a[3][2]] + [e for c in a[4][1:] for e in c[1:]]
            effs = [e for g in a[5][1:] for e in g[1:]]
        for e in effs:
            out += [e[2], e[3], e[4]] + [["v", n, t] for n, t in e[5]]
        return out
    return []


def oracle(payload):
    k = payload[0]
    if k == "rt":
        return rt_oracle(payload)
    if k == "tystr":
        return None                      # reader-only probe: no object to round-trip
    if k in ("expr", "effect", "action") and not all(well_scoped(payload[1], p) for p in scoped_parts(payload)):
        return None                      # not an object of the problem the reader is given
    if k == "ty" and payload[2][0] == "user" and payload[2][1] not in payload[1]:
        return None
    ans, obj, back = run_case(payload)
    if ans == "reject":
        return None
    if ans[1][1] == "err":
        return f"{k}: the reader fails on the writer's own message"
    if k == "problem":
        return same_problem(obj, back)
    if not (back == obj):
        return f"{k}: the object read back differs from the original"
    return None


# -- rt stream ----------------------------------------------------------------------------------

_EX = {}


def examples():
    if not _EX:
        from unified_planning.test.examples import get_example_problems
        _EX.update(get_example_problems())
    return _EX


def plan_ok(pl):
    """generators / bundled plans inside the assumptions (finding D-C20c is replayed by its witness)"""
    if isinstance(pl, SequentialPlan):
        return len(pl.actions) > 0
    if isinstance(pl, TimeTriggeredPlan):
        return len(pl.timed_actions) > 0 and all(d is None or d != 0 for _, _, d in pl.timed_actions)
    return True


def same_schema_fields(a, b, fields):
    for f in fields:
        if getattr(a, f) != getattr(b, f):
            return f"result field `{f}` differs after the round trip"
    return None


def norm_logs(x):
    return x if x else None


def rt_oracle(payload):
    k = payload[1]
    if k == "example":
        ex = examples()[payload[2]]
        p = ex.problem
        v = rt_check(p, lambda m: ProtobufReader().convert(m), "problem", same_problem)
        if v:
            return v
        for pl in list(ex.valid_plans) + list(ex.invalid_plans):
            if not plan_ok(pl):
                continue
            v = rt_check(pl, lambda m: ProtobufReader().convert(m, p), "plan")
            if v:
                return v
        if p.kind.has_continuous_time() and isinstance(p, Problem):
            q = p.clone()
            q.epsilon = Fraction(2, 7)
            q.self_overlapping = True
            q.discrete_time = True
            v = rt_check(q, lambda m: ProtobufReader().convert(m), "problem(epsilon/flags)", same_problem)
            if v:
                return v
        return None
    if k == "problem":
        P, ctx = mk_problem(payload[2])
        return rt_check(P, lambda m: ProtobufReader().convert(m, ctx.env), "problem", same_problem)
    if k == "plan":
        P, ctx = mk_problem(payload[2])
        pl = mk_plan(P, ctx, payload[3])
        v = rt_check(pl, lambda m: ProtobufReader().convert(m, P), "plan")
        if v:
            return v
        if payload[4] != "_":     # wrapped in a PlanGenerationResult
            r = mk_plangen(pl, payload[4])
            return rt_check(r, lambda m: ProtobufReader().convert(m, P), "plan generation result",
                            lambda a, b: same_schema_fields(a, b, ["status", "plan", "engine_name", "metrics", "log_messages"]))
        return None
    if k == "validation":
        r = ValidationResult(status=getattr(ValidationResultStatus, payload[2]), engine_name=payload[3],
                             log_messages=mk_logs(payload[4]), metrics=mk_metrics(payload[5]))
        return rt_check(r, lambda m: ProtobufReader().convert(m), "validation result",
                        lambda a, b: same_schema_fields(a, b, ["status", "engine_name", "metrics"]) or
                        (None if norm_logs(a.log_messages) == norm_logs(b.log_messages) else "result field `log_messages` differs"))
    if k == "compile":
        return compile_oracle(payload[2], payload[3])
    if k == "sched":
        P = mk_sched(random.Random(int(payload[2])))
        return rt_check(P, lambda m: ProtobufReader().convert(m, P.environment), "scheduling problem", same_problem)
    if k == "htn":
        P = mk_htn(random.Random(int(payload[2])))
        return rt_check(P, lambda m: ProtobufReader().convert(m, P.environment), "hierarchical problem", same_problem)
    if k == "simeff":
        P = mk_simeff(random.Random(int(payload[2])))
        return rt_check(P, lambda m: ProtobufReader().convert(m, P.environment), "problem with simulated effects", same_problem)
    raise ValueError(payload)


def mk_logs(s):
    if s == "_":
        return None
    return [LogMessage(getattr(LogLevel, lv), msg) for lv, msg in s]


def mk_metrics(s):
    if s == "_":
        return None
    return {k: v for k, v in s}


def mk_plangen(plan, s):
    status, engine, logs, metrics = s
    return PlanGenerationResult(getattr(PlanGenerationResultStatus, status), plan, engine, metrics=mk_metrics(metrics),
                                log_messages=mk_logs(logs))


def mk_plan(P, ctx, s):
    """(seq (action obj*)*) | (tt (start action dur|_ obj*)*)"""
    def inst(name, objs):
        return ActionInstance(P.action(name), tuple(ctx.em.ObjectExp(P.object(o)) for o in objs))
    if s[0] == "seq":
        return SequentialPlan([inst(a[0], a[1:]) for a in s[1:]], ctx.env)
    return TimeTriggeredPlan([(Fraction(a[0]), inst(a[1], a[3:]), None if a[2] == "_" else Fraction(a[2])) for a in s[1:]], ctx.env)


_COMPILED = {}


def compiled(name, kind):
    from unified_planning.engines.compilers import (ConditionalEffectsRemover, DisjunctiveConditionsRemover, Grounder,
                                                    NegativeConditionsRemover, QuantifiersRemover)
    comp = {"GROUNDING": Grounder, "QUANTIFIERS_REMOVING": QuantifiersRemover, "CONDITIONAL_EFFECTS_REMOVING": ConditionalEffectsRemover,
            "DISJUNCTIVE_CONDITIONS_REMOVING": DisjunctiveConditionsRemover, "NEGATIVE_CONDITIONS_REMOVING": NegativeConditionsRemover}[kind]
    if (name, kind) not in _COMPILED:
        p = examples()[name].problem
        try:
            _COMPILED[(name, kind)] = comp().compile(p, getattr(CompilationKind, kind))
        except BaseException:
            _COMPILED[(name, kind)] = None    # the compiler does not support the problem: nothing to round-trip
    return _COMPILED[(name, kind)]


def lifted_result(name, kind):
    """the compiled problem keeps parameterised actions (finding D-C20f: only ground results can be read back)"""
    res = compiled(name, kind)
    return res is not None and any(a.parameters for a in res.problem.actions)


def compile_oracle(name, kind):
    p = examples()[name].problem
    res = compiled(name, kind)
    if res is None:
        return None

    def same(a, b):
        v = same_problem(a.problem, b.problem)
        if v:
            return "compilation result: " + v
        v = same_schema_fields(a, b, ["engine_name", "metrics"])
        if v:
            return v
        if norm_logs(a.log_messages) != norm_logs(b.log_messages):
            return "result field `log_messages` differs"
        for act in a.problem.actions:
            if act.parameters:
                continue
            x, y = a.map_back_action_instance(ActionInstance(act)), b.map_back_action_instance(ActionInstance(act))
            if (x is None) != (y is None) or (x is not None and (x.action != y.action or x.actual_parameters != y.actual_parameters)):
                return f"map_back_action_instance differs on {act.name}"
        return None
    return rt_check(res, lambda m: ProtobufReader().convert(m, p), "compilation result", same)


def mk_sched(r):
    from unified_planning.model.scheduling import SchedulingProblem
    from unified_planning.shortcuts import (LE, LT, ClosedTimeInterval, GlobalEndTiming, GlobalStartTiming, IntType, MinimizeMakespan, Not,
                                            OpenTimeInterval, RealType, RightOpenTimeInterval, TimePointInterval, UserType)
    env = get_environment()    # Activity / Subtask constructors only work in the global environment
    P = SchedulingProblem(f"s{r.randint(0, 9)}", env)
    T = env.type_manager.UserType("T")
    os_ = [P.add_object(f"o{i}", T) for i in range(r.randint(1, 3))]
    f = P.add_fluent("f", env.type_manager.IntType(0, r.choice([5, 9])), default_initial_value=0)
    b = P.add_fluent("b", env.type_manager.BoolType(), default_initial_value=False)
    z = P.add_fluent("z", env.type_manager.RealType(Fraction(-1, 2), None), default_initial_value=Fraction(1, 3))
    res = P.add_resource("res", r.randint(1, 4))
    acts = []
    for i in range(r.randint(1, 3)):
        if r.random() < 0.5:
            a = P.add_activity(f"a{i}", duration=r.randint(1, 5), optional=r.random() < 0.3)
        else:
            a = P.add_activity(f"a{i}", optional=r.random() < 0.3)
            lo = r.randint(1, 3)
            a.set_duration_bounds(lo, lo + r.randint(0, 4))
        if r.random() < 0.5:
            a.add_parameter("k", T)
        if r.random() < 0.6:
            a.uses(res, 1)
        if r.random() < 0.5:
            a.add_increase_effect(a.start + r.choice([0, 1, Fraction(1, 2)]), f, 1)
        if r.random() < 0.4:
            a.add_effect(a.end, b, True)
        if r.random() < 0.4:
            a.add_condition(ClosedTimeInterval(a.start + 0, a.end - r.choice([0, Fraction(1, 3)])), LE(f, 3))
        acts.append(a)
    if len(acts) > 1:
        P.add_constraint(LT(acts[0].end, acts[1].start))
        if r.random() < 0.5:
            P.add_constraint(LE(acts[1].end, acts[0].start + 30), [acts[1].present])
    if r.random() < 0.5:
        v = P.add_variable("v", env.type_manager.IntType(0, 10))
        P.add_constraint(LE(v, 5))
    if r.random() < 0.6:
        P.add_condition(TimePointInterval(GlobalEndTiming()), b)
    if r.random() < 0.4:
        P.add_condition(RightOpenTimeInterval(GlobalStartTiming(r.choice([1, Fraction(5, 2)])), GlobalEndTiming()), LE(f, 4))
    if r.random() < 0.4:
        P.add_effect(GlobalStartTiming(r.randint(1, 4)), f, 2)
    if r.random() < 0.4:
        P.add_quality_metric(MinimizeMakespan(env))
    return P


def mk_simeff(r):
    """a problem with a simulated effect: no protobuf representation, the writer has to refuse it"""
    from unified_planning.model import SimulatedEffect
    env = Environment()
    tm, em = env.type_manager, env.expression_manager
    P = Problem("sim", env)
    f = up.model.Fluent("f", tm.BoolType(), OrderedDict(), env)
    x = up.model.Fluent("x", tm.IntType(0, 10), OrderedDict(), env)
    P.add_fluent(f, default_initial_value=False)
    P.add_fluent(x, default_initial_value=0)
    if r.random() < 0.5:
        a = InstantaneousAction("a", OrderedDict(), env)
        a.add_precondition(em.Not(em.FluentExp(f)))
        a.add_effect(f, True)
        a.set_simulated_effect(SimulatedEffect([em.FluentExp(x)], lambda problem, state, params: [em.Int(3)]))
    else:
        a = DurativeAction("a", OrderedDict(), env)
        a.set_duration_constraint(DurationInterval(em.Int(2), em.Int(2)))
        a.add_effect(Timing(0, Timepoint(TimepointKind.END)), f, True)
        a.set_simulated_effect(Timing(0, Timepoint(TimepointKind.START)),
                               SimulatedEffect([em.FluentExp(x)], lambda problem, state, params: [em.Int(3)]))
    P.add_action(a)
    P.add_goal(em.FluentExp(f))
    return P


def mk_htn(r):
    from unified_planning.model.htn import HierarchicalProblem, Method, Task
    env = get_environment()
    tm, em = env.type_manager, env.expression_manager
    P = HierarchicalProblem(f"h{r.randint(0, 9)}", env)
    L = tm.UserType("Loc")
    ls = [P.add_object(f"l{i}", L) for i in range(r.randint(2, 3))]
    at = up.model.Fluent("at", tm.BoolType(), OrderedDict(l=L), env)
    P.add_fluent(at, default_initial_value=False)
    n = up.model.Fluent("n", tm.IntType(0, None) if r.random() < 0.5 else tm.RealType(None, Fraction(9, 2)), OrderedDict(), env)
    P.add_fluent(n, default_initial_value=0)
    P.set_initial_value(at(ls[0]), True)
    if r.random() < 0.5:
        mv = InstantaneousAction("move", OrderedDict(a=L, b=L), env)
        mv.add_precondition(at(mv.a))
        mv.add_effect(at(mv.a), False)
        mv.add_effect(at(mv.b), True)
        mv.add_increase_effect(n, 1)
    else:
        mv = DurativeAction("move", OrderedDict(a=L, b=L), env)
        mv.set_duration_constraint(DurationInterval(em.Int(1), em.Int(r.randint(2, 4)), r.random() < 0.5, False))
        mv.add_condition(TimeInterval(Timing(0, Timepoint(TimepointKind.START)), Timing(0, Timepoint(TimepointKind.START))), at(mv.a))
        mv.add_effect(Timing(0, Timepoint(TimepointKind.START)), at(mv.a), False)
        mv.add_effect(Timing(0, Timepoint(TimepointKind.END)), at(mv.b), True)
    P.add_action(mv)
    go = Task("go", OrderedDict(to=L), env)
    P.add_task(go)
    m0 = Method("m-noop", OrderedDict(to=L), env)
    m0.set_task(go, m0.to)
    m0.add_precondition(at(m0.to))
    P.add_method(m0)
    m1 = Method("m-move", OrderedDict(to=L, frm=L), env)
    m1.set_task(go, m1.to)
    m1.add_precondition(at(m1.frm))
    s1 = m1.add_subtask(mv, m1.frm, m1.to, ident="s1")
    if r.random() < 0.5:
        s2 = m1.add_subtask(go, m1.to, ident="s2")
        m1.set_ordered(s1, s2)
    if r.random() < 0.4:
        m1.add_constraint(em.Not(em.Equals(m1.frm, m1.to)))
    P.add_method(m1)
    t1 = P.task_network.add_subtask(go, ls[-1], ident="t1")
    if r.random() < 0.5:
        t2 = P.task_network.add_subtask(go, ls[0], ident="t2")
        P.task_network.set_ordered(t1, t2)
    if r.random() < 0.3:
        v = P.task_network.add_variable("w", L)
        P.task_network.add_subtask(go, v, ident="t3")
    if r.random() < 0.5:
        P.add_goal(at(ls[-1]))
    return P


# ------------------------------------------------------------------------------------------------
# generators
# ------------------------------------------------------------------------------------------------

INTS = [0, 1, -1, 5, -4, 10, 2 ** 53 + 1, -(2 ** 53) - 1, I64 - 1, -I64, I64, -I64 - 1, 10 ** 30, -(10 ** 30)]
FRACS = [Fraction(0), Fraction(1, 2), Fraction(-1, 3), Fraction(7, 2), Fraction(5), Fraction(-9, 4), Fraction(10 ** 30, 7),
         Fraction(-(10 ** 30), 10 ** 20 + 1), Fraction(I64 - 1, 3), Fraction(-I64, 3), Fraction(I64, 3), Fraction(1, I64 - 1),
         Fraction(1, I64 + 1), Fraction(2, 1)]
NAMES = ["T", "S", "loc", "my type", "a[b", "a,b", "a, b]", "T - S", "xup:integer[3", "a up:real[1, 2] b", "integer", "up",
         "up:bool", "up:integer", "up:real", "up:time", "up:integer[0, 1]", "up:real[-inf, 2]", "up:foo", "up:"]
CONTAINERS = [None, None, "a", "act 1", "move", "up:start", "x.y"]


def g_int(r):
    return r.choice(INTS) if r.random() < 0.5 else r.randint(-50, 50)


def g_frac(r):
    return r.choice(FRACS) if r.random() < 0.6 else Fraction(r.randint(-40, 40), r.randint(1, 12))


def g_ty(r, types=("T", "S")):
    k = r.random()
    if k < 0.1:
        return "bool"
    if k < 0.45:
        return ["int", "_" if r.random() < 0.35 else str(g_int(r)), "_" if r.random() < 0.35 else str(g_int(r))]
    if k < 0.8:
        return ["real", "_" if r.random() < 0.35 else q2s(g_frac(r)), "_" if r.random() < 0.35 else q2s(g_frac(r))]
    return ["user", r.choice(list(types))]


def g_timing(r, big=True):
    kind = r.choice(["global_start", "global_end", "start", "end"])
    c = r.choice(CONTAINERS)
    d = Fraction(0) if r.random() < 0.3 else (g_frac(r) if big else Fraction(r.randint(-6, 12), r.choice([1, 1, 2, 3])))
    return ["tm", kind, ["c"] if c is None else ["c", c], q2s(d)]


def g_interval(r, big=True):
    return ["ti", g_timing(r, big), g_timing(r, big), B(r.random() < 0.5), B(r.random() < 0.5)]


TYSTR_FRAGS = ["up:bool", "up:integer", "up:real", "up:time", "up:integer[", "up:real[", "up:", "[", "]", ", ", ",", "-inf", "inf", "-",
               "/", "0", "1", "12", "-3", "7/2", "1/0", "T", "S", "x", "a"]


def g_tystr(r, types=()):
    k = r.random()
    if k < 0.3:     # a writer output, possibly embedded in other text
        t = g_ty(r)
        ctx = Ctx()
        try:
            s = proto_type(ctx.tm.UserType(t[1]) if t[0] == "user" else ctx.ty(t))
        except BaseException:
            s = "T"
        j = r.random()
        if j < 0.5:
            return s
        if j < 0.7:
            return r.choice(["x", "a ", "T"]) + s
        if j < 0.85:
            return s + r.choice(["x", "]", " "])
        return s.replace(", ", r.choice([",", ";", "; "]))
    if k < 0.6:     # bracketed forms with every kind of bound text
        b = ["-inf", "inf", "0", "12", "-3", "7/2", "-1/3", "1/0", "x", "", "--1", "3-", "1/2/3", "/2", "10000000000000000000000000000001"]
        return r.choice(["up:integer[", "up:real["]) + r.choice(b) + r.choice([", ", ", ", ", ", ",", ";"]) + r.choice(b) + r.choice(["]", "]", "]", "", "]]", "]x"])
    if k < 0.75 and types:
        return r.choice(list(types)) + r.choice(["", "", "", "x", " "])
    return "".join(r.choice(TYSTR_FRAGS) for _ in range(r.randint(1, 6)))


EG_TYPES = [["T", "_"], ["S", "T"], ["U", "_"], ["E", "_"]]


def expr_ctx(e, r=None, extra=()):
    fn = upx.free_names(e)
    for x in extra:
        upx.free_names(x, fn)
    objs = [[o[1], o[2]] for o in fn["o"]]
    types = [list(t) for t in EG_TYPES]
    return ["ctx", ["types"] + types, ["objects"] + objs, ["fluents"] + fn["fl"]]


def spoil_ctx(r, cs):
    """ill-scoped variant: drop a declaration or change a declared type"""
    cs = [cs[0], list(cs[1]), list(cs[2]), list(cs[3])]
    k = r.random()
    if k < 0.35 and len(cs[2]) > 1:
        del cs[2][r.randrange(1, len(cs[2]))]
    elif k < 0.7 and len(cs[3]) > 1:
        del cs[3][r.randrange(1, len(cs[3]))]
    else:
        # a childless type: the expression can still be built, the reader's problem does not declare it
        rest = sexp.dumps([cs[2], cs[3]])     # add_object / add_fluent declare the types they mention
        leaf = [t for t in cs[1][1:] if t[1] == "_" and not any(f == t[0] for _, f in cs[1][1:]) and sexp.dumps(["user", t[0]]) not in rest
                and not any(ot == t[0] for _, ot in cs[2][1:])]
        if leaf:
            cs[1].remove(r.choice(leaf))
    return cs


def temporalise(r, e, depth=0):
    """plant timing / presence leaves and boundary constants into an ExprGen expression"""
    if not isinstance(e, list) or not e:
        return e
    h = e[0]
    if h in ("le", "lt", "eq") and r.random() < 0.25 and e[1][0] in ("i", "r", "fl", "plus", "minus", "times", "div", "p"):
        a = g_timing(r)
        b = g_timing(r) if r.random() < 0.6 else ["i", str(r.randint(0, 20))]
        return [h, a, b] if r.random() < 0.5 else [h, b, a]
    if h == "fl" and e[1][1] == "bool" and not e[1][2] and r.random() < 0.1:
        return ["present", r.choice(["a", "act 1", "b"])]
    if h == "i" and r.random() < 0.08:
        return ["i", str(r.choice(INTS))]
    if h == "r" and r.random() < 0.15:
        return ["r", q2s(r.choice([f for f in FRACS if f.denominator != 1]))]
    if h in ("b", "i", "r", "o", "p", "v", "tm", "present"):
        return e
    if h == "fl":
        return [h, e[1]] + [temporalise(r, a, depth + 1) for a in e[2:]]
    if h in ("exists", "forall"):
        return [h, e[1], temporalise(r, e[2], depth + 1)]
    return [h] + [temporalise(r, a, depth + 1) for a in e[1:]]


def retype(r, e):
    """give some parameters / variables bounded or half-bounded numeric types"""
    if not isinstance(e, list) or not e:
        return e
    if e[0] == "p" and e[2] != "bool" and e[2][0] in ("int", "real") and r.random() < 0.5:
        t = g_ty(r)
        while t == "bool" or t[0] != e[2][0]:
            t = g_ty(r)
        return ["p", e[1], t]
    if e[0] in ("b", "i", "r", "o", "p", "v", "tm", "present"):
        return e
    if e[0] == "fl":
        return [e[0], e[1]] + [retype(r, a) for a in e[2:]]
    if e[0] in ("exists", "forall"):
        return [e[0], e[1], retype(r, e[2])]
    return [e[0]] + [retype(r, a) for a in e[1:]]


def g_expr_case(r):
    eg = upx.ExprGen(r, big=False, quantifiers=True, ifuns=False, params=True)
    for _ in range(50):
        e = eg.boolean(r.choice([1, 2, 2, 3])) if r.random() < 0.7 else eg.num(r.choice([1, 2, 3]))
        e = retype(r, temporalise(r, e))
        cs = expr_ctx(e)
        try:     # ExprGen also produces ill-typed equalities (for C15); those cannot be built
            ctx_problem(cs)[0].expr(e)
        except BaseException:
            continue
        if r.random() < 0.06:
            cs = spoil_ctx(r, cs)
        return ["expr", cs, e]
    return ["expr", expr_ctx(["b", "T"]), ["b", "T"]]


def canon_effect(e):
    """what Effect.__init__ keeps of `forall`: the variables that occur in fluent / value / condition"""
    used = sexp.dumps([e[2], e[3], e[4]])
    return e[:5] + [[v for v in e[5] if sexp.dumps(["v", v[0], v[1]]) in used]]


def canon_action(a):
    """what add_precondition keeps: no TRUE, no duplicates"""
    if a[0] != "action":
        return a[:5] + [["effs"] + [[g[0]] + [canon_effect(e) for e in g[1:]] for g in a[5][1:]]]
    pre = []
    for c in a[3][1:]:
        if c != ["b", "T"] and c not in pre:
            pre.append(c)
    return [a[0], a[1], a[2], ["pre"] + pre, ["effs"] + [canon_effect(e) for e in a[4][1:]]]


def durative_from(r, pg, i):
    """turn a ProblemGen instantaneous action into a durative one"""
    a = pg.action(i)
    _, name, params, pre, effs = a
    lo = r.choice([["i", "1"], ["i", "2"], ["r", "1/2"], ["fl", pg.FL["xb"]], ["plus", ["fl", pg.FL["xb"]], ["i", "1"]]])
    hi = lo if r.random() < 0.4 else r.choice([["i", "5"], ["r", "11/2"], ["plus", ["fl", pg.FL["x"]], ["i", "7"]]])
    dur = ["dur", lo, hi, B(r.random() < 0.3), B(r.random() < 0.3)]
    conds, seen = [], []
    for c in pre[1:]:
        if c == ["b", "T"]:
            continue
        iv = r.choice([["ti", T_START, T_START, "F", "F"], ["ti", T_START, T_END, "F", "F"], ["ti", T_START, T_END, "T", "F"],
                       ["ti", T_START, T_END, "T", "T"], ["ti", T_END, T_END, "F", "F"],
                       ["ti", ["tm", "start", ["c"], "1/2"], ["tm", "end", ["c"], "-1/3"], "F", "T"]])
        for g in conds:
            if g[0] == iv:
                if c not in g[1:]:
                    g.append(c)
                break
        else:
            conds.append([iv, c])
    groups = []
    for e in effs[1:]:
        tm = r.choice([T_START, T_END, T_END, ["tm", "start", ["c"], "3/2"], ["tm", "end", ["c"], "-1"]])
        for g in groups:
            if g[0] == tm:
                g.append(e)
                break
        else:
            groups.append([tm, e])
    return ["daction", name, params, dur, ["conds"] + conds, ["effs"] + groups]


T_START = ["tm", "start", ["c"], "0"]
T_END = ["tm", "end", ["c"], "0"]


def buildable(ctxs, a):
    """the real model-building API accepts the action (conflicting effects etc. are rejected there)"""
    try:
        ctx, P = ctx_problem(ctxs)
        mk_action(ctx, a)
        return True
    except BaseException:
        return False


def action_exprs(a):
    if a[0] == "action":
        effs = a[4][1:]
        out = list(a[3][1:])
    else:
        effs = [e for g in a[5][1:] for e in g[1:]]
        out = [a[3][1], a[3][2]] + [e for c in a[4][1:] for e in c[1:]]
    for e in effs:
        out += [e[2], e[3], e[4]]
    return out


def pg_ctx(pg, exprs):
    fn = {"fl": [], "p": [], "v": [], "o": [], "ifun": []}
    for x in exprs:
        upx.free_names(x, fn)
    return ["ctx", ["types", ["T", "_"], ["S", "T"], ["U", "_"]], ["objects"] + [list(o) for o in pg.OBJECTS], ["fluents"] + fn["fl"]]


def g_action_case(r):
    pg = upp.ProblemGen(r, undefined=False, invariants=False, metrics=False)
    for _ in range(30):
        a = canon_action(pg.action(0) if r.random() < 0.5 else durative_from(r, pg, 0))
        if r.random() < 0.3 and a[2]:   # numeric parameter with bounded / half-bounded type
            a[2].append(["k", g_ty(r, ("T", "S", "U"))])
        cs = pg_ctx(pg, action_exprs(a))
        if buildable(cs, a):
            if r.random() < 0.05:
                cs = spoil_ctx(r, cs)
            return ["action", cs, a]
    return ["action", pg_ctx(pg, []), ["action", "noop", [], ["pre"], ["effs"]]]


def g_effect_case(r):
    pg = upp.ProblemGen(r, undefined=False, invariants=False, metrics=False)
    params = [["p0", ["user", r.choice(["T", "S"])]]] if r.random() < 0.5 else []
    for _ in range(30):
        e = pg.effect(params)
        if r.random() < 0.3:
            e = [e[0], e[1], e[2], temporalise(r, e[3]), temporalise(r, e[4]), e[5]]
        e = canon_effect(e)
        cs = pg_ctx(pg, [e[2], e[3], e[4]])
        try:
            ctx, P = ctx_problem(cs)
            mk_effect(ctx, e)
        except BaseException:
            continue
        if r.random() < 0.05:
            cs = spoil_ctx(r, cs)
        return ["effect", cs, e]
    return None


def g_problem(r, temporal=True, metrics=False, traj=False):
    """extended problem s-expression accepted by the real model-building API"""
    pg = upp.ProblemGen(r, undefined=True, invariants=traj, metrics=metrics)
    for _ in range(40):
        ps = pg.problem("p" + str(r.randint(0, 99)))
        d = {s[0]: s[1:] for s in ps[2:]}
        acts = []
        for i, a in enumerate(d["actions"]):
            acts.append(canon_action(durative_from(r, pg, i) if temporal and r.random() < 0.5 else a))
        fluents = [list(f) for f in d["fluents"]]
        if r.random() < 0.6:      # half-bounded / rational-bounded / large-bounded numeric fluents
            for nm in (["hb", "hr", "big"] if r.random() < 0.5 else ["hr"]):
                t = {"hb": ["int", r.choice(["_", "-3"]), r.choice(["_", "7"])], "hr": r.choice([["real", "0", "_"], ["real", "_", "7/2"], ["real", "-1/3", "_"]]),
                     "big": ["int", str(-(10 ** 30)), str(10 ** 30)]}[nm]
                dv = ["i", "1"] if t[0] == "int" else r.choice([["r", "1/3"], ["i", "1"]])
                fluents.append([[nm, t, []], dv if r.random() < 0.7 else "_"])
        tgoals, teffs = [], []
        if temporal and r.random() < 0.5:
            for _ in range(r.randint(1, 2)):
                iv = r.choice([["ti", ["tm", "global_start", ["c"], "2"], ["tm", "global_start", ["c"], "2"], "F", "F"],
                               ["ti", ["tm", "global_start", ["c"], "1/2"], ["tm", "global_end", ["c"], "0"], "T", "F"],
                               ["ti", ["tm", "global_start", ["c"], "0"], ["tm", "global_start", ["c"], "15/4"], "F", "T"]])
                g = pg.cond([], (), 1)
                if g == ["b", "T"]:
                    continue
                for x in tgoals:
                    if x[0] == iv:
                        if g not in x[1:]:
                            x.append(g)
                        break
                else:
                    tgoals.append([iv, g])
        if temporal and r.random() < 0.5:
            for _ in range(r.randint(1, 3)):
                tm = ["tm", "global_start", ["c"], r.choice(["1", "5/2", "7", "1"])]
                e = canon_effect(pg.effect([]))
                for x in teffs:
                    if x[0] == tm:
                        x.append(e)
                        break
                else:
                    teffs.append([tm, e])
        goals = [g for g in d["goals"] if g != ["b", "T"]]
        out = ["problem", ps[1] if r.random() < 0.9 else ["none"], ["types"] + d["types"], ["objects"] + d["objects"], ["fluents"] + fluents,
               ["init"] + d["init"], ["actions"] + acts, ["goals"] + goals, ["tgoals"] + tgoals, ["teffs"] + teffs,
               ["eps", r.choice(["_", "_", "1/1000", "2"]) if temporal else "_"],
               ["flags", B(temporal and r.random() < 0.2), B(temporal and r.random() < 0.2)]]
        if traj:
            out.append(["traj"] + d["traj"])
        if metrics:
            ms = list(d["metrics"])
            if temporal and r.random() < 0.3:
                ms = [["min-makespan"]] if r.random() < 0.5 or not tgoals else [["temporal-oversub", [[tgoals[0][0], tgoals[0][1], r.choice(["1", "5/2"])]]]]
            out.append(["metrics"] + ms)
        if "(user E)" in sexp.dumps(out):
            continue     # a type used by a quantified variable only is not in Problem.user_types (finding D-C20e)
        try:
            P, ctx = mk_problem(out)
            P.kind
        except BaseException:
            continue
        return out
    raise RuntimeError("generator could not build a problem")


def g_plan(r, ps):
    """a plan over the problem's actions with object-typed parameters (validity is irrelevant to the wire format)"""
    acts = [a for a in sec(ps, "actions") if all(t[0] == "user" for _, t in a[2])]
    if not acts:
        return None
    objs = sec(ps, "objects")
    fathers = {n: (None if f == "_" else f) for n, f in sec(ps, "types")}

    def is_sub(t, u):
        while t is not None:
            if t == u:
                return True
            t = fathers.get(t)
        return False

    def inst(a):
        out = []
        for _, t in a[2]:
            c = [n for n, ot in objs if is_sub(ot, t[1])]
            if not c:
                return None
            out.append(r.choice(c))
        return out
    steps = []
    for _ in range(r.randint(1, 4)):
        a = r.choice(acts)
        o = inst(a)
        if o is not None:
            steps.append((a, o))
    if not steps:
        return None
    if all(a[0] == "action" for a, _ in steps) and r.random() < 0.6:
        return ["seq"] + [[a[1]] + o for a, o in steps]
    t, out = Fraction(0), []
    for a, o in steps:
        t += r.choice([Fraction(0), Fraction(1, 3), Fraction(5, 2), Fraction(10 ** 17 + 1, 7)])
        d = "_" if a[0] == "action" else q2s(r.choice([Fraction(1), Fraction(7, 5), Fraction(1, 1000), Fraction(3)]))
        out.append([q2s(t), a[1], d] + o)
    return ["tt"] + out


STATUSES = ["SOLVED_SATISFICING", "SOLVED_OPTIMALLY", "UNSOLVABLE_PROVEN", "UNSOLVABLE_INCOMPLETELY", "TIMEOUT", "MEMOUT",
            "INTERNAL_ERROR", "UNSUPPORTED_PROBLEM", "INTERMEDIATE"]
LEVELS = ["DEBUG", "INFO", "WARNING", "ERROR"]


def g_logs(r):
    if r.random() < 0.3:
        return "_"
    return [[r.choice(LEVELS), r.choice(["msg", "two words", "", "tab\there", "up:bool"])] for _ in range(r.randint(1, 3))]


def g_metrics(r):
    if r.random() < 0.4:
        return "_"
    return [[k, r.choice(["1", "0.5", "x y"])] for k in r.sample(["time", "expanded states", "k"], r.randint(1, 3))]


COMPILE = [("basic_conditional", "CONDITIONAL_EFFECTS_REMOVING"), ("robot", "GROUNDING"), ("basic_exists", "QUANTIFIERS_REMOVING"),
           ("robot_loader", "GROUNDING"), ("basic_with_object_constant", "GROUNDING"), ("robot_locations_connected", "GROUNDING"),
           ("basic_nested_conjunctions", "DISJUNCTIVE_CONDITIONS_REMOVING"), ("basic", "NEGATIVE_CONDITIONS_REMOVING"),
           ("hierarchical_blocks_world", "GROUNDING"), ("matchcellar", "GROUNDING"), ("robot_fluent_of_user_type", "GROUNDING"),
           ("temporal_conditional", "CONDITIONAL_EFFECTS_REMOVING")]


def cases(rng, tier):
    r = rng
    q = tier == "quick"
    n_ty, n_str, n_sc, n_ex, n_eff, n_act, n_pb = (150, 120, 60, 260, 60, 70, 35) if q else (4000, 4000, 1500, 8000, 1500, 1500, 500)
    n_rt_pb, n_plan, n_res, n_sched, n_htn = (25, 25, 12, 8, 8) if q else (400, 400, 150, 150, 150)
    for _ in range(n_ty):
        types = r.sample(NAMES, r.randint(1, 4))
        t = g_ty(r, types if r.random() < 0.9 else NAMES)
        yield ["ty", types, t]
    for _ in range(n_str):
        types = r.sample(NAMES, r.randint(0, 3)) + (["T"] if r.random() < 0.5 else [])
        yield ["tystr", types, g_tystr(r, types)]
    for _ in range(n_sc):
        yield ["real", q2s(g_frac(r))]
        yield ["timing", g_timing(r)]
        yield ["interval", g_interval(r)]
    for _ in range(n_ex):
        yield g_expr_case(r)
    for _ in range(n_eff):
        c = g_effect_case(r)
        if c:
            yield c
    for _ in range(n_act):
        yield g_action_case(r)
    for _ in range(n_pb):
        yield ["problem", g_problem(r, temporal=r.random() < 0.7)]
    # ---- rt stream -------------------------------------------------------------------------------
    for name in sorted(examples()):
        yield ["rt", "example", name]
    for _ in range(n_rt_pb):
        yield ["rt", "problem", g_problem(r, temporal=r.random() < 0.5, metrics=True, traj=True)]
    for _ in range(n_plan):
        ps = g_problem(r, temporal=r.random() < 0.6)
        pl = g_plan(r, ps)
        if pl is None:
            continue
        res = "_" if r.random() < 0.5 else [r.choice(STATUSES), r.choice(["tamer", "engine x", ""]), g_logs(r), g_metrics(r)]
        yield ["rt", "plan", ps, pl, res]
    for _ in range(n_res):
        yield ["rt", "validation", r.choice(["VALID", "INVALID", "UNKNOWN"]), r.choice(["sequential_plan_validator", "v 2"]), g_logs(r), g_metrics(r)]
    for name, kind in (COMPILE[:5] if q else COMPILE):
        if name in examples() and not lifted_result(name, kind):
            yield ["rt", "compile", name, kind]
    for _ in range(n_sched):
        yield ["rt", "sched", str(r.randint(0, 10 ** 9))]
    for _ in range(n_htn):
        yield ["rt", "htn", str(r.randint(0, 10 ** 9))]
    for i in range(2 if q else 6):
        yield ["rt", "simeff", str(i)]


def search(rng, tier):
    return cases(rng, "thorough")


# ------------------------------------------------------------------------------------------------
# bookkeeping
# ------------------------------------------------------------------------------------------------

def _flat(s):
    return sexp.dumps(s)


def nontrivial(payload, ans):
    k = payload[0]
    if k == "rt":
        return True
    if k == "tystr":
        return ans != ["dec", "err"]
    if ans == "reject" or ans[1][1] == "err":
        return False
    if k == "ty":
        t = payload[2]
        return t != "bool" and not (t[0] in ("int", "real") and t[1] == "_" and t[2] == "_")
    if k == "real":
        return Fraction(payload[1]).denominator != 1 or abs(Fraction(payload[1])) > 2 ** 53
    if k in ("timing", "interval"):
        return True
    txt = _flat(payload[2] if k != "problem" else payload[1])
    return any(w in txt for w in ("(tm ", "(r ", "(user ", "(eff ", "(int -", "(int 0", "(real "))


def stats(payload, ans):
    k = payload[0]
    if k == "rt":
        return ["rt:" + payload[1]]
    if k == "tystr":
        return ["tystr:" + ("err" if ans == ["dec", "err"] else ans[1] if isinstance(ans[1], str) else ans[1][0])]
    t = [k + (":reject" if ans == "reject" else ":reader-err" if ans[1][1] == "err" else ":ok")]
    if k == "ty" and ans != "reject":
        ty = payload[2]
        if ty != "bool" and ty[0] in ("int", "real"):
            t.append(f"{ty[0]}:{'inf' if ty[1] == '_' else 'fin'}-{'inf' if ty[2] == '_' else 'fin'}")
        elif ty != "bool":
            t.append("user-type")
    if k in ("expr", "effect", "action", "problem") and ans != "reject":
        txt = _flat(payload[-1])
        for w, n in (("(tm ", "has-timing"), ("(present ", "has-presence"), ("(exists ", "has-quantifier"), ("(forall ", "has-quantifier"),
                     ("(daction ", "durative"), ("(r ", "real-const")):
            if w in txt:
                t.append(n)
    return t


def shrink(payload):
    k = payload[0]
    if k == "rt" and payload[1] in ("problem", "plan"):
        ps = payload[2]
        for i, s in enumerate(ps):
            if i >= 2 and isinstance(s, list) and len(s) > 1 and s[0] in ("actions", "goals", "tgoals", "teffs", "traj", "metrics", "init"):
                for j in range(1, len(s)):
                    if payload[1] == "plan" and s[0] == "actions":
                        continue
                    q = list(ps)
                    q[i] = s[:j] + s[j + 1:]
                    yield payload[:2] + [q] + payload[3:]
        if payload[1] == "plan":
            pl = payload[3]
            for j in range(1, len(pl)):
                if len(pl) > 2:
                    yield payload[:3] + [pl[:j] + pl[j + 1:]] + payload[4:]
            if payload[4] != "_":
                yield payload[:4] + ["_"]
        return
    if k == "problem":
        ps = payload[1]
        for i, s in enumerate(ps):
            if i >= 2 and isinstance(s, list) and len(s) > 1 and s[0] in ("actions", "goals", "tgoals", "teffs", "init"):
                for j in range(1, len(s)):
                    q = list(ps)
                    q[i] = s[:j] + s[j + 1:]
                    yield ["problem", q]
        return
    if k == "action":
        a = payload[2]
        for i in (3, 4) if a[0] == "action" else (4, 5):
            for j in range(1, len(a[i])):
                b = list(a)
                b[i] = a[i][:j] + a[i][j + 1:]
                yield ["action", payload[1], b]
            if a[0] == "daction":
                for j in range(1, len(a[i])):
                    g = a[i][j]
                    for m in range(1, len(g)):
                        if len(g) > 2:
                            b = list(a)
                            b[i] = a[i][:j] + [g[:m] + g[m + 1:]] + a[i][j + 1:]
                            yield ["action", payload[1], b]
        if len(a[2]) > 0:
            for j in range(len(a[2])):
                b = list(a)
                b[2] = a[2][:j] + a[2][j + 1:]
                yield ["action", payload[1], b]
        return
    if k == "expr":
        e = payload[2]

        def subs(x):
            if isinstance(x, list) and x and x[0] not in ("b", "i", "r", "o", "p", "v", "tm", "present"):
                kids = x[2:] if x[0] in ("fl", "exists", "forall") else x[1:]
                for c in kids:
                    yield c
                    yield from subs(c)
        for c in subs(e):
            yield ["expr", payload[1], c]
    if k == "ty":
        if len(payload[1]) > 1:
            for n in payload[1]:
                if payload[2] == "bool" or payload[2][0] != "user" or payload[2][1] != n:
                    yield ["ty", [m for m in payload[1] if m != n], payload[2]]


def _user_types(s, acc):
    if isinstance(s, list):
        if len(s) == 2 and s[0] == "user" and isinstance(s[1], str):
            acc.add(s[1])
        for x in s:
            _user_types(x, acc)
    return acc


def known_cause(payload):
    """id of the listed finding that explains a failure on this payload"""
    k = payload[0]
    if k == "rt" and payload[1] == "plan":
        pl = payload[3]
        if len(pl) == 1 or (pl[0] == "tt" and any(Fraction(a[2]) == 0 for a in pl[1:] if a[2] != "_")):
            return "D-C20c"     # empty plan / explicit zero duration: not representable
    if k == "rt" and payload[1] == "compile" and lifted_result(payload[2], payload[3]):
        return "D-C20f"         # map_back_plan of a result that keeps action parameters
    ps = payload[1] if k == "problem" else payload[2] if (k == "rt" and payload[1] in ("problem", "plan")) else None
    if ps is not None:
        if ps[1] == "":
            return "D-C20d"     # empty name = absent
        declared = set(n for n, _ in sec(ps, "types"))
        if _user_types(ps, set()) - declared:
            return "D-C20e"     # a type used only by a quantified variable is not in Problem.user_types
    if k in ("timing", "interval") and '(c "")' in _flat(payload):
        return "D-C20d"
    return None


MANIFEST = {
    "level_text": ("Lean 4 theorems (Props/C20.lean) prove, for the executable writer/reader model of the classical / numeric / "
                   "temporal core and for ALL inputs: every type the writer accepts reads back as itself (all finite/infinite "
                   "bound combinations, integers and rationals of any size), Real / timepoint / timing / time-interval messages "
                   "read back exactly, every expression the writer accepts reads back as itself in a problem that declares its "
                   "symbols (structural induction), and so do effects, durations, actions and the modelled problem record. The "
                   "model is tied to proto_writer.py / proto_reader.py by comparing the real writer's message and the real "
                   "reader's result with the model's on generated cases; metrics, trajectory constraints, plans, hierarchical "
                   "and scheduling problems, engine results and all bundled examples are covered by the property oracle "
                   "(reader(writer(x)) == x, same kind) on the real code only."),
    "level_note": ("Trusted: Lean kernel; axioms propext, Classical.choice, Quot.sound; the correspondence harness. Modelled not "
                   "verified: protobuf runtime, int()/Fraction() parsing beyond canonical decimal strings, model-building "
                   "validation re-run by the reader on already valid objects."),
    "technique": "Lean 4 proof of codec round trips + model/code correspondence + end-to-end oracle",
    "design_ref": "DESIGN.md §5 C20",
}
