"""C38 — Writer renamings are valid, injective and invertible (PDDLWriter / ANMLWriter name mangling)."""
import re
import warnings

warnings.simplefilter("ignore")
import unified_planning as up
import unified_planning.io.anml_writer as aw
import unified_planning.io.pddl_writer as pw
from unified_planning.environment import Environment
from unified_planning.exceptions import UPException
from unified_planning.io import ANMLWriter, PDDLWriter
from unified_planning.model import (DurativeAction, Event, Fluent, InstantaneousAction, Object, Parameter, Problem,
                                    Process, Variable)
from unified_planning.model.contingent.contingent_problem import ContingentProblem

ID = "C38"
GEN = ["Keywords"]
CORR_NAME = "chosen-names-and-lookups"
RULE = ("three case shapes over problems with adversarial ASCII identifiers (case variants of one another, PDDL/ANML "
        "keywords, symbols, leading digits, empty names, names equal to the mangled or counter-suffixed forms of other "
        "names; elements of different kinds may share a name, which the environment flag error_used_name=False allows): "
        "'pddl' = an explicit sequence of PDDLWriter._get_mangled_name calls (random order, repetitions, possibly "
        "partial) interleaved with get_item_named/get_pddl_name probes on a writer of the real problem, optionally "
        "followed by get_domain()/get_problem(); 'pddlw' = the writer's own traversal (get_domain + get_problem), "
        "compared on _get_pddl_name of every element; 'anml' = ANMLWriter.get_problem(), compared on the final "
        "names_mapping. Non-trivial = some element had to be renamed.")
ASSUMPTIONS = [
    "ASCII identifiers only (printable 0x20..0x7e); Python's str.lower()/regex classes on non-ASCII text are not modelled",
    "the keywords a PDDL name must avoid are those of the PDDL fragment the problem needs (general + PDDL+ / PDDL3 / temporal "
    "/ contingent sets selected by the problem's features), as the writer's design states; ANML: ANML_KEYWORDS",
    "PDDL names are compared case-insensitively (PDDL is case-insensitive), ANML names exactly",
    "ANML: fluents are boolean with user-typed parameters, action parameters are user-typed, no quantified expressions "
    "(numeric types get type expressions, not identifiers; quantifier variables are named by the same function, covered by "
    "the all-call-sequences theorems but not by the traversal mirror)",
    "elements of one kind have pairwise different names (the library refuses anything else, whatever error_used_name says)",
]
MODELLED = [
    "modelled by hand (tied by correspondence): _get_pddl_name, PDDLWriter.__init__ keyword selection, _get_mangled_name, "
    "get_item_named, get_pddl_name, _is_valid_anml_name, _get_anml_valid_name, _get_anml_name, the pre-registration loops "
    "and the order of _get_anml_name calls in ANMLWriter._write_problem; regenerated from source: the five PDDL keyword sets, "
    "ANML_KEYWORDS, both INITIAL_LETTER maps and defaults, the character classes of the five regular expressions",
    "Python dict (insertion-ordered, keyed by the elements' __eq__/__hash__), re, str.lower on ASCII; Problem.has_name and "
    "ProblemKind.has_hierarchical_typing are inputs of the model (their values are read from the real problem and cross-checked)",
]
BUDGET_S = {"quick": 60, "thorough": 400}

ACTION_CLS = ("InstantaneousAction", "DurativeAction")
TRANS_CLS = ("Process", "Event")
GLOBAL_CLS = ("_UserType", "Fluent", "Object") + ACTION_CLS

# ---------------------------------------------------------------------------------------------------------
# generator
# ---------------------------------------------------------------------------------------------------------

WORDS = ["a", "b", "x", "at", "obj", "move", "loc", "p1", "robot", "on", "f", "o", "t"]
KEYWORDS = ["and", "at", "start", "end", "all", "over", "object", "type", "action", "fluent", "always", "process", "event",
            "observe", "unknown", "total-time", "UNDEFINED", "in", "duration", "constant", "not", "when", "within",
            "sometime", "define", "domain", "either", "number", "goal", "float", "integer", "boolean", "set", "with",
            "instance", "exists", "forall", "true", "false", "time", "condition", "preference", "oneof"]
SYMBOLS = ["a-b", "a b", "a.b", "a?b", "?x", "a;b", "a(b)", "a'b", 'a"b', "a\\b", "#", "", " ", "a-", "-", "_", "a:b",
           "x,y", "[z]", "a+b", "a~", "a=b", "$v", "a/b", "{", "|"]
DIGITS = ["3d", "9", "0_a", "-a", "_a", "1", "00", "2-x", "7 up"]


def _case_variant(rng, s):
    r = rng.random()
    if r < 0.3:
        return s.upper()
    if r < 0.55:
        return s.capitalize()
    if r < 0.75:
        return s.lower()
    return "".join(c.upper() if rng.random() < 0.5 else c.lower() for c in s)


def _mangled_form(rng, s):
    """a name that looks like what a writer could produce for `s` (independent approximation, not the real code)"""
    low = s.lower() if rng.random() < 0.7 else s
    san = re.sub("[^0-9a-zA-Z_]" if rng.random() < 0.5 else "[^0-9a-zA-Z_-]", "_", low)
    r = rng.random()
    if r < 0.15:
        return san
    if r < 0.3:
        return rng.choice("afpox") + "_" + san
    if r < 0.5:
        return san + "_" + str(rng.choice([0, 0, 0, 1, 2, 10]))
    if r < 0.6:
        return san + "_"
    if r < 0.7:
        return san + "__" + str(rng.choice([0, 1]))
    if r < 0.8:
        return s + "_" + str(rng.choice([0, 1]))
    if r < 0.9:
        return rng.choice("afpox") + "_" + san + "_" + str(rng.choice([0, 1]))
    return "?" + san


# non-ASCII identifiers are outside the MODEL's domain (see ASSUMPTIONS) but not outside the property: they are used
# only by search(), i.e. by the failing-input search with the property oracle on the real code after an obligation broke
_NONASCII = [False]
UNICODE_WORDS = ["\u00c9vier", "\u00f1and\u00fa", "\u00e0_table", "\u00d6lwechsel", "\u65e5\u672c", "\u03b1\u03b2", "x\u00e9", "\u00df", "\u0130stanbul", "\u01c5"]


def gen_names(rng, k):
    pool = []
    while len(pool) < k:
        r = rng.random()
        if _NONASCII[0] and r < 0.35:
            pool.append(rng.choice(UNICODE_WORDS))
            continue
        if pool and r < 0.45:
            base = rng.choice(pool)
            n = _mangled_form(rng, base) if rng.random() < 0.6 else _case_variant(rng, base)
        elif r < 0.6:
            n = rng.choice(KEYWORDS)
            if rng.random() < 0.3:
                n = _case_variant(rng, n)
        elif r < 0.72:
            n = rng.choice(SYMBOLS)
        elif r < 0.8:
            n = rng.choice(DIGITS)
        else:
            n = rng.choice(WORDS)
            if rng.random() < 0.3:
                n = n + rng.choice(["_0", "_1", "1", "-x", " y", "_"])
        if _NONASCII[0] or all(32 <= ord(c) < 127 for c in n):
            pool.append(n)
    return pool


def _pick_name(rng, pool, used):
    """a name from the pool not in `used` (names of one kind must differ); fall back to a fresh one"""
    for _ in range(8):
        n = rng.choice(pool)
        if n not in used:
            return n
    n = "u%d" % len(used)
    while n in used:
        n += "x"
    return n


def used_types(items):
    out = set()
    for it in items:
        if it[0] == "Object":
            out.add(int(it[2]))
        elif it[0] == "Parameter" and it[3] != "-":
            out.add(int(it[2]))
    return out


def predicted_hier(items):
    """the model's `hier` input = "a user type named `object` must be renamed": the problem has hierarchical typing, or
    (since the writer fix for a type called `object` next to other types) more than one user type"""
    ut = used_types(items)
    return any(items[t][2] != "-" for t in ut) or len(ut) > 1


def predicted_names(items):
    out = []
    for it in items:
        if it[0] in GLOBAL_CLS and it[1] not in out:
            out.append(it[1])
    return out


def gen_pddl_items(rng, pool, allow_standalone=True):
    """items: [cls, name, extra...]; see module doc of Drv/C38.lean"""
    items = []
    used = {"t": set(), "f": set(), "o": set(), "a": set(), "n": set()}
    ntypes = rng.choice([0, 1, 1, 2, 3])
    hier = ntypes >= 2 and rng.random() < 0.6
    for i in range(ntypes):
        n = _pick_name(rng, pool, used["t"])
        used["t"].add(n)
        father = "-"
        if hier and i > 0 and rng.random() < 0.8:
            father = str(rng.randrange(i))
        items.append(["_UserType", n, father])
    types = list(range(ntypes))
    for _ in range(rng.choice([0, 1, 2, 3, 4])):
        n = _pick_name(rng, pool, used["f"])
        used["f"].add(n)
        items.append(["Fluent", n, rng.choice(["bool", "bool", "int"])])
    for _ in range(rng.choice([0, 1, 2, 3])):
        n = _pick_name(rng, pool, used["a"])
        used["a"].add(n)
        items.append([rng.choice(["InstantaneousAction", "InstantaneousAction", "DurativeAction"]), n])
    if rng.random() < 0.2:
        for _ in range(rng.choice([1, 2])):
            n = _pick_name(rng, pool, used["n"])
            used["n"].add(n)
            items.append([rng.choice(TRANS_CLS), n])
    if types:
        for _ in range(rng.choice([0, 1, 2, 3, 4])):
            n = _pick_name(rng, pool, used["o"])
            used["o"].add(n)
            items.append(["Object", n, str(rng.choice(types))])
        owners = [i for i, it in enumerate(items) if it[0] in ACTION_CLS + TRANS_CLS + ("Fluent",)]
        pkeys, owned = set(), {}
        for _ in range(rng.choice([0, 1, 2, 3, 5])):
            n = rng.choice(pool)
            t = rng.choice(types)
            if (n, t) in pkeys:
                continue
            owner = "-"
            if owners and (not allow_standalone or rng.random() < 0.8):
                o = rng.choice(owners)
                if n not in owned.setdefault(o, set()):
                    owned[o].add(n)
                    owner = str(o)
            if owner == "-" and not allow_standalone:
                continue
            pkeys.add((n, t))
            items.append(["Parameter", n, str(t), owner])
        if allow_standalone:
            vkeys = set()
            for _ in range(rng.choice([0, 0, 1, 2])):
                n, t = rng.choice(pool), rng.choice(types)
                if (n, t) not in vkeys:
                    vkeys.add((n, t))
                    items.append(["Variable", n, str(t)])
    return items


def gen_flags(rng, items):
    plus = any(it[0] in TRANS_CLS for it in items)
    temporal = any(it[0] == "DurativeAction" for it in items)
    has0 = any(it[0] == "Fluent" and it[2] == "bool" and
               not any(p[0] == "Parameter" and p[3] == str(i) for p in items) for i, it in enumerate(items))
    pddl3 = has0 and rng.random() < 0.25
    contingent = rng.random() < 0.15
    return ["flags", B(plus), B(pddl3), B(temporal), B(contingent)]


def B(x):
    return "T" if x else "F"


def gen_pddl_case(rng):
    pool = gen_names(rng, rng.choice([3, 4, 6, 8]))
    items = gen_pddl_items(rng, pool)
    while not items:
        items = gen_pddl_items(rng, pool)
    n = len(items)
    cover = rng.random() < 0.7
    order = list(range(n))
    rng.shuffle(order)
    if not cover:
        order = order[:rng.randint(0, n)]
    probes = list(pool) + [x.lower() for x in pool]
    ops = []
    for i in order:
        if rng.random() < 0.25:
            ops.append(["pname", str(rng.randrange(n))])
        if rng.random() < 0.25:
            ops.append(["named", _mangled_form(rng, rng.choice(probes)) if rng.random() < 0.6 else rng.choice(probes)])
        ops.append(["m", str(i)])
        if rng.random() < 0.3:
            ops.append(["m", str(rng.choice(order))])
    for _ in range(rng.choice([0, 1, 3])):
        ops.append(["named", _mangled_form(rng, rng.choice(probes)) if rng.random() < 0.7 else rng.choice(probes)])
    for _ in range(rng.choice([0, 1, 2])):
        ops.append(["pname", str(rng.randrange(n))])
    write = cover and rng.random() < 0.8
    return ["pddl", gen_flags(rng, items), B(predicted_hier(items)), ["names"] + predicted_names(items),
            ["items"] + items, ["ops"] + ops, ["write", B(write)]]


def gen_pddlw_case(rng):
    pool = gen_names(rng, rng.choice([3, 4, 6, 8]))
    items = gen_pddl_items(rng, pool, allow_standalone=False)
    while not items:
        items = gen_pddl_items(rng, pool, allow_standalone=False)
    return ["pddlw", gen_flags(rng, items), ["items"] + items]


def gen_anml_case(rng):
    pool = gen_names(rng, rng.choice([3, 4, 6, 8]))
    ntypes = rng.choice([1, 1, 2, 3])
    used = set()
    types = []
    for i in range(ntypes):
        n = _pick_name(rng, pool, used)
        used.add(n)
        types.append([n, str(rng.randrange(i)) if i > 0 and rng.random() < 0.5 else "-"])

    def params():
        ps, seen = [], set()
        for _ in range(rng.choice([0, 0, 1, 2, 3])):
            n = rng.choice(pool)
            if n not in seen:
                seen.add(n)
                ps.append([n, str(rng.randrange(ntypes))])
        return ["params"] + ps
    fluents, used = [], set()
    for _ in range(rng.choice([0, 1, 2, 3, 4])):
        n = _pick_name(rng, pool, used)
        used.add(n)
        fluents.append([n, "bool", params()])
    actions, used = [], set()
    for _ in range(rng.choice([0, 1, 2, 3])):
        n = _pick_name(rng, pool, used)
        used.add(n)
        actions.append([rng.choice(ACTION_CLS), n, params()])
    objects, used = [], set()
    for _ in range(rng.choice([0, 1, 2, 3, 4])):
        n = _pick_name(rng, pool, used)
        used.add(n)
        objects.append([n, str(rng.randrange(ntypes))])
    return ["anml", ["types"] + types, ["fluents"] + fluents, ["actions"] + actions, ["objects"] + objects]


def cases(rng, tier):
    n = 450 if tier == "quick" else 40000
    for _ in range(n):
        r = rng.random()
        if r < 0.45:
            yield gen_pddl_case(rng)
        elif r < 0.65:
            yield gen_pddlw_case(rng)
        else:
            yield gen_anml_case(rng)


def search(rng, tier):
    """wider failing-input search (oracle on the real code only): the ordinary stream, then names with non-ASCII letters"""
    for i, c in enumerate(cases(rng, "quick")):
        yield c
    _NONASCII[0] = True
    try:
        for _ in range(600):
            r = rng.random()
            yield gen_pddl_case(rng) if r < 0.5 else gen_pddlw_case(rng) if r < 0.7 else gen_anml_case(rng)
    finally:
        _NONASCII[0] = False


# ---------------------------------------------------------------------------------------------------------
# building the real problems
# ---------------------------------------------------------------------------------------------------------

def _flags(e):
    return [x == "T" for x in e[1:5]]


def build_pddl(flags, items):
    """-> (problem, objs) with objs[i] the real model element of item i"""
    plus, pddl3, temporal, contingent = flags
    env = Environment()
    env.error_used_name = False
    tm, em = env.type_manager, env.expression_manager
    problem = (ContingentProblem if contingent else Problem)("prob", env)
    objs = [None] * len(items)
    for i, it in enumerate(items):
        if it[0] == "_UserType":
            objs[i] = tm.UserType(it[1], None if it[2] == "-" else objs[int(it[2])])
    for i, it in enumerate(items):
        if it[0] in ("Parameter", "Variable"):
            objs[i] = (Parameter if it[0] == "Parameter" else Variable)(it[1], objs[int(it[2])], env)

    def owned(i):
        from collections import OrderedDict
        return OrderedDict((p[1], objs[int(p[2])]) for p in items if p[0] == "Parameter" and p[3] == str(i))
    for i, it in enumerate(items):
        c = it[0]
        if c == "_UserType":
            problem._add_user_type(objs[i])
        elif c == "Fluent":
            ty = tm.BoolType() if it[2] == "bool" else tm.IntType()
            objs[i] = Fluent(it[1], ty, _signature=owned(i), environment=env)
            problem.add_fluent(objs[i], default_initial_value=(em.FALSE() if it[2] == "bool" else em.Int(0)))
        elif c == "InstantaneousAction":
            objs[i] = InstantaneousAction(it[1], _parameters=owned(i), _env=env)
            problem.add_action(objs[i])
        elif c == "DurativeAction":
            objs[i] = DurativeAction(it[1], _parameters=owned(i), _env=env)
            objs[i].set_fixed_duration(1)
            problem.add_action(objs[i])
        elif c == "Process":
            objs[i] = Process(it[1], _parameters=owned(i), _env=env)
            problem.add_process(objs[i])
        elif c == "Event":
            objs[i] = Event(it[1], _parameters=owned(i), _env=env)
            problem.add_event(objs[i])
        elif c == "Object":
            objs[i] = Object(it[1], objs[int(it[2])], env)
            problem.add_object(objs[i])
    if pddl3:
        for i, it in enumerate(items):
            if it[0] == "Fluent" and it[2] == "bool" and not objs[i].signature:
                problem.add_trajectory_constraint(em.Always(em.FluentExp(objs[i])))
                break
    return problem, objs


def build_anml(payload):
    env = Environment()
    env.error_used_name = False
    tm, em = env.type_manager, env.expression_manager
    problem = Problem("prob", env)
    types = []
    for n, father in payload[1][1:]:
        t = tm.UserType(n, None if father == "-" else types[int(father)])
        types.append(t)
        problem._add_user_type(t)
    from collections import OrderedDict

    def sig(ps):
        return OrderedDict((n, types[int(t)]) for n, t in ps[1:])
    fluents, actions, objects = [], [], []
    for n, _ty, ps in payload[2][1:]:
        f = Fluent(n, tm.BoolType(), _signature=sig(ps), environment=env)
        problem.add_fluent(f, default_initial_value=em.FALSE())
        fluents.append(f)
    for c, n, ps in payload[3][1:]:
        if c == "InstantaneousAction":
            a = InstantaneousAction(n, _parameters=sig(ps), _env=env)
        else:
            a = DurativeAction(n, _parameters=sig(ps), _env=env)
            a.set_fixed_duration(1)
        problem.add_action(a)
        actions.append(a)
    for n, t in payload[4][1:]:
        o = Object(n, types[int(t)], env)
        problem.add_object(o)
        objects.append(o)
    return problem, types, fluents, actions, objects


def run_anml(problem):
    """ANMLWriter.get_problem() -> (text, final names_mapping); the mapping is a local of _write_problem, so it is
    observed through the `names_mapping` argument the writer passes to the module-level _get_anml_name"""
    seen = {}
    orig = aw._get_anml_name

    def spy(item, names_mapping):
        seen["m"] = names_mapping
        return orig(item, names_mapping)
    aw._get_anml_name = spy
    try:
        text = ANMLWriter(problem).get_problem()
    finally:
        aw._get_anml_name = orig
    return text, seen.get("m", {})


# ---------------------------------------------------------------------------------------------------------
# impl: the real code
# ---------------------------------------------------------------------------------------------------------

def nm(s):
    return ["n", s]


def _idx(objs, x):
    for i, o in enumerate(objs):
        if o is x:
            return ["i", str(i)]
    for i, o in enumerate(objs):
        if type(o) is type(x) and o == x:
            return ["i", str(i)]
    return ["foreign", type(x).__name__]


def run_pddl_ops(payload):
    flags, items, ops = _flags(payload[1]), payload[4][1:], payload[5][1:]
    problem, objs = build_pddl(flags, items)
    w = PDDLWriter(problem)
    res = []
    for op in ops:
        if op[0] == "m":
            res.append(nm(w._get_mangled_name(objs[int(op[1])])))
        elif op[0] == "named":
            try:
                res.append(_idx(objs, w.get_item_named(op[1])))
            except UPException:
                res.append(["none"])
        else:
            try:
                res.append(nm(w.get_pddl_name(objs[int(op[1])])))
            except UPException:
                res.append(["none"])
    text = None
    if payload[6][1] == "T":
        text = w.get_domain() + "\n" + w.get_problem()
    return problem, objs, w, res, text


def model_payload(payload):
    """the `hier` input of the model ("a user type named object must be renamed") is read from the REAL problem:
    has_hierarchical_typing() or more than one user type (Problem.user_types depends on how fluents, actions and
    quantified variables mention types, which the payload does not pin)"""
    if payload[0] != "pddl":
        return payload
    try:
        problem, objs = build_pddl(_flags(payload[1]), payload[4][1:])
        real = problem.kind.has_hierarchical_typing() or len(problem.user_types) > 1
    except Exception:
        return payload
    out = list(payload)
    out[2] = B(real)
    return out


def impl(payload):
    kind = payload[0]
    if kind == "pddl":
        try:
            problem, objs, w, res, _ = run_pddl_ops(payload)
        except (UPException, AssertionError) as e:
            return ["error", type(e).__name__]
        items = payload[4][1:]
        probe = set(it[1] for it in items) | set(w.nto_renamings.keys())
        real_names = sorted(n for n in probe if problem.has_name(n))
        if real_names != sorted(set(payload[3][1:]) & probe) or any(not problem.has_name(n) for n in payload[3][1:]):
            return ["harness-names-mismatch", real_names]
        return [["hier", B(problem.kind.has_hierarchical_typing() or len(problem.user_types) > 1)], ["nkw", str(len(w.pddl_keywords))],
                ["res"] + res,
                ["otn"] + [[_idx(objs, k), nm(v)] for k, v in w.otn_renamings.items()],
                ["nto"] + [[nm(k), _idx(objs, v)] for k, v in w.nto_renamings.items()]]
    if kind == "pddlw":
        problem, objs = build_pddl(_flags(payload[1]), payload[2][1:])
        w = PDDLWriter(problem)
        return [["nkw", str(len(w.pddl_keywords))],
                ["base"] + [nm(pw._get_pddl_name(o, w.pddl_keywords)) for o in objs]]
    if kind == "anml":
        problem, types, fluents, actions, objects = build_anml(payload)
        try:
            _, m = run_anml(problem)
        except (UPException, AssertionError) as e:
            return ["error", type(e).__name__]

        def look(x):
            return nm(m[x]) if x in m else ["none"]
        return [["types"] + [look(t) for t in types],
                ["fluents"] + [[look(f)] + [look(p) for p in f.signature] for f in fluents],
                ["actions"] + [[look(a)] + [look(p) for p in a.parameters] for a in actions],
                ["objects"] + [look(o) for o in objects]]
    raise ValueError(kind)


def _changed(payload, ans):
    """pairs (original name, chosen name) of the named elements"""
    out = []
    kind = payload[0]
    if isinstance(ans, list) and ans and ans[0] in ("error", "harness-names-mismatch"):
        return out
    d = {x[0]: x[1:] for x in ans}
    if kind == "pddl":
        items = payload[4][1:]
        for k, v in d["otn"]:
            if k[0] == "i":
                out.append((items[int(k[1])][1], v[1]))
    elif kind == "pddlw":
        for it, v in zip(payload[2][1:], d["base"]):
            out.append((it[1], v[1]))
    else:
        for (n, _f), v in zip(payload[1][1:], d["types"]):
            out.append((n, v[1] if v[0] == "n" else None))
        for sec, idx in (("fluents", 2), ("actions", 3)):
            for decl, vs in zip(payload[idx][1:], d[sec]):
                name = decl[0] if sec == "fluents" else decl[1]
                out.append((name, vs[0][1] if vs[0][0] == "n" else None))
                for (pn, _t), v in zip(decl[-1][1:], vs[1:]):
                    out.append((pn, v[1] if v[0] == "n" else None))
        for (n, _t), v in zip(payload[4][1:], d["objects"]):
            out.append((n, v[1] if v[0] == "n" else None))
    return out


def nontrivial(payload, ans):
    ch = _changed(payload, ans)
    if payload[0] in ("pddl", "pddlw"):
        return any(new is not None and new.lstrip("?") != old for old, new in ch)
    return any(new != old for old, new in ch)


_COUNTER = re.compile(r"_[0-9]+$")


def stats(payload, ans):
    t = [payload[0]]
    if isinstance(ans, list) and ans and ans[0] in ("error", "harness-names-mismatch"):
        return t + [ans[0]]
    ch = _changed(payload, ans)
    if any(new is not None and new.lstrip("?") != old for old, new in ch):
        t.append("renamed")
    if any(new is not None and _COUNTER.search(new) and not _COUNTER.search(old) for old, new in ch):
        t.append("counter-suffix")
    if any(new is not None and new.endswith("_") and not old.endswith("_") for old, new in ch):
        t.append("keyword-escape")
    lows = [o.lower() for o, _ in ch]
    if len(set(lows)) < len(lows):
        t.append("case-or-kind-clash")
    if payload[0] == "pddl":
        t.append("write" if payload[6][1] == "T" else "no-write")
        if payload[2] == "T":
            t.append("hierarchical")
        t.append("flags-" + "".join(payload[1][1:]))
    return t


# ---------------------------------------------------------------------------------------------------------
# oracle: the property itself on the real code
# ---------------------------------------------------------------------------------------------------------

PDDL_NAME = re.compile(r"[a-zA-Z][a-zA-Z0-9_-]*")     # PDDL 3.1 BNF <name>
ANML_IDENT = re.compile(r"[a-zA-Z][a-zA-Z0-9_]*")


def _pddl_keywords(flags):
    plus, pddl3, temporal, contingent = flags
    kw = set(_GENERAL0)
    if plus:
        kw |= pw.PDDL_PLUS_KEYWORDS
    if pddl3:
        kw |= pw.PDDL3_KEYWORDS
    if temporal:
        kw |= pw.TEMPORAL_PDDL_KEYWORDS
    if contingent:
        kw |= pw.CONTINGENT_PDDL_KEYWORDS
    return kw


# the general set as the module defines it at import time (a writer that aliases and grows it must not fool the oracle)
_GENERAL0 = frozenset(pw.GENERAL_PDDL_KEYWORDS)


def _tokens(text):
    return set(re.split(r"[\s()]+", text))


def _check_pddl_maps(w, objs, items, flags, text):
    otn, nto = w.otn_renamings, w.nto_renamings
    kw = _pddl_keywords(flags)
    for item, name in otn.items():
        if name not in nto or not (nto[name] is item or nto[name] == item):
            return f"lookups not inverse: item named {name!r} is not what the name maps back to"
        try:
            if w.get_pddl_name(w.get_item_named(name)) != name:
                return f"get_pddl_name(get_item_named({name!r})) differs"
            back = w.get_item_named(w.get_pddl_name(item))
            if not (back is item or back == item):
                return f"get_item_named(get_pddl_name(item)) is another item for {name!r}"
        except UPException as e:
            return f"lookup raised for a named item: {e}"
        is_var = isinstance(item, (Parameter, Variable))
        body = name[1:] if is_var and name.startswith("?") else name
        if is_var and not name.startswith("?"):
            return f"parameter/variable name {name!r} does not start with ?"
        if PDDL_NAME.fullmatch(body) is None:
            return f"{name!r} is not a valid PDDL name"
        if name.lower() in kw:
            return f"{name!r} is a PDDL keyword"
    for name, item in nto.items():
        if item not in otn or otn[item] != name:
            return f"lookups not inverse: name {name!r} maps to an item whose name is different"
    # distinct elements sharing a namespace (case-insensitively)
    groups = {}
    for i, it in enumerate(items):
        o = objs[i]
        if o not in otn:
            continue
        if it[0] == "Parameter":
            g = ("param-of", it[3])
        elif it[0] in ACTION_CLS + TRANS_CLS:
            g = "action"
        else:
            g = it[0]
        groups.setdefault(g, []).append(otn[o].lower())
    for g, ns in groups.items():
        if g != ("param-of", "-") and len(set(ns)) < len(ns):
            return f"two elements of namespace {g} share a name: {sorted(ns)}"
    if text is not None:
        toks = _tokens(text.lower())
        for i, it in enumerate(items):
            if it[0] in GLOBAL_CLS + TRANS_CLS and objs[i] in otn:
                if it[0] == "_UserType" and it[1] == "object":
                    continue
                if otn[objs[i]].lower() not in toks:
                    return f"the chosen name {otn[objs[i]]!r} of a {it[0]} does not occur in the written PDDL"
    return None


def oracle(payload):
    kind = payload[0]
    if kind == "pddl":
        try:
            problem, objs, w, res, text = run_pddl_ops(payload)
        except AssertionError:
            return "the assert of _get_mangled_name failed (a chosen name was already in use)"
        ops = payload[5][1:]
        for op, r in zip(ops, res):
            if op[0] == "m":
                o = objs[int(op[1])]
                if w.otn_renamings.get(o) != r[1]:
                    return "a name returned by _get_mangled_name is not the recorded one (names not stable)"
        return _check_pddl_maps(w, objs, payload[4][1:], _flags(payload[1]), text)
    if kind == "pddlw":
        items = payload[2][1:]
        problem, objs = build_pddl(_flags(payload[1]), items)
        w = PDDLWriter(problem)
        try:
            text = w.get_domain() + "\n" + w.get_problem()
        except AssertionError:
            return "the assert of _get_mangled_name failed (a chosen name was already in use)"
        for i, it in enumerate(items):
            if it[0] in GLOBAL_CLS + TRANS_CLS and objs[i] not in w.otn_renamings:
                if it[0] == "_UserType" and it[1] == "object":
                    continue
                return f"{it[0]} {it[1]!r} was written but has no recorded name"
        return _check_pddl_maps(w, objs, items, _flags(payload[1]), text)
    if kind == "anml":
        problem, types, fluents, actions, objects = build_anml(payload)
        try:
            text, m = run_anml(problem)
        except AssertionError:
            return "the assert of _get_anml_name failed (the chosen name is not a valid ANML name)"
        globals_ = types + fluents + actions + objects
        for x in globals_:
            if x not in m:
                return f"{type(x).__name__} {x.name!r} has no ANML name"
        named = [(k, v) for k, v in m.items() if not (isinstance(k, up.model.Type) and not k.is_user_type())]
        for k, v in named:
            if ANML_IDENT.fullmatch(v) is None:
                return f"{v!r} is not a valid ANML identifier"
            if v in aw.ANML_KEYWORDS:
                return f"{v!r} is an ANML keyword"
        gnames = [m[x] for x in globals_]
        if len(set(gnames)) < len(gnames):
            return f"two of the types/fluents/actions/objects share an ANML name: {sorted(gnames)}"
        for owner in fluents + actions:
            ps = list(owner.signature) if isinstance(owner, Fluent) else list(owner.parameters)
            pn = [m[p] for p in ps if p in m]
            if len(set(pn)) < len(pn):
                return f"two parameters of {owner.name!r} share an ANML name"
            if set(pn) & set(gnames):
                return f"a parameter of {owner.name!r} has the ANML name of a global element"
        toks = set(re.split(r"[\s(),;:=<\[\]{}]+", text))
        for x in globals_:
            if m[x] not in toks:
                return f"the chosen name {m[x]!r} does not occur in the written ANML"
        return None
    raise ValueError(kind)


# ---------------------------------------------------------------------------------------------------------
# shrinking
# ---------------------------------------------------------------------------------------------------------

def _drop_item(payload, k):
    """pddl / pddlw payload without item k (None if something refers to it)"""
    pos = 4 if payload[0] == "pddl" else 2
    items = payload[pos][1:]
    for it in items:
        if it[0] == "_UserType" and it[2] == str(k):
            return None
        if it[0] in ("Object", "Variable", "Parameter") and it[2] == str(k):
            return None
        if it[0] == "Parameter" and it[3] == str(k):
            return None

    def sh(s):
        return s if s == "-" else str(int(s) - 1 if int(s) > k else int(s))
    new = []
    for i, it in enumerate(items):
        if i == k:
            continue
        it = list(it)
        if it[0] == "_UserType":
            it[2] = sh(it[2])
        elif it[0] in ("Object", "Variable"):
            it[2] = sh(it[2])
        elif it[0] == "Parameter":
            it[2], it[3] = sh(it[2]), sh(it[3])
        new.append(it)
    out = list(payload)
    out[pos] = [payload[pos][0]] + new
    flags = payload[1]
    plus = any(it[0] in TRANS_CLS for it in new)
    temporal = any(it[0] == "DurativeAction" for it in new)
    has0 = any(it[0] == "Fluent" and it[2] == "bool" and not any(p[0] == "Parameter" and p[3] == str(i) for p in new)
               for i, it in enumerate(new))
    out[1] = ["flags", B(plus), B(flags[2] == "T" and has0), B(temporal), flags[4]]
    if payload[0] == "pddl":
        ops = []
        for op in payload[5][1:]:
            if op[0] in ("m", "pname"):
                j = int(op[1])
                if j == k:
                    continue
                ops.append([op[0], str(j - 1 if j > k else j)])
            else:
                ops.append(op)
        out[5] = ["ops"] + ops
        out[2] = B(predicted_hier(new))
        out[3] = ["names"] + predicted_names(new)
    return out if new else None


def shrink(payload):
    kind = payload[0]
    if kind in ("pddl", "pddlw"):
        pos = 4 if kind == "pddl" else 2
        n = len(payload[pos]) - 1
        for k in reversed(range(n)):
            c = _drop_item(payload, k)
            if c is not None:
                yield c
        if kind == "pddl":
            ops = payload[5][1:]
            for j in range(len(ops)):
                out = list(payload)
                out[5] = ["ops"] + ops[:j] + ops[j + 1:]
                if out[6][1] == "T":
                    out[6] = ["write", "F"]
                yield out
            if payload[6][1] == "T":
                out = list(payload)
                out[6] = ["write", "F"]
                yield out
    else:
        for sec in (4, 3, 2):
            xs = payload[sec][1:]
            for j in range(len(xs)):
                out = list(payload)
                out[sec] = [payload[sec][0]] + xs[:j] + xs[j + 1:]
                yield out
        for sec in (2, 3):
            xs = payload[sec][1:]
            for j, decl in enumerate(xs):
                ps = decl[-1][1:]
                for q in range(len(ps)):
                    nd = list(decl)
                    nd[-1] = ["params"] + ps[:q] + ps[q + 1:]
                    out = list(payload)
                    out[sec] = [payload[sec][0]] + xs[:j] + [nd] + xs[j + 1:]
                    yield out
        types = payload[1][1:]
        if len(types) > 1:
            k = len(types) - 1
            refs = [t[1] for t in types] + [p[1] for sec in (2, 3) for d in payload[sec][1:] for p in d[-1][1:]] + \
                   [o[1] for o in payload[4][1:]]
            if str(k) not in refs:
                out = list(payload)
                out[1] = ["types"] + types[:-1]
                yield out


MANIFEST = {
    "level_text": ("Lean 4 theorems (Props/C38.lean) prove for EVERY sequence of PDDLWriter._get_mangled_name / _get_anml_name "
                   "calls, every problem and all ASCII names: the two PDDL lookups are mutually inverse, names of distinct "
                   "elements differ (also case-insensitively), every name is a PDDL <name> / ANML identifier, none is a keyword, "
                   "names never change once given, the writer's assert cannot fail, both loops terminate; table-dependent side "
                   "conditions are re-decided by the kernel over keyword sets, INITIAL_LETTER maps and regex character classes "
                   "regenerated from /repo on every run. The hand-written functions are tied to the code by a differential "
                   "correspondence check (chosen names, lookups, final maps) plus a direct oracle of the property on the real writers."),
    "level_note": ("Trusted: Lean kernel; axioms propext, Classical.choice, Quot.sound; harness/translate_C38.py; the correspondence "
                   "harness. Modelled not verified: Python dict/re/str.lower on ASCII, Problem.has_name, ProblemKind. ASCII "
                   "identifiers only; ANML numeric type expressions and quantifier variables are outside the traversal mirror."),
    "technique": "Lean 4 proof over regenerated tables + model/code correspondence",
    "design_ref": "DESIGN.md §5 C38",
}
