"""C38 — Writer renamings are valid, injective and invertible (PDDLWriter / ANMLWriter name mangling)."""
import re
import warnings

warnings.simplefilter("ignore")
import unified_planning as up
import unified_planning.io.anml_writer as aw
import unified_planning.io.pddl_writer as pw
from unified_planning.environment import Environment
import unified_planning.io.ma_pddl_writer as mw
from unified_planning.exceptions import UPException, UPProblemDefinitionError
from unified_planning.io import ANMLWriter, PDDLWriter
from unified_planning.model import (DurativeAction, Event, Fluent, GlobalStartTiming, InstantaneousAction, Object,
                                    Parameter, Problem, Process, Variable)
from unified_planning.model.contingent.contingent_problem import ContingentProblem
from unified_planning.model.contingent.sensing_action import SensingAction
from unified_planning.model.htn import HierarchicalProblem, Method, Task
from unified_planning.model.htn.task import Subtask
from unified_planning.model.multi_agent import Agent, MultiAgentProblem

ID = "C38"
GEN = ["Keywords"]
EXTRA_PROPS = ["UPVerif.Props.C38Select"]
CORR_NAME = "chosen-names-and-lookups"
RULE = ("four case shapes over problems with adversarial ASCII identifiers (case variants of one another, PDDL/HDDL/ANML "
        "keywords of every keyword table in lower, upper and mixed case, symbols, leading digits, empty names, names equal "
        "to the mangled or counter-suffixed forms of other names; elements of different kinds may share a name, which the "
        "environment flag error_used_name=False allows). The PROBLEM varies over both sides of every condition that decides "
        "which keyword table a writer reserves: Problem / ContingentProblem (with sensing actions) / HierarchicalProblem "
        "(tasks, methods, subtasks), continuous or discrete time, with or without durative actions, temporal only through "
        "timed effects, only through timed goals, trajectory constraints, processes/events; the name pool of a case is "
        "seeded with keywords of the tables on both sides. "
        "'pddl' = an explicit sequence of PDDLWriter._get_mangled_name calls (random order, repetitions, possibly "
        "partial) interleaved with get_item_named/get_pddl_name probes on a writer of the real problem, optionally "
        "followed by get_domain()/get_problem(); 'pddlw' = the writer's own traversal (get_domain + get_problem), "
        "compared on _get_pddl_name of every element; both also compare the optional keywords the writer selected "
        "(pddl_keywords minus the general table) with the model's selection, computed by the conditions extracted from "
        "PDDLWriter.__init__ on the view of the real problem (classes, lengths of the attributes __init__ reads); "
        "'maw' = MAPDDLWriter on a MultiAgentProblem (fixed keyword set), compared on the selected keywords and on "
        "_get_pddl_name of every element; 'anml' = ANMLWriter.get_problem() (also discrete time / timed effects), "
        "compared on the final names_mapping. Non-trivial = some element had to be renamed.")
ASSUMPTIONS = [
    "ASCII identifiers only (printable 0x20..0x7e); Python's str.lower()/regex classes on non-ASCII text are not modelled",
    "the keywords a PDDL name must avoid are those of the fragments of PDDL that the text written for the problem USES: the "
    "general table always; PDDL+ iff the problem has processes/events; PDDL3 iff it has trajectory constraints; temporal iff "
    "some action is durative (whatever the time model) or there is a timed effect (written `(at t …)`); contingent iff it is "
    "a ContingentProblem; HDDL iff it is a HierarchicalProblem; and every `:word` that occurs in the written text. The oracle "
    "decides this from the problem's structure and from the text, never from the writer's own selection; ANML: ANML_KEYWORDS",
    "MA-PDDL ('maw'): agents have benign names (agent names are written by other code than the renaming this property is "
    "about); needed keywords = general table, and the temporal one iff an agent has a durative action; only _get_pddl_name, the keyword set and the otn/nto maps are "
    "observed, not how ma_pddl_writer composes agent-qualified names",
    "HTN: subtask identifiers are written verbatim by the writer (not renamed); the generator uses identifiers s0, s1, …",
    "PDDL names are compared case-insensitively (PDDL is case-insensitive), ANML names exactly",
    "ANML: fluents are boolean with user-typed parameters, action parameters are user-typed, no quantified expressions "
    "(numeric types get type expressions, not identifiers; quantifier variables are named by the same function, covered by "
    "the all-call-sequences theorems but not by the traversal mirror)",
    "elements of one kind have pairwise different names (the library refuses anything else, whatever error_used_name says)",
]
MODELLED = [
    "modelled by hand (tied by correspondence): _get_pddl_name, _get_mangled_name, get_item_named, get_pddl_name, "
    "_is_valid_anml_name, _get_anml_valid_name, _get_anml_name, the pre-registration loops and the order of _get_anml_name "
    "calls in ANMLWriter._write_problem, the meaning of the four condition forms of the keyword selection (KwCond.eval); "
    "regenerated from source: the six PDDL keyword sets, the CONDITIONS under which PDDLWriter.__init__ adds each of them "
    "(every `if … : self.pddl_keywords |= …`), the composition of MA_PDDL_KEYWORDS, the `:word`s the writer can emit, "
    "ANML_KEYWORDS, both INITIAL_LETTER maps and defaults, the character classes of the five regular expressions",
    "Python dict (insertion-ordered, keyed by the elements' __eq__/__hash__), re, str.lower on ASCII, isinstance as membership "
    "in type(x).__mro__; Problem.has_name, ProblemKind.has_hierarchical_typing and the problem view (class names, "
    "len(problem.processes/events/trajectory_constraints/timed_effects/timed_goals), discrete_time) are inputs of the model "
    "(read from the real problem and cross-checked against the payload)",
]
BUDGET_S = {"quick": 60, "thorough": 400}

ACTION_CLS = ("InstantaneousAction", "DurativeAction", "SensingAction")
TRANS_CLS = ("Process", "Event")
HTN_CLS = ("Task", "Method")
GLOBAL_CLS = ("_UserType", "Fluent", "Object") + ACTION_CLS + HTN_CLS
OWNER_CLS = ACTION_CLS + TRANS_CLS + HTN_CLS + ("Fluent",)

# ---------------------------------------------------------------------------------------------------------
# generator
# ---------------------------------------------------------------------------------------------------------

WORDS = ["a", "b", "x", "at", "obj", "move", "loc", "p1", "robot", "on", "f", "o", "t"]
KEYWORDS = ["and", "at", "start", "end", "all", "over", "object", "type", "action", "fluent", "always", "process", "event",
            "observe", "unknown", "total-time", "UNDEFINED", "in", "duration", "constant", "not", "when", "within",
            "sometime", "define", "domain", "either", "number", "goal", "float", "integer", "boolean", "set", "with",
            "instance", "exists", "forall", "true", "false", "time", "condition", "preference", "oneof"]
SYMBOLS = ["a-b", "a b", "a.b", "a?b", "?x", "a;b", "a(b)", "a'b", 'a"b', "a\\b", "#", "", " ", "a-", "-", "_", "a:b",
           "x,y", "[z]", "a+b", "a~", "a=b", "$v", "a/b", "{", "|"]
DIGITS = ["3d", "9", "0_a", "-a", "_a", "1", "00", "2-x", "7 up"]

# the harness' OWN reading of which words belong to which fragment of PDDL / HDDL (from the language definitions and from
# what the writer's text contains — not from the library's tables): used to seed the name pool of a case with keywords of
# the tables on BOTH sides of the conditions the case exercises
FRAG_WORDS = {
    "temporal": ["at", "start", "end", "over", "all", "duration", "condition", "durative-action"],
    "plus": ["process", "event"],
    "pddl3": ["always", "sometime", "within", "at-most-once", "sometime-after", "sometime-before", "always-within",
              "hold-during", "hold-after", "constraints", "preference", "preferences", "is-violated"],
    "contingent": ["observe", "oneof", "unknown"],
    "hddl": ["task", "method", "htn", "subtasks", "ordered-subtasks", "ordering", "tasks", "ordered-tasks", "constraints",
             "hierarchy", "method-preconditions"],
    "general": ["functions", "predicates", "numeric-fluents", "action-costs", "duration-inequalities", "requirements",
                "parameters", "precondition", "effect", "types", "constants", "objects", "init", "metric", "typing",
                "durative-actions", "timed-initial-literals", "equality", "strips", "increase", "assign", "total-cost"],
}
FRAGS = ["temporal", "plus", "pddl3", "contingent", "hddl", "general"]


def _case_variant(rng, s):
    r = rng.random()
    if r < 0.3:
        return s.upper()
    if r < 0.55:
        return s.capitalize()
    if r < 0.75:
        return s.lower()
    return "".join(c.upper() if rng.random() < 0.5 else c.lower() for c in s)


def _mangled_form(rng, s):
    """a name that looks like what a writer could produce for `s` (independent approximation, not the real code)"""
    low = s.lower() if rng.random() < 0.7 else s
    san = re.sub("[^0-9a-zA-Z_]" if rng.random() < 0.5 else "[^0-9a-zA-Z_-]", "_", low)
    r = rng.random()
    if r < 0.15:
        return san
    if r < 0.3:
        return rng.choice("afpox") + "_" + san
    if r < 0.5:
        return san + "_" + str(rng.choice([0, 0, 0, 1, 2, 10]))
    if r < 0.6:
        return san + "_"
    if r < 0.7:
        return san + "__" + str(rng.choice([0, 1]))
    if r < 0.8:
        return s + "_" + str(rng.choice([0, 1]))
    if r < 0.9:
        return rng.choice("afpox") + "_" + san + "_" + str(rng.choice([0, 1]))
    return "?" + san


# non-ASCII identifiers are outside the MODEL's domain (see ASSUMPTIONS) but not outside the property: they are used
# only by search(), i.e. by the failing-input search with the property oracle on the real code after an obligation broke
_NONASCII = [False]
UNICODE_WORDS = ["\u00c9vier", "\u00f1and\u00fa", "\u00e0_table", "\u00d6lwechsel", "\u65e5\u672c", "\u03b1\u03b2", "x\u00e9", "\u00df", "\u0130stanbul", "\u01c5"]


def _kw_variant(rng, w):
    r = rng.random()
    if r < 0.5:
        return w
    if r < 0.7:
        return w.upper()
    if r < 0.85:
        return w.capitalize()
    return "".join(c.upper() if rng.random() < 0.5 else c for c in w)


def gen_names(rng, k, focus=()):
    """`focus`: fragments whose keywords are put into the pool first (lower, upper and mixed case)"""
    pool = []
    for fr in focus:
        for _ in range(rng.choice([1, 2, 2, 3])):
            pool.append(_kw_variant(rng, rng.choice(FRAG_WORDS[fr])))
    k += len(pool)
    while len(pool) < k:
        r = rng.random()
        if _NONASCII[0] and r < 0.35:
            pool.append(rng.choice(UNICODE_WORDS))
            continue
        if pool and r < 0.45:
            base = rng.choice(pool)
            n = _mangled_form(rng, base) if rng.random() < 0.6 else _case_variant(rng, base)
        elif r < 0.6:
            n = rng.choice(KEYWORDS)
            if rng.random() < 0.3:
                n = _case_variant(rng, n)
        elif r < 0.72:
            n = rng.choice(SYMBOLS)
        elif r < 0.8:
            n = rng.choice(DIGITS)
        else:
            n = rng.choice(WORDS)
            if rng.random() < 0.3:
                n = n + rng.choice(["_0", "_1", "1", "-x", " y", "_"])
        if _NONASCII[0] or all(32 <= ord(c) < 127 for c in n):
            pool.append(n)
    return pool


def _pick_name(rng, pool, used):
    """a name from the pool not in `used` (names of one kind must differ); fall back to a fresh one"""
    for _ in range(8):
        n = rng.choice(pool)
        if n not in used:
            return n
    n = "u%d" % len(used)
    while n in used:
        n += "x"
    return n


def used_types(items):
    out = set()
    for it in items:
        if it[0] == "Object":
            out.add(int(it[2]))
        elif it[0] == "Parameter" and it[3] != "-":
            out.add(int(it[2]))
    return out


def predicted_hier(items):
    """the model's `hier` input = "a user type named `object` must be renamed": the problem has hierarchical typing, or
    (since the writer fix for a type called `object` next to other types) more than one user type"""
    ut = used_types(items)
    return any(items[t][2] != "-" for t in ut) or len(ut) > 1


def predicted_names(items):
    out = []
    for it in items:
        if it[0] in GLOBAL_CLS and it[1] not in out:
            out.append(it[1])
    return out


def gen_spec(rng):
    """WHICH problem the items live in — the dimensions that decide which keyword tables a writer reserves:
    cls P = Problem, C = ContingentProblem, H = HierarchicalProblem; discrete_time; number of trajectory constraints,
    of timed effects (distinct timings) and of timed goals"""
    r = rng.random()
    cls = "P" if r < 0.55 else "C" if r < 0.7 else "H"
    return {"cls": cls, "discrete": rng.random() < 0.3, "ntraj": 1 if rng.random() < 0.2 else 0,
            "ntil": rng.choice([0, 0, 0, 0, 1, 1, 2]), "ntg": 1 if rng.random() < 0.1 else 0,
            # whether durative actions may occur at all (so that "temporal only through timed effects / goals" is common)
            "durative": rng.random() < 0.6}


def gen_focus(rng, spec):
    """fragments whose keywords are put into the name pool: the ones the spec is about, whichever side it is on"""
    focus = []
    if rng.random() < 0.6:
        focus.append("temporal")
    if spec["cls"] == "H" and rng.random() < 0.8 or rng.random() < 0.12:
        focus.append("hddl")
    if spec["cls"] == "C" and rng.random() < 0.7 or rng.random() < 0.08:
        focus.append("contingent")
    if spec["ntraj"] and rng.random() < 0.7 or rng.random() < 0.08:
        focus.append("pddl3")
    if rng.random() < 0.15:
        focus.append("plus")
    if rng.random() < 0.25:
        focus.append("general")
    return focus


def spec_sexp(spec):
    return ["prob", spec["cls"], B(spec["discrete"]), str(spec["ntraj"]), str(spec["ntil"]), str(spec["ntg"])]


def _spec(e):
    """(prob CLS D NTRAJ NTIL NTG), or the legacy (flags PLUS PDDL3 TEMPORAL CONTINGENT) of older corpus lines (PLUS and
    TEMPORAL were always determined by the items)"""
    if e[0] == "flags":
        return {"cls": "C" if e[4] == "T" else "P", "discrete": False, "ntraj": 1 if e[2] == "T" else 0, "ntil": 0, "ntg": 0}
    return {"cls": e[1], "discrete": e[2] == "T", "ntraj": int(e[3]), "ntil": int(e[4]), "ntg": int(e[5])}


def has_nullary_bool(items):
    return any(it[0] == "Fluent" and it[2] == "bool" and not any(p[0] == "Parameter" and p[3] == str(i) for p in items)
               for i, it in enumerate(items))


def gen_pddl_items(rng, pool, spec=None, allow_standalone=True):
    """items: [cls, name, extra...]; see module doc of Drv/C38.lean"""
    spec = spec or {"cls": "P", "durative": True, "ntraj": 0, "ntil": 0, "ntg": 0}
    items = []
    used = {"t": set(), "f": set(), "o": set(), "a": set(), "n": set(), "k": set(), "m": set()}
    ntypes = rng.choice([0, 1, 1, 2, 3])
    hier = ntypes >= 2 and rng.random() < 0.6
    for i in range(ntypes):
        n = _pick_name(rng, pool, used["t"])
        used["t"].add(n)
        father = "-"
        if hier and i > 0 and rng.random() < 0.8:
            father = str(rng.randrange(i))
        items.append(["_UserType", n, father])
    types = list(range(ntypes))
    want0 = spec["ntraj"] or spec["ntil"] or spec["ntg"]
    keep0 = None
    for k in range(rng.choice([0, 1, 2, 3, 4]) or (1 if want0 else 0)):
        n = _pick_name(rng, pool, used["f"])
        used["f"].add(n)
        ty = rng.choice(["bool", "bool", "int"])
        if want0 and keep0 is None and (ty == "bool" or k == 0):
            ty, keep0 = "bool", len(items)      # this fluent gets no parameters: timed effects/goals and constraints use it
        items.append(["Fluent", n, ty])
    acls = ["InstantaneousAction", "InstantaneousAction", "DurativeAction" if spec["durative"] else "InstantaneousAction"]
    if spec["cls"] == "C":
        acls.append("SensingAction")
    for _ in range(rng.choice([0, 1, 2, 3])):
        n = _pick_name(rng, pool, used["a"])
        used["a"].add(n)
        items.append([rng.choice(acls), n])
    if rng.random() < 0.2 and not spec.get("notrans"):
        for _ in range(rng.choice([1, 2])):
            n = _pick_name(rng, pool, used["n"])
            used["n"].add(n)
            items.append([rng.choice(TRANS_CLS), n])
    tasks = []
    if spec["cls"] == "H":
        for _ in range(rng.choice([0, 1, 1, 2])):
            n = _pick_name(rng, pool, used["k"])
            used["k"].add(n)
            tasks.append(len(items))
            items.append(["Task", n])
    methods = []
    if types:
        for _ in range(rng.choice([0, 1, 2, 3, 4])):
            n = _pick_name(rng, pool, used["o"])
            used["o"].add(n)
            items.append(["Object", n, str(rng.choice(types))])
    if tasks:
        for _ in range(rng.choice([0, 1, 1, 2])):
            n = _pick_name(rng, pool, used["m"])
            used["m"].add(n)
            methods.append(len(items))
            items.append(["Method", n, str(rng.choice(tasks))])
    if types:
        owners = [i for i, it in enumerate(items) if it[0] in OWNER_CLS and it[0] != "Method" and i != keep0]
        pkeys, owned = set(), {}
        for _ in range(rng.choice([0, 1, 2, 3, 5])):
            n = rng.choice(pool)
            t = rng.choice(types)
            if (n, t) in pkeys:
                continue
            owner = "-"
            if owners and (not allow_standalone or rng.random() < 0.8):
                o = rng.choice(owners)
                if n not in owned.setdefault(o, set()):
                    owned[o].add(n)
                    owner = str(o)
            if owner == "-" and not allow_standalone:
                continue
            pkeys.add((n, t))
            items.append(["Parameter", n, str(t), owner])
        # a method's first parameters are the arguments of the task it achieves (same types, in order); then extras
        for m in methods:
            task = int(items[m][2])
            want = [int(p[2]) for p in items if p[0] == "Parameter" and p[3] == str(task)]
            want += [rng.choice(types) for _ in range(rng.choice([0, 0, 1, 2]))]
            mine = set()
            for t in want:
                n = rng.choice(pool)
                tries = 0
                while (n in mine or (n, t) in pkeys) and tries < 6:
                    n, tries = rng.choice(pool), tries + 1
                if n in mine or (n, t) in pkeys:
                    n = "mp%d" % len(pkeys)
                    while n in mine or (n, t) in pkeys:
                        n += "x"
                mine.add(n)
                pkeys.add((n, t))
                items.append(["Parameter", n, str(t), str(m)])
        if allow_standalone:
            vkeys = set()
            for _ in range(rng.choice([0, 0, 1, 2])):
                n, t = rng.choice(pool), rng.choice(types)
                if (n, t) not in vkeys:
                    vkeys.add((n, t))
                    items.append(["Variable", n, str(t)])
    return items


def fit_spec(spec, items):
    """timed effects / goals and trajectory constraints are stated on a parameterless boolean fluent"""
    if not has_nullary_bool(items):
        spec = dict(spec, ntraj=0, ntil=0, ntg=0)
    return spec


def B(x):
    return "T" if x else "F"


def gen_pddl_case(rng):
    spec = gen_spec(rng)
    pool = gen_names(rng, rng.choice([3, 4, 6, 8]), gen_focus(rng, spec))
    items = gen_pddl_items(rng, pool, spec)
    while not items:
        items = gen_pddl_items(rng, pool, spec)
    spec = fit_spec(spec, items)
    n = len(items)
    cover = rng.random() < 0.7
    order = list(range(n))
    rng.shuffle(order)
    if not cover:
        order = order[:rng.randint(0, n)]
    probes = list(pool) + [x.lower() for x in pool]
    ops = []
    for i in order:
        if rng.random() < 0.25:
            ops.append(["pname", str(rng.randrange(n))])
        if rng.random() < 0.25:
            ops.append(["named", _mangled_form(rng, rng.choice(probes)) if rng.random() < 0.6 else rng.choice(probes)])
        ops.append(["m", str(i)])
        if rng.random() < 0.3:
            ops.append(["m", str(rng.choice(order))])
    for _ in range(rng.choice([0, 1, 3])):
        ops.append(["named", _mangled_form(rng, rng.choice(probes)) if rng.random() < 0.7 else rng.choice(probes)])
    for _ in range(rng.choice([0, 1, 2])):
        ops.append(["pname", str(rng.randrange(n))])
    write = cover and rng.random() < 0.8
    return ["pddl", spec_sexp(spec), B(predicted_hier(items)), ["names"] + predicted_names(items),
            ["items"] + items, ["ops"] + ops, ["write", B(write)]]


def gen_pddlw_case(rng):
    spec = gen_spec(rng)
    pool = gen_names(rng, rng.choice([3, 4, 6, 8]), gen_focus(rng, spec))
    items = gen_pddl_items(rng, pool, spec, allow_standalone=False)
    while not items:
        items = gen_pddl_items(rng, pool, spec, allow_standalone=False)
    return ["pddlw", spec_sexp(fit_spec(spec, items)), ["items"] + items]


def gen_maw_case(rng):
    """a MultiAgentProblem: no processes/events/tasks; fluents go to the environment or to an agent, actions to an agent"""
    spec = {"cls": "P", "durative": rng.random() < 0.6, "ntraj": 0, "ntil": 0, "ntg": 0, "notrans": True}
    focus = [f for f in ("temporal", "pddl3", "general", "hddl") if rng.random() < (0.6 if f in ("temporal", "pddl3") else 0.15)]
    pool = gen_names(rng, rng.choice([3, 4, 6]), focus)
    items = gen_pddl_items(rng, pool, spec, allow_standalone=False)
    while not items:
        items = gen_pddl_items(rng, pool, spec, allow_standalone=False)
    return ["maw", ["agents", str(rng.choice([1, 2]))], ["items"] + items]


def gen_anml_case(rng):
    pool = gen_names(rng, rng.choice([3, 4, 6, 8]))
    ntypes = rng.choice([1, 1, 2, 3])
    used = set()
    types = []
    for i in range(ntypes):
        n = _pick_name(rng, pool, used)
        used.add(n)
        types.append([n, str(rng.randrange(i)) if i > 0 and rng.random() < 0.5 else "-"])

    def params():
        ps, seen = [], set()
        for _ in range(rng.choice([0, 0, 1, 2, 3])):
            n = rng.choice(pool)
            if n not in seen:
                seen.add(n)
                ps.append([n, str(rng.randrange(ntypes))])
        return ["params"] + ps
    fluents, used = [], set()
    for _ in range(rng.choice([0, 1, 2, 3, 4])):
        n = _pick_name(rng, pool, used)
        used.add(n)
        fluents.append([n, "bool", params()])
    actions, used = [], set()
    for _ in range(rng.choice([0, 1, 2, 3])):
        n = _pick_name(rng, pool, used)
        used.add(n)
        actions.append([rng.choice(("InstantaneousAction", "DurativeAction")), n, params()])
    objects, used = [], set()
    for _ in range(rng.choice([0, 1, 2, 3, 4])):
        n = _pick_name(rng, pool, used)
        used.add(n)
        objects.append([n, str(rng.randrange(ntypes))])
    # the ANML keyword set is fixed: the time model and timed effects must make no difference
    nullary = any(len(f[2]) == 1 for f in fluents)
    opts = ["opts", B(rng.random() < 0.3), str(rng.choice([0, 0, 1, 2]) if nullary else 0)]
    return ["anml", ["types"] + types, ["fluents"] + fluents, ["actions"] + actions, ["objects"] + objects, opts]


def cases(rng, tier):
    n = 450 if tier == "quick" else 30000
    for _ in range(n):
        r = rng.random()
        if r < 0.42:
            yield gen_pddl_case(rng)
        elif r < 0.66:
            yield gen_pddlw_case(rng)
        elif r < 0.74:
            yield gen_maw_case(rng)
        else:
            yield gen_anml_case(rng)


def search(rng, tier):
    """wider failing-input search (oracle on the real code only): the ordinary stream, then names with non-ASCII letters"""
    for i, c in enumerate(cases(rng, "quick")):
        yield c
    _NONASCII[0] = True
    try:
        for _ in range(600):
            r = rng.random()
            yield gen_pddl_case(rng) if r < 0.5 else gen_pddlw_case(rng) if r < 0.7 else gen_anml_case(rng)
    finally:
        _NONASCII[0] = False


# ---------------------------------------------------------------------------------------------------------
# building the real problems
# ---------------------------------------------------------------------------------------------------------

PROBLEM_CLS = {"P": Problem, "C": ContingentProblem, "H": HierarchicalProblem}


def _nullary_bool(items, objs):
    for i, it in enumerate(items):
        if it[0] == "Fluent" and it[2] == "bool" and not objs[i].signature:
            return objs[i]
    return None


def build_pddl(spec, items):
    """-> (problem, objs) with objs[i] the real model element of item i"""
    from collections import OrderedDict
    env = Environment()
    env.error_used_name = False
    tm, em = env.type_manager, env.expression_manager
    problem = PROBLEM_CLS[spec["cls"]]("prob", env)
    objs = [None] * len(items)
    for i, it in enumerate(items):
        if it[0] == "_UserType":
            objs[i] = tm.UserType(it[1], None if it[2] == "-" else objs[int(it[2])])
    for i, it in enumerate(items):
        if it[0] in ("Parameter", "Variable"):
            objs[i] = (Parameter if it[0] == "Parameter" else Variable)(it[1], objs[int(it[2])], env)

    def owned_idx(i):
        return [k for k, p in enumerate(items) if p[0] == "Parameter" and p[3] == str(i)]

    def owned(i):
        return OrderedDict((items[k][1], objs[int(items[k][2])]) for k in owned_idx(i))
    for i, it in enumerate(items):
        c = it[0]
        if c == "_UserType":
            problem._add_user_type(objs[i])
        elif c == "Fluent":
            ty = tm.BoolType() if it[2] == "bool" else tm.IntType()
            objs[i] = Fluent(it[1], ty, _signature=owned(i), environment=env)
            problem.add_fluent(objs[i], default_initial_value=(em.FALSE() if it[2] == "bool" else em.Int(0)))
        elif c == "InstantaneousAction":
            objs[i] = InstantaneousAction(it[1], _parameters=owned(i), _env=env)
            problem.add_action(objs[i])
        elif c == "SensingAction":
            objs[i] = SensingAction(it[1], _parameters=owned(i), _env=env)
            problem.add_action(objs[i])
        elif c == "DurativeAction":
            objs[i] = DurativeAction(it[1], _parameters=owned(i), _env=env)
            objs[i].set_fixed_duration(1)
            problem.add_action(objs[i])
        elif c == "Process":
            objs[i] = Process(it[1], _parameters=owned(i), _env=env)
            problem.add_process(objs[i])
        elif c == "Event":
            objs[i] = Event(it[1], _parameters=owned(i), _env=env)
            problem.add_event(objs[i])
        elif c == "Task":
            objs[i] = Task(it[1], _parameters=owned(i), _env=env)
            problem.add_task(objs[i])
        elif c == "Object":
            objs[i] = Object(it[1], objs[int(it[2])], env)
            problem.add_object(objs[i])
    for i, it in enumerate(items):
        if it[0] == "Method":
            m = Method(it[1], _parameters=owned(i), _env=env)
            task = int(it[2])
            k = len(owned_idx(task))
            m.set_task(objs[task], *[m.parameter(items[q][1]) for q in owned_idx(i)[:k]])
            objs[i] = m
            problem.add_method(m)
    if spec["cls"] == "H":
        # initial task network: one subtask per task / action all of whose parameter types have an object
        n = 0
        for i, it in enumerate(items):
            if it[0] in ("Task",) + ACTION_CLS:
                args = []
                for q in owned_idx(i):
                    os_ = [objs[k] for k, o in enumerate(items) if o[0] == "Object" and o[2] == items[q][2]]
                    if not os_:
                        args = None
                        break
                    args.append(em.ObjectExp(os_[0]))
                if args is not None:
                    problem.task_network.add_subtask(Subtask(objs[i], *args, ident="s%d" % n, _env=env))
                    n += 1
    f0 = _nullary_bool(items, objs)
    if f0 is not None:
        for _ in range(spec["ntraj"]):
            problem.add_trajectory_constraint(em.Always(em.FluentExp(f0)))
        for k in range(spec["ntil"]):
            problem.add_timed_effect(GlobalStartTiming(5 * (k + 1)), em.FluentExp(f0), em.TRUE() if k % 2 == 0 else em.FALSE())
        for k in range(spec["ntg"]):
            problem.add_timed_goal(GlobalStartTiming(7 + k), em.FluentExp(f0))
    if spec["discrete"]:
        problem.discrete_time = True
    return problem, objs


def _mro(x):
    return [c.__name__ for c in type(x).__mro__ if c is not object]


def problem_view(problem):
    """what PDDLWriter.__init__ can read of the problem (the model's ProblemView), read off the REAL problem"""
    return ["view", ["mro"] + _mro(problem), ["actions"] + [_mro(a) for a in problem.actions],
            ["lens", str(len(problem.processes)), str(len(problem.events)), str(len(problem.trajectory_constraints)),
             str(len(problem.timed_effects)), str(len(problem.timed_goals))], B(problem.discrete_time)]


def view_matches(problem, spec, items):
    """the real problem is the one the payload describes (a harness self-check)"""
    return (type(problem) is PROBLEM_CLS[spec["cls"]] and bool(problem.discrete_time) == spec["discrete"]
            and len(problem.trajectory_constraints) == spec["ntraj"] and len(problem.timed_effects) == spec["ntil"]
            and len(problem.timed_goals) == spec["ntg"]
            and [type(a).__name__ for a in problem.actions] == [it[0] for it in items if it[0] in ACTION_CLS]
            and len(problem.processes) == sum(it[0] == "Process" for it in items)
            and len(problem.events) == sum(it[0] == "Event" for it in items))


def build_maw(payload):
    """MultiAgentProblem: agents ag0, ag1, …; fluent k goes to the environment if k % 3 == 0 else to agent k % nag, action k
    to agent k % nag (k = position among the fluents / actions)"""
    from collections import OrderedDict
    nag, items = int(payload[1][1]), payload[2][1:]
    env = Environment()
    env.error_used_name = False
    tm, em = env.type_manager, env.expression_manager
    problem = MultiAgentProblem("prob", env)
    agents = [Agent("ag%d" % k, problem) for k in range(nag)]
    objs = [None] * len(items)
    for i, it in enumerate(items):
        if it[0] == "_UserType":
            objs[i] = tm.UserType(it[1], None if it[2] == "-" else objs[int(it[2])])
    for i, it in enumerate(items):
        if it[0] == "Parameter":
            objs[i] = Parameter(it[1], objs[int(it[2])], env)

    def owned(i):
        return OrderedDict((p[1], objs[int(p[2])]) for p in items if p[0] == "Parameter" and p[3] == str(i))
    nf = na = 0
    for i, it in enumerate(items):
        c = it[0]
        if c == "Fluent":
            ty = tm.BoolType() if it[2] == "bool" else tm.IntType()
            objs[i] = Fluent(it[1], ty, _signature=owned(i), environment=env)
            dv = em.FALSE() if it[2] == "bool" else em.Int(0)
            if nf % 3 == 0:
                problem.ma_environment.add_fluent(objs[i], default_initial_value=dv)
            else:
                agents[nf % nag].add_fluent(objs[i], default_initial_value=dv)
            nf += 1
        elif c in ("InstantaneousAction", "DurativeAction"):
            if c == "InstantaneousAction":
                objs[i] = InstantaneousAction(it[1], _parameters=owned(i), _env=env)
            else:
                objs[i] = DurativeAction(it[1], _parameters=owned(i), _env=env)
                objs[i].set_fixed_duration(1)
            agents[na % nag].add_action(objs[i])
            na += 1
        elif c == "Object":
            objs[i] = Object(it[1], objs[int(it[2])], env)
            problem.add_object(objs[i])
    for ag in agents:
        problem.add_agent(ag)
    return problem, objs


def build_anml(payload):
    env = Environment()
    env.error_used_name = False
    tm, em = env.type_manager, env.expression_manager
    problem = Problem("prob", env)
    types = []
    for n, father in payload[1][1:]:
        t = tm.UserType(n, None if father == "-" else types[int(father)])
        types.append(t)
        problem._add_user_type(t)
    from collections import OrderedDict

    def sig(ps):
        return OrderedDict((n, types[int(t)]) for n, t in ps[1:])
    fluents, actions, objects = [], [], []
    for n, _ty, ps in payload[2][1:]:
        f = Fluent(n, tm.BoolType(), _signature=sig(ps), environment=env)
        problem.add_fluent(f, default_initial_value=em.FALSE())
        fluents.append(f)
    for c, n, ps in payload[3][1:]:
        if c == "InstantaneousAction":
            a = InstantaneousAction(n, _parameters=sig(ps), _env=env)
        else:
            a = DurativeAction(n, _parameters=sig(ps), _env=env)
            a.set_fixed_duration(1)
        problem.add_action(a)
        actions.append(a)
    for n, t in payload[4][1:]:
        o = Object(n, types[int(t)], env)
        problem.add_object(o)
        objects.append(o)
    if len(payload) > 5:
        f0 = next((f for f in fluents if not f.signature), None)
        for k in range(int(payload[5][2]) if f0 is not None else 0):
            problem.add_timed_effect(GlobalStartTiming(5 * (k + 1)), em.FluentExp(f0), em.TRUE() if k % 2 == 0 else em.FALSE())
        if payload[5][1] == "T":
            problem.discrete_time = True
    return problem, types, fluents, actions, objects


def run_anml(problem):
    """ANMLWriter.get_problem() -> (text, final names_mapping); the mapping is a local of _write_problem, so it is
    observed through the `names_mapping` argument the writer passes to the module-level _get_anml_name"""
    seen = {}
    orig = aw._get_anml_name

    def spy(item, names_mapping):
        seen["m"] = names_mapping
        return orig(item, names_mapping)
    aw._get_anml_name = spy
    try:
        text = ANMLWriter(problem).get_problem()
    finally:
        aw._get_anml_name = orig
    return text, seen.get("m", {})


# ---------------------------------------------------------------------------------------------------------
# impl: the real code
# ---------------------------------------------------------------------------------------------------------

def nm(s):
    return ["n", s]


def _idx(objs, x):
    for i, o in enumerate(objs):
        if o is x:
            return ["i", str(i)]
    for i, o in enumerate(objs):
        if type(o) is type(x) and o == x:
            return ["i", str(i)]
    return ["foreign", type(x).__name__]


def write_text(w):
    """get_domain + get_problem; None when the writer refuses the problem (timed goals are not PDDL)"""
    try:
        return w.get_domain() + "\n" + w.get_problem()
    except UPProblemDefinitionError:
        return None


def run_pddl_ops(payload):
    spec, items, ops = _spec(payload[1]), payload[4][1:], payload[5][1:]
    problem, objs = build_pddl(spec, items)
    w = PDDLWriter(problem)
    res = []
    for op in ops:
        if op[0] == "m":
            res.append(nm(w._get_mangled_name(objs[int(op[1])])))
        elif op[0] == "named":
            try:
                res.append(_idx(objs, w.get_item_named(op[1])))
            except UPException:
                res.append(["none"])
        else:
            try:
                res.append(nm(w.get_pddl_name(objs[int(op[1])])))
            except UPException:
                res.append(["none"])
    text = None
    if payload[6][1] == "T":
        text = write_text(w)
    return problem, objs, w, res, text


def model_payload(payload):
    """two inputs of the model are read from the REAL problem: the `hier` flag ("a user type named object must be renamed":
    has_hierarchical_typing() or more than one user type — Problem.user_types depends on how fluents, actions and quantified
    variables mention types, which the payload does not pin) and the problem VIEW that PDDLWriter.__init__'s conditions look
    at (class names of the problem and of its actions, lengths of processes / events / trajectory_constraints /
    timed_effects / timed_goals, discrete_time); impl() checks that the real problem is the one the payload describes"""
    if payload[0] not in ("pddl", "pddlw"):
        return payload
    items = payload[4][1:] if payload[0] == "pddl" else payload[2][1:]
    try:
        problem, objs = build_pddl(_spec(payload[1]), items)
        real = problem.kind.has_hierarchical_typing() or len(problem.user_types) > 1
        view = problem_view(problem)
    except Exception:
        return payload
    out = list(payload)
    out[1] = view
    if payload[0] == "pddl":
        out[2] = B(real)
    return out


def _optkw(w):
    return ["optkw"] + sorted(w.pddl_keywords - _GENERAL0)


def impl(payload):
    kind = payload[0]
    if kind == "pddl":
        try:
            problem, objs, w, res, _ = run_pddl_ops(payload)
        except (UPException, AssertionError) as e:
            return ["error", type(e).__name__]
        items = payload[4][1:]
        probe = set(it[1] for it in items) | set(w.nto_renamings.keys())
        real_names = sorted(n for n in probe if problem.has_name(n))
        if real_names != sorted(set(payload[3][1:]) & probe) or any(not problem.has_name(n) for n in payload[3][1:]):
            return ["harness-names-mismatch", real_names]
        if not view_matches(problem, _spec(payload[1]), items):
            return ["harness-view-mismatch", problem_view(problem)]
        return [["hier", B(problem.kind.has_hierarchical_typing() or len(problem.user_types) > 1)], ["nkw", str(len(w.pddl_keywords))],
                _optkw(w), ["res"] + res,
                ["otn"] + [[_idx(objs, k), nm(v)] for k, v in w.otn_renamings.items()],
                ["nto"] + [[nm(k), _idx(objs, v)] for k, v in w.nto_renamings.items()]]
    if kind == "pddlw":
        problem, objs = build_pddl(_spec(payload[1]), payload[2][1:])
        if not view_matches(problem, _spec(payload[1]), payload[2][1:]):
            return ["harness-view-mismatch", problem_view(problem)]
        w = PDDLWriter(problem)
        return [["nkw", str(len(w.pddl_keywords))], _optkw(w),
                ["base"] + [nm(pw._get_pddl_name(o, w.pddl_keywords)) for o in objs]]
    if kind == "maw":
        problem, objs = build_maw(payload)
        w = mw.MAPDDLWriter(problem)
        return [["nkw", str(len(w.pddl_keywords))], _optkw(w),
                ["base"] + [nm(pw._get_pddl_name(o, w.pddl_keywords)) for o in objs]]
    if kind == "anml":
        problem, types, fluents, actions, objects = build_anml(payload)
        try:
            _, m = run_anml(problem)
        except (UPException, AssertionError) as e:
            return ["error", type(e).__name__]

        def look(x):
            return nm(m[x]) if x in m else ["none"]
        return [["types"] + [look(t) for t in types],
                ["fluents"] + [[look(f)] + [look(p) for p in f.signature] for f in fluents],
                ["actions"] + [[look(a)] + [look(p) for p in a.parameters] for a in actions],
                ["objects"] + [look(o) for o in objects]]
    raise ValueError(kind)


def _changed(payload, ans):
    """pairs (original name, chosen name) of the named elements"""
    out = []
    kind = payload[0]
    if isinstance(ans, list) and ans and ans[0] in ("error", "harness-names-mismatch", "harness-view-mismatch"):
        return out
    d = {x[0]: x[1:] for x in ans}
    if kind == "pddl":
        items = payload[4][1:]
        for k, v in d["otn"]:
            if k[0] == "i":
                out.append((items[int(k[1])][1], v[1]))
    elif kind in ("pddlw", "maw"):
        for it, v in zip(payload[2][1:], d["base"]):
            out.append((it[1], v[1]))
    else:
        for (n, _f), v in zip(payload[1][1:], d["types"]):
            out.append((n, v[1] if v[0] == "n" else None))
        for sec, idx in (("fluents", 2), ("actions", 3)):
            for decl, vs in zip(payload[idx][1:], d[sec]):
                name = decl[0] if sec == "fluents" else decl[1]
                out.append((name, vs[0][1] if vs[0][0] == "n" else None))
                for (pn, _t), v in zip(decl[-1][1:], vs[1:]):
                    out.append((pn, v[1] if v[0] == "n" else None))
        for (n, _t), v in zip(payload[4][1:], d["objects"]):
            out.append((n, v[1] if v[0] == "n" else None))
    return out


def nontrivial(payload, ans):
    ch = _changed(payload, ans)
    if payload[0] in ("pddl", "pddlw", "maw"):
        return any(new is not None and new.lstrip("?") != old for old, new in ch)
    return any(new != old for old, new in ch)


_COUNTER = re.compile(r"_[0-9]+$")


def payload_frags(spec, items):
    """the fragments of PDDL the written text of the described problem uses (the harness' reading, from the payload)"""
    fr = set()
    if any(it[0] == "DurativeAction" for it in items) or spec["ntil"] > 0:
        fr.add("temporal")
    if any(it[0] in TRANS_CLS for it in items):
        fr.add("plus")
    if spec["ntraj"] > 0:
        fr.add("pddl3")
    if spec["cls"] == "C":
        fr.add("contingent")
    if spec["cls"] == "H":
        fr.add("hddl")
    return fr


def stats(payload, ans):
    t = [payload[0]]
    if isinstance(ans, list) and ans and ans[0] in ("error", "harness-names-mismatch", "harness-view-mismatch"):
        return t + [ans[0]]
    ch = _changed(payload, ans)
    if any(new is not None and new.lstrip("?") != old for old, new in ch):
        t.append("renamed")
    if any(new is not None and _COUNTER.search(new) and not _COUNTER.search(old) for old, new in ch):
        t.append("counter-suffix")
    if any(new is not None and new.endswith("_") and not old.endswith("_") for old, new in ch):
        t.append("keyword-escape")
    lows = [o.lower() for o, _ in ch]
    if len(set(lows)) < len(lows):
        t.append("case-or-kind-clash")
    if payload[0] == "pddl":
        t.append("write" if payload[6][1] == "T" else "no-write")
        if payload[2] == "T":
            t.append("hierarchical")
    if payload[0] in ("pddl", "pddlw"):
        spec = _spec(payload[1])
        items = payload[4][1:] if payload[0] == "pddl" else payload[2][1:]
        dur = any(it[0] == "DurativeAction" for it in items)
        t.append("cls-" + spec["cls"])
        new = spec["cls"] == "H" or any(it[0] == "SensingAction" for it in items)
        for tag, on in (("discrete", spec["discrete"]), ("durative", dur), ("discrete+durative", spec["discrete"] and dur),
                        ("discrete-no-durative", spec["discrete"] and not dur),
                        ("continuous+durative", dur and not spec["discrete"]),
                        ("timed-effects", spec["ntil"] > 0), ("timed-effects-only", spec["ntil"] > 0 and not dur),
                        ("timed-goals", spec["ntg"] > 0),
                        ("timed-goals-only", spec["ntg"] > 0 and spec["ntil"] == 0 and not dur),
                        ("trajectory-constraints", spec["ntraj"] > 0),
                        ("processes-events", any(it[0] in TRANS_CLS for it in items)),
                        ("sensing-action", any(it[0] == "SensingAction" for it in items)),
                        ("tasks", any(it[0] == "Task" for it in items)), ("methods", any(it[0] == "Method" for it in items))):
            if on:
                t.append(tag)
        if new or spec["discrete"] or spec["ntil"] or spec["ntg"]:
            t.append("new-shape")
        fr = payload_frags(spec, items)
        lows = set(it[1].lower() for it in items)
        for f in FRAGS[:-1]:
            if lows & set(FRAG_WORDS[f]):
                t.append(("kwname-of-used-fragment:" if f in fr else "kwname-of-unused-fragment:") + f)
                if f == "temporal" and (spec["discrete"] or (spec["ntil"] and not dur) or (spec["ntg"] and not dur and not spec["ntil"])):
                    t.append("temporal-kwname-in-new-shape")
    if payload[0] == "maw":
        items = payload[2][1:]
        lows = set(it[1].lower() for it in items)
        t.append("maw-durative" if any(it[0] == "DurativeAction" for it in items) else "maw-no-durative")
        for f in ("temporal", "pddl3"):
            if lows & set(FRAG_WORDS[f]):
                t.append("maw-kwname:" + f)
    if payload[0] == "anml" and len(payload) > 5:
        if payload[5][1] == "T":
            t.append("anml-discrete")
        if payload[5][2] != "0":
            t.append("anml-timed-effects")
    return t


# ---------------------------------------------------------------------------------------------------------
# oracle: the property itself on the real code
# ---------------------------------------------------------------------------------------------------------

PDDL_NAME = re.compile(r"[a-zA-Z][a-zA-Z0-9_-]*")     # PDDL 3.1 BNF <name>
ANML_IDENT = re.compile(r"[a-zA-Z][a-zA-Z0-9_]*")


# the keyword tables as the module defines them at import time (a writer that aliases and grows one must not fool the oracle)
_GENERAL0 = frozenset(pw.GENERAL_PDDL_KEYWORDS)
LIB_TABLES = {"temporal": "TEMPORAL_PDDL_KEYWORDS", "plus": "PDDL_PLUS_KEYWORDS", "pddl3": "PDDL3_KEYWORDS",
              "contingent": "CONTINGENT_PDDL_KEYWORDS", "hddl": "HDDL_KEYWORDS"}
_TABLES0 = {f: frozenset(getattr(pw, n, ())) for f, n in LIB_TABLES.items()}


def frag_keywords(f):
    """the keywords of one fragment: the harness' own list (from the language) together with the library's table"""
    return set(FRAG_WORDS[f]) | (_GENERAL0 if f == "general" else _TABLES0[f])


def needed_frags(problem, text):
    """which fragments of PDDL the text written for `problem` uses — decided from the problem's STRUCTURE (what the writer
    has to write for it) and, when the text is at hand, from the constructs that occur in it; never from the writer's own
    keyword selection, and never from the problem kind (a discrete-time problem is written like a continuous-time one)"""
    t = text or ""
    fr = set()
    if (any(isinstance(a, DurativeAction) for a in problem.actions) or len(problem.timed_effects) > 0
            or "(:durative-action" in t or re.search(r"\(at\s+[0-9]", t)):
        fr.add("temporal")
    if len(getattr(problem, "processes", ())) > 0 or len(getattr(problem, "events", ())) > 0 or "(:process" in t or "(:event" in t:
        fr.add("plus")
    if len(getattr(problem, "trajectory_constraints", ())) > 0 or "(:constraints" in t:
        fr.add("pddl3")
    if isinstance(problem, ContingentProblem) or any(isinstance(a, SensingAction) for a in problem.actions) or ":observe" in t:
        fr.add("contingent")
    if isinstance(problem, HierarchicalProblem) or "(:task" in t or "(:method" in t or "(:htn" in t:
        fr.add("hddl")
    return fr


def needed_keywords(problem, text):
    kw = frag_keywords("general")
    for f in needed_frags(problem, text):
        kw |= frag_keywords(f)
    return kw


def colon_words(text):
    """the `:word`s of the written text (section heads, requirement flags): keywords the text itself uses"""
    return set(re.findall(r"(?:(?<=[\s(])|^):([a-z][a-z0-9-]*)", text.lower()))


def _tokens(text):
    return set(re.split(r"[\s()]+", text))


def _check_pddl_maps(w, objs, items, problem, text):
    otn, nto = w.otn_renamings, w.nto_renamings
    kw = needed_keywords(problem, text)
    cw = colon_words(text) if text is not None else set()
    for item, name in otn.items():
        if name not in nto or not (nto[name] is item or nto[name] == item):
            return f"lookups not inverse: item named {name!r} is not what the name maps back to"
        try:
            if w.get_pddl_name(w.get_item_named(name)) != name:
                return f"get_pddl_name(get_item_named({name!r})) differs"
            back = w.get_item_named(w.get_pddl_name(item))
            if not (back is item or back == item):
                return f"get_item_named(get_pddl_name(item)) is another item for {name!r}"
        except UPException as e:
            return f"lookup raised for a named item: {e}"
        is_var = isinstance(item, (Parameter, Variable))
        body = name[1:] if is_var and name.startswith("?") else name
        if is_var and not name.startswith("?"):
            return f"parameter/variable name {name!r} does not start with ?"
        if PDDL_NAME.fullmatch(body) is None:
            return f"{name!r} is not a valid PDDL name"
        if is_var:
            # `?x` is never the keyword `x`; the one reserved variable is ?duration of a durative action
            if name.lower() == "?duration" and "temporal" in needed_frags(problem, text):
                return "a parameter is written as ?duration, the reserved duration variable of temporal PDDL"
        elif body.lower() in kw:
            return f"{name!r} is a PDDL keyword (of a fragment the written problem uses: {sorted(needed_frags(problem, text))})"
        elif body.lower() in cw:
            return f"{name!r} coincides with the keyword :{body.lower()} of the written text"
    for name, item in nto.items():
        if item not in otn or otn[item] != name:
            return f"lookups not inverse: name {name!r} maps to an item whose name is different"
    # distinct elements sharing a namespace (case-insensitively)
    groups = {}
    for i, it in enumerate(items):
        o = objs[i]
        if o not in otn:
            continue
        if it[0] == "Parameter":
            g = ("param-of", it[3])
        elif it[0] in ACTION_CLS + TRANS_CLS + ("Task",):
            g = "action"        # subtasks refer to tasks and actions alike by name
        else:
            g = it[0]
        groups.setdefault(g, []).append(otn[o].lower())
    for g, ns in groups.items():
        if g != ("param-of", "-") and len(set(ns)) < len(ns):
            return f"two elements of namespace {g} share a name: {sorted(ns)}"
    if text is not None:
        toks = _tokens(text.lower())
        for i, it in enumerate(items):
            if it[0] in GLOBAL_CLS + TRANS_CLS and objs[i] in otn:
                if it[0] == "_UserType" and it[1] == "object":
                    continue
                if otn[objs[i]].lower() not in toks:
                    return f"the chosen name {otn[objs[i]]!r} of a {it[0]} does not occur in the written PDDL"
    return None


def oracle(payload):
    kind = payload[0]
    if kind == "pddl":
        try:
            problem, objs, w, res, text = run_pddl_ops(payload)
        except AssertionError:
            return "the assert of _get_mangled_name failed (a chosen name was already in use)"
        ops = payload[5][1:]
        for op, r in zip(ops, res):
            if op[0] == "m":
                o = objs[int(op[1])]
                if w.otn_renamings.get(o) != r[1]:
                    return "a name returned by _get_mangled_name is not the recorded one (names not stable)"
        return _check_pddl_maps(w, objs, payload[4][1:], problem, text)
    if kind == "pddlw":
        items = payload[2][1:]
        problem, objs = build_pddl(_spec(payload[1]), items)
        w = PDDLWriter(problem)
        try:
            text = write_text(w)
        except AssertionError:
            return "the assert of _get_mangled_name failed (a chosen name was already in use)"
        if text is None:
            # refused (timed goals): nothing was written; the names the writer WOULD give must still be right
            try:
                for o in objs:
                    w._get_mangled_name(o)
            except AssertionError:
                return "the assert of _get_mangled_name failed (a chosen name was already in use)"
        for i, it in enumerate(items):
            if it[0] in GLOBAL_CLS + TRANS_CLS and objs[i] not in w.otn_renamings:
                if it[0] == "_UserType" and it[1] == "object":
                    continue
                return f"{it[0]} {it[1]!r} was written but has no recorded name"
        return _check_pddl_maps(w, objs, items, problem, text)
    if kind == "maw":
        items = payload[2][1:]
        problem, objs = build_maw(payload)
        w = mw.MAPDDLWriter(problem)
        try:
            text = "\n".join(list(w.get_ma_domains().values()) + list(w.get_ma_problems().values()))
        except AssertionError:
            return "the assert of MAPDDLWriter._get_mangled_name failed (a chosen name was already in use)"
        kw = frag_keywords("general")
        if any(it[0] == "DurativeAction" for it in items) or "(:durative-action" in text:
            kw |= frag_keywords("temporal")
        cw = colon_words(text)
        otn, nto = w.otn_renamings, w.nto_renamings
        for item, name in otn.items():
            if isinstance(item, Agent):
                continue
            try:
                back = w.get_item_named(w.get_ma_pddl_name(item))
                if not (back is item or back == item) or w.get_ma_pddl_name(w.get_item_named(name)) != name:
                    return f"MA-PDDL lookups are not inverse for {name!r}"
            except UPException as e:
                return f"MA-PDDL lookup raised for a named item: {e}"
            is_var = isinstance(item, (Parameter, Variable))
            body = name[1:] if is_var and name.startswith("?") else name
            if is_var and not name.startswith("?"):
                return f"parameter/variable name {name!r} does not start with ?"
            if PDDL_NAME.fullmatch(body) is None:
                return f"{name!r} is not a valid PDDL name"
            if is_var:
                if name.lower() == "?duration" and any(it[0] == "DurativeAction" for it in items):
                    return "a parameter is written as ?duration, the reserved duration variable of temporal PDDL"
            elif body.lower() in kw:
                return f"{name!r} is a PDDL keyword (MA-PDDL: general, or temporal with a durative action)"
            elif body.lower() in cw:
                return f"{name!r} coincides with the keyword :{body.lower()} of the written MA-PDDL"
        return None
    if kind == "anml":
        problem, types, fluents, actions, objects = build_anml(payload)
        try:
            text, m = run_anml(problem)
        except AssertionError:
            return "the assert of _get_anml_name failed (the chosen name is not a valid ANML name)"
        globals_ = types + fluents + actions + objects
        for x in globals_:
            if x not in m:
                return f"{type(x).__name__} {x.name!r} has no ANML name"
        named = [(k, v) for k, v in m.items() if not (isinstance(k, up.model.Type) and not k.is_user_type())]
        for k, v in named:
            if ANML_IDENT.fullmatch(v) is None:
                return f"{v!r} is not a valid ANML identifier"
            if v in aw.ANML_KEYWORDS:
                return f"{v!r} is an ANML keyword"
        gnames = [m[x] for x in globals_]
        if len(set(gnames)) < len(gnames):
            return f"two of the types/fluents/actions/objects share an ANML name: {sorted(gnames)}"
        for owner in fluents + actions:
            ps = list(owner.signature) if isinstance(owner, Fluent) else list(owner.parameters)
            pn = [m[p] for p in ps if p in m]
            if len(set(pn)) < len(pn):
                return f"two parameters of {owner.name!r} share an ANML name"
            if set(pn) & set(gnames):
                return f"a parameter of {owner.name!r} has the ANML name of a global element"
        toks = set(re.split(r"[\s(),;:=<\[\]{}]+", text))
        for x in globals_:
            if m[x] not in toks:
                return f"the chosen name {m[x]!r} does not occur in the written ANML"
        return None
    raise ValueError(kind)


# ---------------------------------------------------------------------------------------------------------
# shrinking
# ---------------------------------------------------------------------------------------------------------

def _drop_item(payload, k):
    """pddl / pddlw / maw payload without item k (None if something refers to it)"""
    pos = 4 if payload[0] == "pddl" else 2
    items = payload[pos][1:]
    for it in items:
        if it[0] == "_UserType" and it[2] == str(k):
            return None
        if it[0] in ("Object", "Variable", "Parameter") and it[2] == str(k):
            return None
        if it[0] == "Parameter" and it[3] == str(k):
            return None
        if it[0] == "Method" and it[2] == str(k):
            return None
    if items[k][0] == "Parameter" and items[k][3] != "-":
        # the first parameters of a method are the arguments of its task: neither side may lose one
        o = int(items[k][3])
        if items[o][0] == "Task" and any(it[0] == "Method" and it[2] == str(o) for it in items):
            return None
        if items[o][0] == "Method":
            ntask = sum(1 for p in items if p[0] == "Parameter" and p[3] == items[o][2])
            mine = [q for q, p in enumerate(items) if p[0] == "Parameter" and p[3] == str(o)]
            if mine.index(k) < ntask:
                return None

    def sh(s):
        return s if s == "-" else str(int(s) - 1 if int(s) > k else int(s))
    new = []
    for i, it in enumerate(items):
        if i == k:
            continue
        it = list(it)
        if it[0] == "_UserType":
            it[2] = sh(it[2])
        elif it[0] in ("Object", "Variable", "Method"):
            it[2] = sh(it[2])
        elif it[0] == "Parameter":
            it[2], it[3] = sh(it[2]), sh(it[3])
        new.append(it)
    out = list(payload)
    out[pos] = [payload[pos][0]] + new
    if payload[0] in ("pddl", "pddlw"):
        if payload[1][0] == "flags":
            flags = payload[1]
            plus = any(it[0] in TRANS_CLS for it in new)
            temporal = any(it[0] == "DurativeAction" for it in new)
            out[1] = ["flags", B(plus), B(flags[2] == "T" and has_nullary_bool(new)), B(temporal), flags[4]]
        else:
            out[1] = spec_sexp(fit_spec(_spec(payload[1]), new))
    if payload[0] == "pddl":
        ops = []
        for op in payload[5][1:]:
            if op[0] in ("m", "pname"):
                j = int(op[1])
                if j == k:
                    continue
                ops.append([op[0], str(j - 1 if j > k else j)])
            else:
                ops.append(op)
        out[5] = ["ops"] + ops
        out[2] = B(predicted_hier(new))
        out[3] = ["names"] + predicted_names(new)
    return out if new else None


def _simpler_specs(payload):
    """the same items in a plainer problem (one dimension at a time)"""
    if payload[0] not in ("pddl", "pddlw") or payload[1][0] != "prob":
        return
    spec = _spec(payload[1])
    items = payload[4][1:] if payload[0] == "pddl" else payload[2][1:]
    cands = []
    if spec["discrete"]:
        cands.append(dict(spec, discrete=False))
    for key in ("ntg", "ntil", "ntraj"):
        if spec[key] > 0:
            cands.append(dict(spec, **{key: spec[key] - 1}))
    if spec["cls"] != "P" and not any(it[0] in HTN_CLS + ("SensingAction",) for it in items):
        cands.append(dict(spec, cls="P"))
    for c in cands:
        out = list(payload)
        out[1] = spec_sexp(c)
        yield out


def shrink(payload):
    kind = payload[0]
    if kind in ("pddl", "pddlw", "maw"):
        pos = 4 if kind == "pddl" else 2
        n = len(payload[pos]) - 1
        for k in reversed(range(n)):
            c = _drop_item(payload, k)
            if c is not None:
                yield c
        for c in _simpler_specs(payload):
            yield c
        if kind == "pddl":
            ops = payload[5][1:]
            for j in range(len(ops)):
                out = list(payload)
                out[5] = ["ops"] + ops[:j] + ops[j + 1:]
                if out[6][1] == "T":
                    out[6] = ["write", "F"]
                yield out
            if payload[6][1] == "T":
                out = list(payload)
                out[6] = ["write", "F"]
                yield out
    else:
        if len(payload) > 5 and (payload[5][1] == "T" or payload[5][2] != "0"):
            out = list(payload)
            out[5] = ["opts", "F", "0"]
            yield out
        for sec in (4, 3, 2):
            xs = payload[sec][1:]
            for j in range(len(xs)):
                out = list(payload)
                out[sec] = [payload[sec][0]] + xs[:j] + xs[j + 1:]
                yield out
        for sec in (2, 3):
            xs = payload[sec][1:]
            for j, decl in enumerate(xs):
                ps = decl[-1][1:]
                for q in range(len(ps)):
                    nd = list(decl)
                    nd[-1] = ["params"] + ps[:q] + ps[q + 1:]
                    out = list(payload)
                    out[sec] = [payload[sec][0]] + xs[:j] + [nd] + xs[j + 1:]
                    yield out
        types = payload[1][1:]
        if len(types) > 1:
            k = len(types) - 1
            refs = [t[1] for t in types] + [p[1] for sec in (2, 3) for d in payload[sec][1:] for p in d[-1][1:]] + \
                   [o[1] for o in payload[4][1:]]
            if str(k) not in refs:
                out = list(payload)
                out[1] = ["types"] + types[:-1]
                yield out


MANIFEST = {
    "level_text": ("Lean 4 theorems (Props/C38.lean, Props/C38Select.lean) prove for EVERY sequence of PDDLWriter._get_mangled_name / "
                   "_get_anml_name calls, every problem and all ASCII names: the two PDDL lookups are mutually inverse, names of distinct "
                   "elements differ (also case-insensitively), every name is a PDDL <name> / ANML identifier, none is a keyword, "
                   "names never change once given, the writer's assert cannot fail, both loops terminate; and (C38Select) for every "
                   "problem view — any problem class, any actions, any number of processes, events, trajectory constraints, timed "
                   "effects, timed goals, continuous or discrete time — the keyword set PDDLWriter.__init__ selects contains the "
                   "keywords of every PDDL fragment the written text uses (select_adequate, repo_problem_names; MA-PDDL: "
                   "ma_select_adequate), and every `:word` the writer can emit is in a keyword table. Table-dependent side "
                   "conditions are re-decided by the kernel over keyword sets, the selection CONDITIONS of __init__, INITIAL_LETTER "
                   "maps and regex character classes regenerated from /repo on every run. The hand-written functions are tied to the "
                   "code by a differential correspondence check (selected keywords, chosen names, lookups, final maps) over problems "
                   "on both sides of every selection condition, plus a direct oracle of the property on the real writers that decides "
                   "the applicable keywords from the problem's structure and the written text."),
    "level_note": ("Trusted: Lean kernel; axioms propext, Classical.choice, Quot.sound; harness/translate_C38.py; the correspondence "
                   "harness. Modelled not verified: Python dict/re/str.lower on ASCII, isinstance, Problem.has_name, ProblemKind. ASCII "
                   "identifiers only; ANML numeric type expressions and quantifier variables are outside the traversal mirror; MA-PDDL "
                   "agent names and HDDL subtask identifiers (written verbatim) are outside the renaming."),
    "technique": "Lean 4 proof over regenerated tables + model/code correspondence",
    "design_ref": "DESIGN.md §5 C38",
}
