"""C02 — Simulator applicability queries agree with apply."""
import warnings

warnings.simplefilter("ignore")

import sexp
import simlib

ID = "C02"
GEN = []
CORR_NAME = "interleaved-queries-on-one-simulator"
RULE = ("one case = one generated problem (same generator as C01) and a random interleaving of 26 (quick) / 50 (thorough) "
        "queries on ONE simulator instance over the states created so far: is_applicable+apply pairs in either order on a "
        "random ground instance (36%), get_applicable_actions (11%), get_initial_state again (3%), is_goal+get_unsatisfied_goals (14%), "
        "get_unsatisfied_goals (8%), re-reading of a state (28%), and a final re-reading of every state. Every answer is "
        "compared with the pure model; the oracle repeats every query on a fresh simulator, re-reads the states and checks "
        "is_applicable == (apply is not None), get_applicable_actions == instances where apply succeeds, "
        "is_goal == (get_unsatisfied_goals returns []). Non-trivial = some queried (state, instance) pair fires >= 2 effects "
        "on one ground fluent, or touches a bounded/invariant fluent, or reads an undefined fluent.")
ASSUMPTIONS = [
    "same domain restrictions as C01 (non-zero constant divisors, supported kind, invariant-respecting initial state, "
    "user-typed parameters, nested Exists, constants below 2**53; Exists with an x == t conjunct on the bound variable only on a tree with C11's simplifier patch)",
    "until DagWalker.walk restores its stack/memo after an exception (C14's patch, auto-detected by simlib) the runner swaps in "
    "a fresh simulator after a failed evaluation and does not compare a get_applicable_actions call that died on the stale "
    "stack; with the patch merged the whole history runs on one instance",
]
MODELLED = [
    "same model as C01 (Core/Sim.lean); is_applicable is the repaired full check that shares _evaluate_effects with apply_unsafe",
    "purity is a theorem of the (stateless) model only; for the code it is what the interleaved correspondence and the "
    "fresh-simulator oracle sample",
]
BUDGET_S = {"quick": 45, "thorough": 300}
SEARCH_S = {"quick": 40, "thorough": 200}

_cache = {}


def make_case(rng, tier):
    n_ops = 26 if tier == "quick" else 50
    while True:
        ps = simlib.gen_problem(rng)
        if ps is None:
            continue
        fns = simlib.gen_tables(rng) if simlib.uses_ifuns(ps) else []
        try:
            real = simlib.make_real(ps, fns)
        except simlib.Skip:
            continue
        return simlib.payload(ps, simlib.interleave_ops(real, rng, n_ops), fns)


def cases(rng, tier):
    n = 100 if tier == "quick" else 2000
    for _ in range(n):
        yield make_case(rng, tier)


def impl(payload):
    real = simlib.Real(payload[1], payload[2][1:])
    return real.run(payload[3][1:])[0]


compare = simlib.compare


def _tags(payload):
    k = sexp.dumps(payload)
    if k not in _cache:
        if len(_cache) > 4000:
            _cache.clear()
        try:
            _cache[k] = simlib.analyse(payload)[1]
        except Exception:
            _cache[k] = set()
    return _cache[k]


def nontrivial(payload, ans):
    return bool(_tags(payload) & {"multi-effect-on-one-fluent", "bounded-fluent-touched", "invariant-fluent-touched", "undefined-read"})


def stats(payload, ans):
    out = sorted(_tags(payload))
    ops = payload[3][1:]
    for h in ("apply", "isapp", "applicable", "goal", "ugoals", "dump"):
        n = sum(1 for o in ops if o[0] == h)
        if n:
            out.append(f"has:{h}")
    if isinstance(ans, list):
        if any(a == "none" for a in ans):
            out.append("apply:none")
        if any(a == simlib.TOLERATED for a in ans):
            out.append("tolerated:d-c14a")
        if any(a == ["raise", "missing"] for a in ans):
            out.append("ugoals:raises-missing")
    return out


def oracle(payload):
    """the property itself on the real code (simlib.analyse_c02)"""
    try:
        return simlib.analyse_c02(payload)
    except simlib.Skip:
        return None


def shrink(payload):
    ops = payload[3][1:]

    fns = payload[2][1:]

    def rebuild(ps):
        try:
            real = simlib.make_real(ps, fns)
        except simlib.Skip:
            return None
        # keep the ops that still make sense for the smaller problem
        names = {a[1] for a in __import__("upp").get(ps, "actions")}
        kept = [o for o in ops if o[0] not in ("apply", "isapp") or o[2] in names]
        if len(kept) != len(ops):
            return None
        return simlib.payload(ps, kept, fns)
    # drop trailing / single ops first (slot numbers of later ops would shift, so only from the end)
    for n in (len(ops) // 2, len(ops) - 1):
        if 1 <= n < len(ops):
            yield simlib.payload(payload[1], ops[:n], payload[2][1:])
    yield from simlib.shrink_problem(payload, rebuild)


MANIFEST = {
    "level_text": ("Lean 4 theorems (Props/C02.lean) prove for every problem, simplifier, state and ground instance: is_applicable "
                   "equals (apply succeeds) including which exception escapes; get_applicable_actions returns exactly the ground "
                   "instances on which apply succeeds, in grounding order, and raises only if apply raises; is_goal is True exactly "
                   "when get_unsatisfied_goals returns []; the model is stateless, so histories of queries are pure. The model "
                   "mirrors the repaired full check (one effect loop shared with apply_unsafe) and is tied to /repo by differential "
                   "runs of random interleavings of the five queries on one simulator instance, with every answer re-asked on a "
                   "fresh simulator and every state re-read."),
    "level_note": ("Purity of the CODE is sampled by the correspondence (interleavings), not proved. Trusted: Lean kernel; axioms "
                   "propext, Classical.choice, Quot.sound; the correspondence harness. Requires the fix: commit of "
                   "notes/patches/C01-simulator-single-effect-loop.patch (D-C02a/b/c)."),
    "technique": "Lean 4 proof + model/code correspondence over interleaved query histories",
    "design_ref": "DESIGN.md §5 C02",
}
