"""C02 — Simulator applicability queries agree with apply."""
import warnings

warnings.simplefilter("ignore")

import sexp
import simiter
import simlib

ID = "C02"
GEN = []
CORR_NAME = "interleaved-queries-and-partial-enumerations-on-one-simulator"
RULE = ("one case = one generated problem (same generator as C01) and a random history of >= 30 (quick) / 54 (thorough) operations "
        "on ONE simulator instance over the states created so far. 25% of the cases use the alphabet of complete queries only: "
        "is_applicable+apply pairs in either order on a random ground instance (36%), get_applicable_actions consumed completely (11%), "
        "get_initial_state again (3%), is_goal+get_unsatisfied_goals (14%), get_unsatisfied_goals (8%), re-reading of a state (28%). "
        "75% of the cases (harness/simiter.py) add the operations on get_applicable_actions ITERATORS: open one on a state, next, "
        "close, throw an exception into it, consume the rest — so enumerations are left after k elements (dropped silently, closed, "
        "left by an exception), up to 4 are alive at a time on one or on different states and pulled alternately element by element, "
        "the other queries run between two next calls, in 70% of these cases the FIRST enumeration the simulator is ever asked for is "
        "a partial one, and every state that was enumerated gets a complete enumeration at the end; then a final re-reading of every "
        "state. Every answer (every single next included, in the order the code yields) is compared with the pure model, in which an "
        "iterator is its own frame only. The oracle repeats every complete query on a fresh simulator, replays every iterator's "
        "operations on an iterator of a fresh simulator that is asked nothing else, re-reads the states and checks is_applicable == "
        "(apply is not None); complete get_applicable_actions == instances where apply succeeds; every iterator yields only such "
        "instances, none twice, and all of them when it reports its end; is_goal == (get_unsatisfied_goals returns []). "
        "Non-trivial = some queried (state, instance) pair fires >= 2 effects on one ground fluent, or touches a bounded/invariant "
        "fluent, or reads an undefined fluent.")
ASSUMPTIONS = [
    "same domain restrictions as C01 (non-zero constant divisors, supported kind, invariant-respecting initial state, "
    "user-typed parameters, nested Exists, constants below 2**53; Exists with an x == t conjunct on the bound variable only on a tree with C11's simplifier patch)",
    "until DagWalker.walk restores its stack/memo after an exception (C14's patch, auto-detected by simlib) the runner swaps in "
    "a fresh simulator after a failed evaluation and does not compare a get_applicable_actions call that died on the stale "
    "stack, and no iterator operations are generated; with the patch merged the whole history runs on one instance",
    "the iterators get_applicable_actions returns are compared in the order the code yields (grounding order: actions in "
    "declaration order, parameters in product order of the objects) — the property text fixes the set only; the oracle's own "
    "demands on an iterator are order-free except that it must answer like an iterator of a fresh simulator",
]
MODELLED = [
    "same model as C01 (Core/Sim.lean); is_applicable is the repaired full check that shares _evaluate_effects with apply_unsafe",
    "purity is a theorem of the model only (complete queries: stateless; iterators: the only state is the iterator's own frame, "
    "Props/C02Iter.lean); for the code it is what the interleaved correspondence and the fresh-simulator oracle sample",
    "the cached list of groundings (self._grounded_actions) is modelled as the constant allInstances(problem): the code assigns a "
    "complete list before the first element is looked at",
]
BUDGET_S = {"quick": 45, "thorough": 220}
SEARCH_S = {"quick": 40, "thorough": 200}

_cache = {}


EXTRA_PROPS = ["UPVerif.Props.C02Iter"]


def make_case(rng, tier):
    n_ops = 26 if tier == "quick" else 50
    while True:
        ps = simlib.gen_problem(rng)
        if ps is None:
            continue
        fns = simlib.gen_tables(rng) if simlib.uses_ifuns(ps) else []
        try:
            real = simiter.make_real(ps, fns)
        except simlib.Skip:
            continue
        if simlib.REPLACE_DIRTY_SIM or rng.random() < 0.25:
            return simlib.payload(ps, simlib.interleave_ops(real, rng, n_ops), fns)
        return simlib.payload(ps, simiter.iter_interleave_ops(real, rng, n_ops + 4), fns)


def cases(rng, tier):
    n = 90 if tier == "quick" else 1500
    for _ in range(n):
        yield make_case(rng, tier)


def impl(payload):
    real = simiter.IterReal(payload[1], payload[2][1:])
    return real.run(payload[3][1:])[0]


compare = simlib.compare


def _tags(payload):
    k = sexp.dumps(payload)
    if k not in _cache:
        if len(_cache) > 4000:
            _cache.clear()
        try:
            # simlib.analyse (C01's semantic tagging) knows the complete queries only: iterator ops are replaced by a
            # re-reading, which keeps the numbering of the state slots
            ops = [["dump", "0"] if simiter.is_iter_op(o) else o for o in payload[3][1:]]
            _cache[k] = simlib.analyse(simlib.payload(payload[1], ops, payload[2][1:]))[1]
        except Exception:
            _cache[k] = set()
    return _cache[k]


def nontrivial(payload, ans):
    return bool(_tags(payload) & {"multi-effect-on-one-fluent", "bounded-fluent-touched", "invariant-fluent-touched", "undefined-read"})


def stats(payload, ans):
    out = sorted(_tags(payload))
    ops = payload[3][1:]
    for h in ("apply", "isapp", "applicable", "goal", "ugoals", "dump") + simiter.ITER_HEADS:
        n = sum(1 for o in ops if o[0] == h)
        if n:
            out.append(f"has:{h}")
    if isinstance(ans, list):
        if any(a == "none" for a in ans):
            out.append("apply:none")
        if any(a == simlib.TOLERATED for a in ans):
            out.append("tolerated:d-c14a")
        if any(a == ["raise", "missing"] for a in ans):
            out.append("ugoals:raises-missing")
        if len(ans) == len(ops):
            out += sorted(simiter.iter_tags(ops, ans))
    return out


def oracle(payload):
    """the property itself on the real code (simiter.analyse_c02: simlib.analyse_c02 + iterators)"""
    try:
        return simiter.analyse_c02(payload)
    except simlib.Skip:
        return None


def shrink(payload):
    ops = payload[3][1:]

    fns = payload[2][1:]

    def rebuild(ps):
        try:
            real = simiter.make_real(ps, fns)
        except simlib.Skip:
            return None
        # keep the ops that still make sense for the smaller problem
        names = {a[1] for a in __import__("upp").get(ps, "actions")}
        kept = [o for o in ops if o[0] not in ("apply", "isapp") or o[2] in names]
        if len(kept) != len(ops):
            return None
        return simlib.payload(ps, kept, fns)
    # drop trailing / single ops first (slot numbers of later ops would shift, so only from the end)
    for n in (len(ops) // 2, len(ops) - 1):
        if 1 <= n < len(ops):
            yield simlib.payload(payload[1], ops[:n], payload[2][1:])
    yield from simlib.shrink_problem(payload, rebuild)


MANIFEST = {
    "level_text": ("Lean 4 theorems (Props/C02.lean) prove for every problem, simplifier, state and ground instance: is_applicable "
                   "equals (apply succeeds) including which exception escapes; get_applicable_actions returns exactly the ground "
                   "instances on which apply succeeds, in grounding order, and raises only if apply raises; is_goal is True exactly "
                   "when get_unsatisfied_goals returns []; the model is stateless, so histories of queries are pure. Props/C02Iter.lean "
                   "models get_applicable_actions as the generator it is (the only state is the generator's own frame) and proves: a "
                   "completely consumed fresh generator is that query; every next skips only instances on which apply returns None and "
                   "stops at one on which apply succeeds / at the end / at one on which apply raises; k elements taken are the first k "
                   "of the complete enumeration; in ANY history — enumerations left after k elements, closed, left by an exception, "
                   "several pulled alternately, other queries in between — a complete query answers as if asked alone and a generator "
                   "answers as if it were used alone on a fresh simulator (non-interference). The model "
                   "mirrors the repaired full check (one effect loop shared with apply_unsafe) and is tied to /repo by differential "
                   "runs of random histories of the five queries and of iterator operations (open / next / close / throw / consume the rest) on one "
                   "simulator instance, with every answer re-asked on a fresh simulator, every iterator replayed on a fresh simulator, and "
                   "every state re-read."),
    "level_note": ("Purity of the CODE is sampled by the correspondence (interleavings), not proved. Trusted: Lean kernel; axioms "
                   "propext, Classical.choice, Quot.sound; the correspondence harness. Requires the fix: commit of "
                   "notes/patches/C01-simulator-single-effect-loop.patch (D-C02a/b/c)."),
    "technique": "Lean 4 proof + model/code correspondence over interleaved query histories with partially consumed enumerations",
    "design_ref": "DESIGN.md §5 C02",
}
