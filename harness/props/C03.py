"""C03 — Sequential plan validation decides validity and metric values exactly.

One case = one generated problem (with at most one quality metric) + a list of plans:

  (validate <problem> (fn (ref (val*) val)*) (plans (plan step*)*) [(temporal-metric makespan|temporal-oversub)])
  step ::= (do action (arg*)) | (foreign name)
  arg  ::= the atom that spells the actual parameter: object name | true/false | integer | n or n/d (upp.enc_arg)

impl()   : the REAL SequentialPlanValidator on every plan -> status / failure reason / class of the log message /
           index of the inapplicable action / metric value.
oracle() : the property itself on the real code: validity recomputed step by step with the real simulator
           (`apply` + `is_goal`, the semantics of C01), metric values recomputed from the problem text with the
           independent exact evaluator pyden on the simulator's states.
"""
import signal
import warnings
from fractions import Fraction

warnings.simplefilter("ignore")

import pyden
import sexp
import simlib
import upp
import upx

ID = "C03"
GEN = []
EXTRA_PROPS = ["UPVerif.Props.C03Params"]
CORR_NAME = "validate-status-reason-step-metric"
RULE = ("one case = one generated problem (upp.ProblemGen grammar as in C01: Boolean/int/real/object fluents with parameters, "
        "types T>S,U, quantified/disjunctive conditions, conditional/forall assign/increase/decrease effects, bounded types, "
        "state invariants, ~5% undefined fluents, interpreted functions in ~20%; in 2 of 3 action-cost problems and 1 of 3 of "
        "the others most actions also get 1-2 Boolean / bounded-integer / unbounded-integer / real parameters, placed anywhere "
        "in the parameter list and used in preconditions, effect values, effect conditions) with a metric drawn in turn from {none, action "
        "costs (constant, fluent-dependent incl. fluents the action itself writes, parameter-dependent through a fluent, FLUENT-FREE functions of integer / real parameters (k, 2*k, k*k, k/2, 10-k, k+q, k*q), parameters mixed with fluents, real-valued; with/without default; ~8% with an action left "
        "without cost), plan length, minimize/maximize a numeric expression on the final state, oversubscription (1-3 weighted "
        "goals), MinimizeMakespan, TemporalOversubscription (the last two cannot be written in the problem wire format and travel as a flag)}; in ~75% of the problems the goals are re-drawn so that a state reached by a random walk of the real simulator "
        "satisfies them. Plans per problem: the empty plan, every single ground instance, every sequence of length 2 (quick; "
        "sampled above 40) / also length 3 (thorough; sampled above 150), random walks of length 3-6 along applicable actions "
        "(mostly executable) with and without one step replaced by a random instance, and a plan containing an action that is "
        "not of the problem. Problems with Boolean / numeric parameters: instances = the grounder's enumeration for Boolean and "
        "bounded-integer parameters plus up to 4 in-bounds values (both signs, integral and fractional) of unbounded-integer / "
        "real ones; singles and pairs are sampled (10 + 10 quick), and per such action 5 (quick) / 16 sequences of 2-4 instances "
        "of THAT action with different arguments (30% with a step of another action in between), 4 / 20 walks along applicable "
        "instances biased towards repeating the last action with other arguments, and — in 3 of 4 such problems — the goals are "
        "drawn from the end of a walk that does repeat an action with other Boolean / numeric arguments (that walk is one of the "
        "plans), 30% have no goal at all (every executable plan is VALID). Compared per plan: status, FailedValidationReason, class of the log message, 1-based index of "
        "inapplicable_action, metric value (exact rational). Non-trivial = the case contains a VALID plan of length >= 1 and an "
        "INVALID one, or a metric value evaluated on a non-empty plan.")
ASSUMPTIONS = [
    "divisors are non-zero constants (DESIGN 2.11): ZeroDivisionError escapes from the validator and the property is silent",
    "problems whose initial state violates their own invariants are rejected by get_initial_state with UPProblemDefinitionError "
    "(documented rejection of an ill-defined problem, not a validation verdict) and are not generated",
    "at most one quality metric (more raise UPProblemDefinitionError by design)",
    "MinimizeMakespan / TemporalOversubscription are inside supported_kind() but define no value for a sequential plan: the "
    "repaired validator (notes/patches/C03-temporal-metric-not-evaluated.patch) does not evaluate them, the property's metric "
    "clause lists four other kinds, so only validity and 'never raises' are demanded there (2 of 12 generated problems)",
    "when the metric is not evaluable although the plan is executable and reaches the goals (an action without cost and no "
    "default: UPUsageError; a cost / final-state expression / oversubscription goal reading a fluent without value) the validator "
    "answers INVALID; the property does not decide these cases (DESIGN 5 C03): they are generated rarely, model and code must "
    "still agree on them, the oracle only demands 'no exception, INVALID carries a reason' there",
    "fluent and quantifier parameters are user-typed (objects); ACTION parameters are user-typed, Boolean, bounded / unbounded "
    "integer or real (all four parameter features of the validator's supported kind). Values of unbounded-integer / real "
    "parameters are sampled (up to 4 per parameter: 0, 2, -1, 5 / 1/2, 2, 0, 3/2 clipped to the bounds); a real parameter "
    "receives a Python int when the value is integral and a Fraction otherwise (the wire format can also spell Real(n/1), "
    "the generator does not produce it); action costs may be negative (the library accepts them)",
    "the typed reading of actual parameters lives in C03's own model (Core/SimTyped.lean); the shared simulator model "
    "Core/Sim.lean (C01, C02 and the compiler properties lifted to all instances) still instantiates actions with objects only",
    "plans are built from ActionInstances the library accepts (ActionInstance itself rejects ill-typed actual parameters with "
    "UPTypeError before any validation); 'wrong parameters' therefore means instances that are well-typed but inapplicable, "
    "ungroundable, or of an action that is not in the problem",
    "no simulated effects; interpreted functions are total tables shipped with the case",
    "the other reading decisions of C01 (grounder contract, nested Exists, repaired simplifier of C11) apply unchanged",
]
MODELLED = [
    "modelled by hand (tied by correspondence): SequentialPlanValidator._validate (metric selection, get_initial_state, the loop "
    "get_unsatisfied_conditions -> apply_unsafe -> evaluate_quality_metric, the four except clauses, goal check, final-state "
    "metrics, result construction), evaluate_quality_metric, evaluate_quality_metric_in_final_state, MinimizeActionCosts."
    "get_action_cost; on top of the simulator model of C01/C02 (Core/Sim.lean, Core/Eval.lean)",
    "an action instance is the action plus the atoms spelling its actual parameters; Sim.argExpr / paramSubstT / groundT "
    "(Core/SimTyped.lean, Core/ArgLit.lean) read an atom according to the formal parameter's type and ground the instance with "
    "the body of Sim.ground (proved equal to Sim.paramSubst / Sim.ground / C01's Spec.apply on user-typed actions: "
    "C03_user_typed_parameters_unchanged); the harness twin is upp.enc_arg / upp.dec_arg (trusted, 20 lines)",
    "the simplifier is a parameter of the theorems; the driver instantiates it with property C11's model",
    "not modelled: PlanValidatorMixin.validate's ProblemKind / PlanKind checks, log message texts beyond their class, the trace "
    "and calculated_interpreted_functions fields, simulated effects, user callables, Python dict/set/Fraction",
]
BUDGET_S = {"quick": 50, "thorough": 400}
WATCHDOG_S = 60


class _Timeout(Exception):
    pass


class watchdog:
    def _fire(self, *a):
        raise _Timeout()

    def __enter__(self):
        self.old = signal.signal(signal.SIGALRM, self._fire)
        signal.setitimer(signal.ITIMER_REAL, WATCHDOG_S)

    def __exit__(self, *a):
        signal.setitimer(signal.ITIMER_REAL, 0)
        signal.signal(signal.SIGALRM, self.old)
        return False


# ------------------------------------------------------------------------------------------------
# generation
# ------------------------------------------------------------------------------------------------

METRIC_KINDS = ["none", "costs", "length", "min-final", "max-final", "oversub", "costs", "oversub", "makespan", "costs",
                "temporal-oversub", "oversub"]
TEMPORAL = ("makespan", "temporal-oversub")


def _set_sec(ps, name, items):
    out = list(ps)
    for j, sec in enumerate(ps):
        if isinstance(sec, list) and sec and sec[0] == name:
            out[j] = [name] + items
    return out


def gen_metric(rng, g, ps, kind):
    """one metric s-expression of the given kind over the generated problem"""
    FL = g.FL
    acts = upp.get(ps, "actions")
    if kind == "none":
        return []
    if kind == "length":
        return [["min-length"]]
    if kind == "costs":
        costs = []
        leave_out = rng.random() < 0.35
        for a in acts:
            if leave_out and rng.random() < 0.5:
                continue
            opts = [["i", "1"], ["i", "3"], ["i", "0"], ["r", "1/2"], ["r", "7/3"],
                    ["plus", ["fl", FL["xb"]], ["i", "1"]],
                    ["times", ["i", "2"], ["fl", FL["x"]]],
                    ["plus", ["fl", FL["z"]], ["fl", FL["xb"]]],
                    ["minus", ["i", "10"], ["fl", FL["zb"]]]]
            tparams = [p for p in a[2] if isinstance(p[1], list) and p[1][0] == "user" and p[1][1] in ("T", "S")]
            if tparams:
                p = rng.choice(tparams)
                par = ["p", p[0], p[1]]
                opts += [["fl", FL["xq"], par]] * 3 + [["plus", ["fl", FL["xq"], par], ["fl", FL["xb"]]]] * 2
                sparams = [p for p in tparams if p[1][1] == "S"]
                if sparams:
                    q = rng.choice(sparams)
                    opts += [["fl", FL["xq"], ["fl", FL["own"], ["p", q[0], q[1]]]]] * 2
            # costs over the action's own integer / real parameters: fluent-free ones (a function of the ACTUAL parameters
            # of the step only: the same action costs differently with other arguments), mixed with fluents, two parameters
            nparams = [p for p in a[2] if isinstance(p[1], list) and p[1][0] in ("int", "real")]
            numcost = bool(nparams) and rng.random() < 0.8
            if numcost:
                p = rng.choice(nparams)
                par = ["p", p[0], p[1]]
                opts = [par, par, ["times", ["i", "2"], par], ["plus", par, ["i", "1"]], ["minus", ["i", "10"], par],
                        ["times", par, par], ["div", par, ["i", "2"]], ["plus", ["times", ["i", "3"], par], ["r", "1/2"]],
                        ["plus", par, ["fl", FL["xb"]]], ["times", par, ["fl", FL["x"]]], ["minus", ["fl", FL["z"]], par]]
                if len(nparams) > 1:
                    q = [x for x in nparams if x is not p][0]
                    qar = ["p", q[0], q[1]]
                    opts += [["plus", par, qar], ["times", par, qar], ["minus", par, qar]] * 2
                if tparams:
                    t = rng.choice(tparams)
                    opts += [["plus", par, ["fl", FL["xq"], ["p", t[0], t[1]]]]] * 2
            # a cost that reads a numeric fluent the action itself writes: its value differs between the pre-state
            # and the successor, so "summed over PRE-states" is observable
            own = []
            for e in a[4][1:]:
                ty = e[2][1][1]
                if isinstance(ty, list) and ty[0] in ("int", "real") and not e[5]:
                    own += [["plus", e[2], ["i", "1"]], e[2], ["times", ["i", "2"], e[2]]]
            costs.append([a[1], rng.choice(own) if own and not numcost and rng.random() < 0.5 else rng.choice(opts)])
        # without default an action left out has NO cost (UPUsageError at validation): kept rare
        if leave_out:
            dflt = "_" if rng.random() < 0.25 else rng.choice([["i", "1"], ["i", "0"], ["r", "3/2"], ["fl", FL["xb"]]])
        else:
            dflt = rng.choice(["_", ["i", "1"], ["i", "2"]])
        return [["min-action-costs", costs, dflt]]
    if kind in ("min-final", "max-final"):
        k = rng.random()
        if k < 0.5:
            e = g.num([], (), 1)
        elif k < 0.75:
            e = ["plus", ["fl", FL["x"]], ["fl", FL["xq"], ["o", rng.choice(["s1", "s2"]), "S"]]]
        else:
            e = rng.choice([["fl", FL["z"]], ["fl", FL["xb"]], ["minus", ["fl", FL["zb"]], ["fl", FL["x"]]]])
        return [[kind, e]]
    if kind == "oversub":
        gs = []
        for _ in range(rng.choice([1, 2, 2, 3])):
            gs.append([g.cond([], (), rng.choice([1, 1, 2])), rng.choice(["1", "2", "5/2", "3", "-1", "0"])])
        return [["oversub", gs]]
    raise ValueError(kind)


def _norm_metric(ms, flags):
    """the reading decisions of simlib.normalise_problem (constant non-zero divisors, nested Exists) on metric expressions"""
    out = []
    for m in ms:
        if m[0] == "min-action-costs":
            out.append([m[0], [[a, simlib._norm_expr(e, flags)] for a, e in m[1]], m[2] if m[2] == "_" else simlib._norm_expr(m[2], flags)])
        elif m[0] in ("min-final", "max-final"):
            out.append([m[0], simlib._norm_expr(m[1], flags)])
        elif m[0] == "oversub":
            out.append([m[0], [[simlib._norm_expr(c, flags), w] for c, w in m[1]]])
        else:
            out.append(m)
    return out


def has_num_params(ps):
    return any(p[1] == "bool" or p[1][0] != "user" for a in upp.get(ps, "actions") for p in a[2])


def _is_num_action(real, an):
    return any(pt == "bool" or pt[0] != "user" for pt in real.ptypes.get(an, []))


def _pick_applicable(rng, real, sim, s, last=None, bias=0.7):
    """an applicable instance among real.instances (which, unlike get_applicable_actions, also hold sampled values of
    parameters no grounder enumerates), or None.  Biased towards actions with Boolean / numeric parameters and towards
    OTHER arguments than the previous step's when the action is repeated."""
    insts = list(real.instances)
    rng.shuffle(insts)
    if rng.random() < bias:
        insts.sort(key=lambda x: 0 if _is_num_action(real, x[0]) else 1)
        if last is not None and rng.random() < bias:
            insts.sort(key=lambda x: 0 if (x[0] == last[0] and x[1] != last[1]) else 1)
    for an, args in insts[:25]:
        try:
            if sim.is_applicable(s, real.P.action(an), real.params(args, an)):
                return an, list(args)
        except Exception:
            if simlib.REPLACE_DIRTY_SIM and real.dirty(sim):
                return None
    return None


def _repeats_with_other_args(real, steps):
    """does one action with Boolean / numeric parameters occur twice with different values of them?"""
    seen = {}
    for st in steps:
        if st[0] != "do":
            continue
        v = tuple(x for x, pt in zip(st[2], real.ptypes.get(st[1], [])) if pt == "bool" or pt[0] != "user")
        if v:
            seen.setdefault(st[1], set()).add(v)
    return any(len(v) > 1 for v in seen.values())


def _num_walk(rng, real, n, bias=0.7):
    """(steps, final state) of a walk of at most n steps along applicable instances"""
    sim = real.fresh()
    try:
        s = sim.get_initial_state()
    except Exception:
        return [], None
    walk, last = [], None
    for _ in range(n):
        nxt = _pick_applicable(rng, real, sim, s, last, bias)
        if nxt is None:
            break
        try:
            s2 = sim.apply(s, real.P.action(nxt[0]), real.params(nxt[1], nxt[0]))
        except Exception:
            break
        if s2 is None:
            break
        walk.append(["do", nxt[0], nxt[1]])
        s, last = s2, nxt
    return walk, s


def _random_walk_state(rng, real, n):
    if has_num_params(real.ps):
        return _num_walk(rng, real, n)[1]
    sim = real.sim
    try:
        s = sim.get_initial_state()
    except Exception:
        return None
    for _ in range(n):
        try:
            apps = list(sim.get_applicable_actions(s))
        except Exception:
            if simlib.REPLACE_DIRTY_SIM:
                sim = real.new_sim()
            break
        if not apps:
            break
        a, ps_ = rng.choice(apps)
        s2 = sim.apply(s, a, ps_)
        if s2 is None:
            break
        s = s2
    return s


def _redraw_goals(rng, g, ps, fns, seed_walks=None, require_repeat=False, no_goals=False):
    """goals that some state reached by a random walk satisfies (so that VALID plans of length >= 1 exist); for problems
    with Boolean / numeric action parameters the walk itself is handed back in `seed_walks` (it becomes one of the plans).
    require_repeat: None is returned unless that walk uses one action twice with different Boolean / numeric arguments.
    no_goals: the goal list becomes empty (every executable plan is valid: every metric value is observed)."""
    try:
        real = simlib.make_real(ps, fns, "sampled")
    except simlib.Skip:
        return None if require_repeat else ps
    if has_num_params(ps):
        walk, s = _num_walk(rng, real, rng.choice([2, 3, 3, 4]), 0.9 if require_repeat else 0.7)
        if require_repeat and not _repeats_with_other_args(real, walk):
            return None
        if seed_walks is not None and walk:
            seed_walks.append(walk)
        if no_goals:
            return _set_sec(ps, "goals", [])
    else:
        s = _random_walk_state(rng, real, rng.choice([1, 2, 2, 3]))
    if s is None:
        return ps
    smap = real.state_map(s)
    I = simlib._interp(ps, smap, fns)
    try:
        I0 = simlib._interp(ps, real.state_map(real.sim.get_initial_state()), fns)
    except Exception:
        I0 = None
    keep, also_initially = [], []
    want = rng.choice([1, 1, 2])
    for _ in range(14):
        c = simlib._norm_expr(g.cond([], (), rng.choice([1, 1, 2])), {})
        if c[0] == "b" or pyden.den(c, I) != ("b", True):
            continue
        # prefer goals that do NOT already hold in the initial state (so that the empty plan is INVALID)
        if I0 is not None and pyden.den(c, I0) == ("b", True):
            also_initially.append(c)
        else:
            keep.append(c)
        if len(keep) >= want:
            break
    if not keep:
        keep = also_initially[:want]
    elif also_initially and rng.random() < 0.3:
        keep.append(also_initially[0])
    if not keep:
        return ps
    return _set_sec(ps, "goals", keep)


def gen_problem(rng, kind, numeric=False):
    """canonical problem s-expression with a metric of the requested kind (or None if kept out); `numeric`: most
    actions also get Boolean / integer / real parameters"""
    g = upp.ProblemGen(rng, undefined=(rng.random() < (0.3 if numeric else 0.6)), invariants=True, metrics=False,
                       num_params=0.85 if numeric else 0.0)
    ps = g.problem()
    if rng.random() < 0.2:
        ps = simlib.inject_ifuns(rng, ps)
    if rng.random() < 0.25:
        for j, sec in enumerate(ps):
            if isinstance(sec, list) and sec and sec[0] == "traj":
                ps[j] = sec + simlib.extra_invariants(rng, g)
    flags = {}
    ps = simlib.normalise_problem(ps, flags)
    if flags.get("exists-eq") and not simlib.SIMPLIFIER_REPAIRED:
        return None
    fns = simlib.gen_tables(rng) if simlib.uses_ifuns(ps) else []
    try:
        P, _ = upp.build_problem(ps)
        ps = upp.enc_problem(P)
    except Exception:
        return None
    seed_walks = []
    if numeric:
        # in 3 of 4 such problems some executable walk repeats an action with other Boolean / numeric arguments
        ps = _redraw_goals(rng, g, ps, fns, seed_walks, require_repeat=(rng.random() < 0.75), no_goals=(rng.random() < 0.3))
        if ps is None:
            return None
    elif rng.random() < 0.7 or not upp.get(ps, "goals"):
        ps = _redraw_goals(rng, g, ps, fns)
    ms = _norm_metric(gen_metric(rng, g, ps, kind), flags)
    ps = _set_sec(ps, "metrics", ms)
    try:
        P, _ = upp.build_problem(ps)
        canon = upp.enc_problem(P)
    except Exception:
        return None
    flags2 = {}
    if simlib.normalise_problem(canon, flags2) != canon or (flags2.get("exists-eq") and not simlib.SIMPLIFIER_REPAIRED):
        return None
    return canon, fns, seed_walks


def gen_plans(rng, real, tier, seed_walks=()):
    insts = [["do", an, list(args)] for an, args in real.instances]
    numeric = has_num_params(real.ps)
    plans = [[]]
    cap2, cap3 = (40, 0) if tier == "quick" else (150, 150)
    if numeric:
        # the instance set is large (values x objects): singles and pairs are sampled, the budget goes to repetitions
        cap1, cap2, cap3 = (10, 10, 0) if tier == "quick" else (40, 40, 40)
        plans += [[i] for i in (insts if len(insts) <= cap1 else rng.sample(insts, cap1))]
        for w in seed_walks:
            plans.append(list(w))
            if len(w) > 1:
                plans.append(list(w[:-1]))
    else:
        plans += [[i] for i in insts]
    pairs = [[a, b] for a in insts for b in insts]
    if len(pairs) > cap2:
        pairs = rng.sample(pairs, cap2)
    plans += pairs
    if cap3 and insts:
        n3 = len(insts) ** 3
        if n3 <= cap3:
            plans += [[a, b, c] for a in insts for b in insts for c in insts]
        else:
            plans += [[rng.choice(insts) for _ in range(3)] for _ in range(cap3)]
    # the same action several times with DIFFERENT Boolean / numeric arguments (alone, and around a step of another action)
    if numeric:
        by_act = {}
        for i in insts:
            if _is_num_action(real, i[1]):
                by_act.setdefault(i[1], []).append(i)
        rep = []
        for an, group in by_act.items():
            if len(group) < 2:
                continue
            for _ in range(5 if tier == "quick" else 16):
                k = rng.choice([2, 2, 3, 3, 4])
                seq = [rng.choice(group) for _ in range(k)]
                if all(x == seq[0] for x in seq):
                    seq[-1] = rng.choice([g_ for g_ in group if g_ != seq[0]])
                if rng.random() < 0.3:
                    seq.insert(rng.randint(0, len(seq)), rng.choice(insts))
                rep.append(seq)
        plans += rep
    # random walks along applicable actions (executable prefixes), some with one step swapped
    nwalk = 6 if tier == "quick" else 20
    sim = real.sim
    for _ in range((4 if tier == "quick" else 20) if numeric else 0):
        walk, _s = _num_walk(rng, real, rng.choice([3, 4, 5, 6]))
        if walk:
            plans.append(list(walk))
            if insts and rng.random() < 0.6:
                w2 = list(walk)
                w2[rng.randrange(len(w2))] = rng.choice(insts)
                plans.append(w2)
            if insts and rng.random() < 0.3:
                plans.append(list(walk) + [rng.choice(insts)])
    for _ in range(0 if numeric else nwalk):
        try:
            s = sim.get_initial_state()
        except Exception:
            break
        walk = []
        for _ in range(rng.choice([3, 4, 5, 6])):
            try:
                apps = [(a, p) for a, p in sim.get_applicable_actions(s)]
            except Exception:
                if simlib.REPLACE_DIRTY_SIM:
                    sim = real.new_sim()
                break
            if not apps:
                break
            a, p = rng.choice(apps)
            s2 = sim.apply(s, a, p)
            if s2 is None:
                break
            walk.append(["do", a.name, [x.object().name for x in p]])
            s = s2
        if walk:
            plans.append(list(walk))
            if insts and rng.random() < 0.6:
                w2 = list(walk)
                w2[rng.randrange(len(w2))] = rng.choice(insts)
                plans.append(w2)
            if insts and rng.random() < 0.3:
                plans.append(list(walk) + [rng.choice(insts)])
    # an action that does not belong to the problem
    base = rng.choice(plans)
    pos = rng.randint(0, len(base))
    plans.append(base[:pos] + [["foreign", "zz_not_in_problem"]] + base[pos:])
    seen, out = set(), []
    for p in plans:
        k = sexp.dumps(p)
        if k not in seen:
            seen.add(k)
            out.append(["plan"] + p)
    return out


def payload(ps, fns, plans, temporal=None):
    pl = ["validate", ps, ["fn"] + list(fns), ["plans"] + plans]
    if temporal:
        pl.append(["temporal-metric", temporal])
    return pl


def temporal_of(pl):
    return pl[4][1] if len(pl) > 4 else None


def make_case(rng, tier, kind, numeric=False):
    for _ in range(200):
        r = gen_problem(rng, "none" if kind in TEMPORAL else kind, numeric)
        if r is None:
            continue
        ps, fns, seed_walks = r
        try:
            real = simlib.make_real(ps, fns, "sampled")
        except simlib.Skip:
            continue
        if numeric and not has_num_params(ps):
            continue
        return payload(ps, fns, gen_plans(rng, real, tier, seed_walks), kind if kind in TEMPORAL else None)
    raise RuntimeError("generator kept everything out")


def cases(rng, tier):
    n = 60 if tier == "quick" else 300
    for i in range(n):
        kind = METRIC_KINDS[i % len(METRIC_KINDS)]
        # Boolean / integer / real action parameters: in 2 of 3 action-cost problems, in 1 of 3 of the others
        numeric = rng.random() < (0.67 if kind == "costs" else 0.34)
        yield make_case(rng, tier, kind, numeric)


# ------------------------------------------------------------------------------------------------
# the real code
# ------------------------------------------------------------------------------------------------

def _build(pl):
    ps, fns = pl[1], pl[2][1:]
    real = simlib.Real(ps, fns, "sampled")
    t = temporal_of(pl)
    if t is not None:
        # a metric the wire format does not carry: inside supported_kind(), no value on a sequential plan
        from unified_planning.model.metrics import MinimizeMakespan, TemporalOversubscription
        from unified_planning.model.timing import GlobalStartTiming
        if t == "makespan":
            real.P.add_quality_metric(MinimizeMakespan(real.ctx.env))
        elif t == "temporal-oversub":
            goals = list(real.P.goals) or [real.ctx.em.TRUE()]
            real.P.add_quality_metric(TemporalOversubscription({(GlobalStartTiming(), goals[0]): 3}, real.ctx.env))
        else:
            raise ValueError(t)
    return real


def _real_plan(real, steps, foreign):
    from unified_planning.plans import ActionInstance, SequentialPlan
    from unified_planning.model import InstantaneousAction
    ais = []
    for st in steps:
        if st[0] == "do":
            act = real.P.action(st[1])
            ais.append(ActionInstance(act, real.actuals(st[2], st[1])))
        elif st[0] == "foreign":
            if st[1] not in foreign:
                foreign[st[1]] = InstantaneousAction(st[1], _env=real.ctx.env)
            ais.append(ActionInstance(foreign[st[1]]))
        else:
            raise ValueError(st)
    return SequentialPlan(ais, real.ctx.env), ais


WHY = [("Preconditions ", "unsat-pre"), ("creates a UsageError", "usage"), ("creates an Invalid Action", "invalid-action"),
       ("creates Conflicting Effects", "conflict"), ("involves fluents with undefined values", "missing"),
       ("Goals or quality metric involve fluents with undefined values", "final-missing"), ("are not satisfied by the plan", "goals")]


def _classify(msg):
    for pat, name in WHY:
        if pat in msg:
            return name
    return "unknown-message"


def _validate_one(real, steps):
    from unified_planning.engines.plan_validator import SequentialPlanValidator
    from unified_planning.engines.results import ValidationResultStatus, FailedValidationReason
    from unified_planning.exceptions import UPProblemDefinitionError, UPStateMissingFluentError
    foreign = {}
    plan, ais = _real_plan(real, steps, foreign)
    try:
        with warnings.catch_warnings():
            warnings.simplefilter("ignore")
            res = SequentialPlanValidator(environment=real.ctx.env).validate(real.P, plan)
    except UnboundLocalError:
        return "crash", None
    except UPProblemDefinitionError:
        return "rejected", None
    except UPStateMissingFluentError:
        return ["raise", "missing"], None
    except ZeroDivisionError:
        return ["raise", "zero-div"], None
    except _Timeout:
        raise
    except Exception as e:
        return ["raise", "other", type(e).__name__], None
    if res.status == ValidationResultStatus.VALID:
        me = res.metric_evaluations
        if me is None:
            return ["valid", "_"], res
        if len(me) != 1:
            return ["valid", "several-metrics"], res
        (v,) = me.values()
        return ["valid", upx.q2s(Fraction(v))], res
    if res.status != ValidationResultStatus.INVALID:
        return ["status", res.status.name], res
    reason = {FailedValidationReason.INAPPLICABLE_ACTION: "inapplicable-action",
              FailedValidationReason.UNSATISFIED_GOALS: "unsatisfied-goals"}.get(res.reason, "no-reason")
    msgs = [m.message for m in (res.log_messages or [])]
    why = _classify(msgs[0]) if msgs else "no-message"
    step = 0
    if res.inapplicable_action is not None:
        idx = [j for j, ai in enumerate(ais, start=1) if ai is res.inapplicable_action]
        step = idx[0] if idx else -1
    if res.metric_evaluations is not None:
        why += "+metric"
    return ["invalid", reason, why, str(step)], res


def impl(pl):
    """the answers of the real validator; they are produced once per case, inside `analyse` (which goes on to judge
    them against the property), and shared through the cache — every plan is validated exactly once per case"""
    out = []
    for a in _analysis(pl)[2]:
        if isinstance(a, list) and a[:2] == ["raise", "other"]:
            a = ["raise", "other"]
        out.append(a)
    return out


# ------------------------------------------------------------------------------------------------
# the property on the real code
# ------------------------------------------------------------------------------------------------

def _metric_value(ps, fns, metric, steps, pre_maps, final_map):
    """the value the metric DEFINES (property text), computed from the problem text with pyden on the given state
    maps; returns ('ok', Fraction) | ('undefined', why)"""
    kind = metric[0]
    if kind == "min-length":
        return ("ok", Fraction(len(steps)))
    if kind == "min-action-costs":
        costs = {a: e for a, e in metric[1]}
        total = Fraction(0)
        acts = {a[1]: a for a in upp.get(ps, "actions")}
        for st, smap in zip(steps, pre_maps):
            e = costs.get(st[1], None if metric[2] == "_" else metric[2])
            if e is None:
                return ("undefined", "no-cost")
            I = simlib._interp(ps, smap, fns)
            # the ACTUAL parameters of this step (never those of another occurrence of the action)
            I["par"] = {p[0]: upp.arg_value(p[1], o) for p, o in zip(acts[st[1]][2], st[2])}
            v = pyden.den(e, I)
            if v is None or v[0] != "n":
                return ("undefined", "cost-reads-undefined")
            total += v[1]           # action costs summed over PRE-states
        return ("ok", total)
    I = simlib._interp(ps, final_map, fns)
    if kind in ("min-final", "max-final"):
        v = pyden.den(metric[1], I)
        if v is None or v[0] != "n":
            return ("undefined", "final-reads-undefined")
        return ("ok", v[1])
    if kind == "oversub":
        total = Fraction(0)
        for gexp, w in metric[1]:
            v = pyden.den(gexp, I)
            if v is None or v[0] != "b":
                return ("undefined", "oversub-reads-undefined")
            if v[1]:
                total += Fraction(w)
        return ("ok", total)
    raise ValueError(kind)


def _reference(real, ps, fns, steps):
    """executability and goal with the real SIMULATOR (semantics of C01), step by step.
    returns (first_failing_step_or_None, goal_reached, pre_maps, final_map)"""
    sim = real.fresh()
    s = sim.get_initial_state()
    pre_maps = []
    for i, st in enumerate(steps, start=1):
        if st[0] == "foreign":
            return i, False, pre_maps, None
        pre_maps.append(real.state_map(s))
        s2 = sim.apply(s, real.P.action(st[1]), real.params(st[2], st[1]))
        if simlib.REPLACE_DIRTY_SIM and real.dirty(sim):
            sim = real.fresh()
        # "executable under the semantics of C01" means the DOCUMENTED semantics, not whatever the simulator does:
        # each step is re-judged by the independent set-based successor (simlib.spec_outcomes, pyden evaluation)
        try:
            g = simlib._ground_real(real, st[1], st[2])
            outcomes = [None] if g is None else simlib.spec_outcomes(ps, g[0], g[1], pre_maps[-1], fns)
            got = None if s2 is None else real.state_map(s2)
            if not any((got is None and o is None) or (got is not None and o is not None and got == o) for o in outcomes):
                raise SemanticsMismatch(f"step {i} ({st[1]} {st[2]}): the simulator "
                                        + ("rejects it" if got is None else "accepts it")
                                        + ", the documented semantics says "
                                        + ("inapplicable" if outcomes[0] is None else "applicable with another successor" if got is not None else "applicable"))
        except SemanticsMismatch:
            raise
        except Exception:
            pass
        if s2 is None:
            return i, False, pre_maps, None
        s = s2
    return None, bool(sim.is_goal(s)), pre_maps, real.state_map(s)


class SemanticsMismatch(Exception):
    pass


def analyse(pl):
    """(violation or None, per-plan tags, per-plan answers of the real validator)"""
    ps, fns = pl[1], pl[2][1:]
    real = _build(pl)
    metrics = upp.get(ps, "metrics")
    viol, tags, answers = None, [], []
    for plan in pl[3][1:]:
        steps = plan[1:]
        t = set()
        a, res = _validate_one(real, steps)
        answers.append(a)
        t.add("len:%s" % (len(steps) if len(steps) < 4 else "4+"))
        if a == "crash" or (isinstance(a, list) and a and a[0] == "raise"):
            viol = viol or f"validate raised ({sexp.dumps(a)}) on plan {sexp.dumps(plan)}"
            tags.append(t | {"raised"})
            continue
        if a == "rejected":
            tags.append(t | {"rejected"})
            continue
        try:
            fail, goal, pre_maps, final_map = _reference(real, ps, fns, steps)
        except SemanticsMismatch as e:
            viol = viol or f"{e} in plan {sexp.dumps(plan)}"
            tags.append(t | {"semantics-mismatch"})
            continue
        except Exception as e:
            viol = viol or f"the real simulator raised {type(e).__name__} while executing {sexp.dumps(plan)}"
            tags.append(t | {"simulator-raised"})
            continue
        should_be_valid = fail is None and goal
        mv = None
        if should_be_valid and metrics:
            mv = _metric_value(ps, fns, metrics[0], steps, pre_maps, final_map)
        elif fail is None and not goal:
            t.add("executable-not-goal")
        if a[0] == "valid":
            t.add("VALID")
            if not should_be_valid:
                viol = viol or (f"VALID although " + (f"step {fail} is not applicable" if fail is not None else "the final state is not a goal state")
                                + f": {sexp.dumps(plan)}")
            elif metrics:
                t.add("metric:" + metrics[0][0])
                if a[1] == "_":
                    viol = viol or f"VALID without metric evaluation for a problem with a metric: {sexp.dumps(plan)}"
                elif mv[0] == "ok" and Fraction(a[1]) != mv[1]:
                    viol = viol or f"metric value {a[1]} reported, the metric defines {upx.q2s(mv[1])}: {sexp.dumps(plan)}"
                elif mv[0] != "ok":
                    t.add("metric-evaluated-by-early-exit")
            elif a[1] != "_":
                viol = viol or f"metric value reported for a problem without metric: {sexp.dumps(plan)}"
        elif a[0] == "invalid":
            t.add("INVALID:" + a[2])
            if a[1] == "no-reason":
                viol = viol or f"INVALID without failure reason: {sexp.dumps(plan)}"
            if should_be_valid:
                if mv is not None and mv[0] == "undefined":
                    t.add("metric-undefined:" + mv[1])      # the property does not decide (ASSUMPTIONS)
                else:
                    viol = viol or f"INVALID ({a[2]}) although the plan is executable and reaches the goals: {sexp.dumps(plan)}"
            else:
                # every failure inside the loop is INAPPLICABLE_ACTION; with an executable plan the only in-loop failure is a
                # cost that cannot be evaluated (class usage / missing), which the property does not decide
                if fail is not None:
                    want = "inapplicable-action"
                elif a[2] in ("usage", "missing"):
                    want = a[1]
                    t.add("metric-undefined:in-loop")
                else:
                    want = "unsatisfied-goals"
                if a[1] != want:
                    viol = viol or (f"failure reason {a[1]} but " + (f"step {fail} has no successor" if fail is not None else "only the goals fail")
                                    + f": {sexp.dumps(plan)}")
        else:
            viol = viol or f"unexpected status {sexp.dumps(a)}"
        tags.append(t)
    return viol, tags, answers


_cache = {}


def _analysis(pl):
    k = sexp.dumps(pl)
    if k not in _cache:
        if len(_cache) > 300:
            _cache.clear()
        with watchdog():
            _cache[k] = analyse(pl)
    return _cache[k]


def oracle(pl):
    try:
        return _analysis(pl)[0]
    except _Timeout:
        return "no answer within %d s" % WATCHDOG_S


def nontrivial(pl, ans):
    if not isinstance(ans, list):
        return False
    plans = pl[3][1:]
    valid_nonempty = any(isinstance(a, list) and a[0] == "valid" and len(p) > 1 for a, p in zip(ans, plans))
    invalid = any(isinstance(a, list) and a[0] == "invalid" for a in ans)
    metric_nonempty = any(isinstance(a, list) and a[0] == "valid" and a[1] != "_" and len(p) > 1 for a, p in zip(ans, plans))
    return (valid_nonempty and invalid) or metric_nonempty


def stats(pl, ans):
    out = {}
    ms = upp.get(pl[1], "metrics")
    out["problem-metric:" + (temporal_of(pl) or (ms[0][0] if ms else "none"))] = 1
    plans = pl[3][1:]
    out["plans:%s" % ("<=20" if len(plans) <= 20 else "21-60" if len(plans) <= 60 else "61+")] = 1
    for a, p in zip(ans if isinstance(ans, list) else [], plans):
        n = len(p) - 1
        if isinstance(a, list) and a and a[0] == "valid":
            out["some-plan:VALID/len=%s%s" % (n if n < 3 else "3+", "" if a[1] == "_" else "/metric")] = 1
        elif isinstance(a, list) and a and a[0] == "invalid":
            out["some-plan:INVALID/%s%s" % (a[2], "/step>=2" if a[3] not in ("0", "1") else "")] = 1
        else:
            out["some-plan:" + sexp.dumps(a)[:30]] = 1
    # Boolean / integer / real action parameters
    if has_num_params(pl[1]):
        out["numparam:problem"] = 1
        acts = {a[1]: a for a in upp.get(pl[1], "actions")}
        free = set()        # actions whose cost mentions a numeric parameter and no fluent
        if ms and ms[0][0] == "min-action-costs":
            for an, e in ms[0][1]:
                names = upx.free_names(e)
                if names["p"] and any(isinstance(q[2], list) and q[2][0] in ("int", "real") for q in names["p"]):
                    out["numparam:cost-over-parameter"] = 1
                    if not names["fl"] and not names["ifun"]:
                        free.add(an)
                        out["numparam:fluent-free-cost-over-parameter"] = 1
        for a, p in zip(ans if isinstance(ans, list) else [], plans):
            if not (isinstance(a, list) and a and a[0] == "valid"):
                continue
            seen = {}
            for st in p[1:]:
                if st[0] != "do":
                    continue
                num_args = tuple(x for x, q in zip(st[2], acts[st[1]][2]) if q[1] == "bool" or q[1][0] != "user")
                if num_args:
                    out["numparam:some-VALID-plan-uses-one"] = 1
                seen.setdefault(st[1], set()).add(num_args)
            for an, vs in seen.items():
                if len(vs) > 1:
                    out["numparam:some-VALID-plan-repeats-action-with-other-arguments"] = 1
                    if an in free and a[1] != "_":
                        out["numparam:...-and-its-cost-is-a-fluent-free-function-of-them"] = 1
    try:
        for t in _analysis(pl)[1]:
            for x in t:
                if x.startswith("metric-undefined") or x in ("metric-evaluated-by-early-exit", "executable-not-goal"):
                    out["some-plan:" + x] = 1
    except Exception:
        pass
    return sorted(out)


def shrink(pl):
    ps, fns, plans, tm = pl[1], pl[2][1:], pl[3][1:], temporal_of(pl)
    # fewer plans first
    if len(plans) > 1:
        for p in plans:
            yield payload(ps, fns, [p], tm)
    for j, p in enumerate(plans):
        steps = p[1:]
        for k in range(len(steps)):
            yield payload(ps, fns, plans[:j] + [["plan"] + steps[:k] + steps[k + 1:]] + plans[j + 1:], tm)

    def rebuild(ps2):
        names = {a[1] for a in upp.get(ps2, "actions")}
        keep = [p for p in plans if all(st[0] != "do" or st[1] in names for st in p[1:])]
        if not keep:
            return None
        try:
            simlib.make_real(ps2, fns, "sampled")
        except simlib.Skip:
            return None
        return payload(ps2, fns, keep, tm)
    yield from simlib.shrink_problem(pl, rebuild)
    # drop the metric's parts
    ms = upp.get(ps, "metrics")
    if ms and ms[0][0] == "oversub" and len(ms[0][1]) > 1:
        for k in range(len(ms[0][1])):
            yield payload(_set_sec(ps, "metrics", [["oversub", ms[0][1][:k] + ms[0][1][k + 1:]]]), fns, plans, tm)


def known_cause(pl):
    """D-C03b (only consulted while that finding is listed as open): a temporal metric reaches evaluate_quality_metric"""
    return "D-C03b" if temporal_of(pl) is not None else None


MANIFEST = {
    "level_text": ("Lean 4 theorems (Props/C03.lean) about an executable model of SequentialPlanValidator._validate (Core/Validate.lean, "
                   "on top of C01's simulator model), for every problem, simplifier, interpreted-function table and plan, with no bound "
                   "on the plan length: whenever the validator returns, it answers VALID with value v exactly when the plan is "
                   "executable from the initial state under the declarative one-step semantics of C01 (Spec.successor of the instance; "
                   "Spec.applyT, which is C01's Spec.apply on every action with user-typed parameters), ends in a goal "
                   "state, and v is the value the metric defines (Spec/Plan.lean: costs summed over pre-states with the actual "
                   "parameters substituted, plan length, final-state expression, oversubscription gain; one named theorem per metric "
                   "kind); an INVALID answer names the first step without documented successor (or the goals) truthfully; the "
                   "UnboundLocalError path of the unrepaired code is an explicit outcome of the model, shown reachable for the code as "
                   "found and unreachable after the repair; a missing fluent never escapes as an exception; temporal metrics "
                   "(makespan, temporal oversubscription: inside the supported kind, raised NotImplementedError as found) are not "
                   "evaluated after the repair; the empty plan is covered. Action parameters may be objects, Booleans, bounded or unbounded "
                   "integers and reals (Props/C03Params.lean: the spelling of actual parameters is lossless; when one action occurs "
                   "twice each occurrence is charged the cost expression with its own actual parameters; a fluent-free cost is "
                   "state-independent but, kernel-checked, not argument-independent). The model is tied to /repo on every run by a differential check (status, failure reason, message class, "
                   "index of the inapplicable action, exact metric value) over all short plans and random longer ones of generated "
                   "problems, plus an oracle that recomputes validity with the real simulator and metric values with an independent "
                   "evaluator."),
    "level_note": ("Theorems speak about calls that return: ZeroDivisionError / malformed-expression exceptions escape from the real "
                   "validator (non-zero constant divisors are a domain restriction); 'never raises' is therefore proved in part "
                   "(C03_never_raises_partial: no crash, no missing-fluent exception; the full statement needs type soundness of "
                   "evaluation over reachable states). When the metric itself is not evaluable (action without cost, expression "
                   "reading an undefined fluent) the validator answers INVALID; the exact characterisation includes that condition "
                   "and the plain 'VALID iff executable and goal' is proved under the hypothesis that the metric is evaluable. "
                   "Trusted: Lean kernel; axioms propext, Classical.choice, Quot.sound; the correspondence harness; Spec/Successor.lean "
                   "and Spec/Plan.lean as the reading of the documentation. The grounder's simplifier is a parameter (C11)."),
    "technique": "Lean 4 proof (loop invariant over the plan, refinement to a declarative run relation) + model/code correspondence",
    "design_ref": "DESIGN.md §5 C03",
}
