"""C30 — KS0 conformant-to-classical compilation is sound and complete.

Payloads (grammar of the ground form: lean/UPVerif/Drv/C30.lean):

  (ground (atoms a b …) (actions (NAME (pre DNF) (effs (DNF ATOM T|F) …)) …) (goal DNF)
          (init (states (T F …) …)) | (init (contingent (known T F …) (cons (oneof LIT…) (or LIT…) (unknown a) …)))
          (bounds Lk Lc))
      DNF = (CONJ …), CONJ = (LIT …), LIT = (atom T|F)
  (lifted (objs o …) (fluents (f arity) …)
          (actions (NAME (params x …) (pre EXPR …) (effs (eff (vars y …) EXPR (f ARG …) T|F) …)) …)
          (goals EXPR …) (init (states ((f o …) …) …)) (bounds Lk Lc))
      EXPR = (lit T|F f ARG …) | (and E …) | (or E …) | (not E) | (exists y E) | (forall y E)

A ground case whose goal and effect conditions are single conjunctions over distinct atoms and whose
preconditions are either such a conjunction or a disjunction of pairwise different, non-empty ones
("normal") is answered completely by the Lean model (possible initial states, basis, relevance relation,
compiled problem, plan sets) and diffed against the real compiler.  All other cases go through the other
normalising compilers in ways the model does not follow (disjunctive goals / effect conditions, unclean
conjunctions, quantifiers, lifting); for them the model answers `oracle-only` and only the property's oracle
(end-to-end, on the real code) judges them.
"""
import itertools
import warnings

warnings.simplefilter("ignore")
import unified_planning as up
from unified_planning.engines import CompilationKind
from unified_planning.engines.compilers.ks0_compiler import Ks0Compiler
from unified_planning.engines.sequential_simulator import UPSequentialSimulator
from unified_planning.environment import get_environment
from unified_planning.exceptions import UPUsageError
from unified_planning.model import Fluent, InstantaneousAction, Object, Problem, UPState, Variable
from unified_planning.model.contingent import ContingentProblem
from unified_planning.model.fluent import get_all_fluent_exp
from unified_planning.plans import ActionInstance, SequentialPlan

ID = "C30"
GEN = []
CORR_NAME = "ks0-states+basis+relevance+compiled-problem+plan-sets"
RULE = ("small Boolean conformant problems: (A) ground normal-form problems (2-4 atoms, 1-3 actions with 0-2 precondition literals "
        "and 1-3 conditional effects on distinct atoms, 0-2 goal literals) with 1-4 random possible initial states (duplicates and "
        "states differing from the first on one atom planted, empty state list sometimes) or a contingent description (1-3 oneof / or / "
        "unknown constraints, sometimes overlapping, with negative or repeated literals, or unsatisfiable); (A') the same with "
        "preconditions that are proper disjunctions of conjunctions; (B) the same with disjunctions also in effect conditions and "
        "goals and with unclean conjunctions (repeated / complementary literals); (C) lifted problems over two objects with "
        "existential / universal conditions, negated compound conditions and forall effects. A and A' are compared structurally with "
        "the model, all are judged by the oracle. Non-trivial = the compilation succeeds with >= 2 possible initial states and either "
        "some compiled plan within the bound is valid or some conformant plan of the original exists within the bound.")
ASSUMPTIONS = [
    "at most one effect per ground fluent per action (the property's quantifier); in lifted cases the effects of one action are on distinct fluent symbols",
    "conditions contain no Boolean constants (keeps clear of the Dnf/Simplifier defects of C11/C12 in the normalisers)",
    "a conformant plan is a sequence of ground instances of the ORIGINAL problem's actions; semantics = sequential semantics with add-after-delete",
    "completeness is judged for every conformant plan of length <= Lc found by exhaustive belief-space search: the compiled problem must have a valid "
    "plan that maps back to it (searched with all merges applied eagerly, then by exhaustive search of the compiled state space, capped at "
    "4000 states: a capped search counts as inconclusive, never as a failure)",
    "a refusal (UPUsageError) of a problem is a completeness failure iff a conformant plan exists within the bound; an empty set of possible "
    "initial states may be refused (documented precondition of the compiler)",
    "'dropping dominated states never changes either answer' is judged by recompiling with the reduction switched off and requiring soundness "
    "and completeness of both compilations (w.r.t. ALL possible initial states)",
    "structural correspondence is demanded only where the preceding normalisers act as the identity or as the plain split of a disjunctive "
    "precondition; they are other compilers (C06/C07) and are otherwise covered by the oracle only",
    "problems are built in the global Environment (DisjunctiveConditionsRemover creates its fake-goal fluent there and fails on any other one)",
]
MODELLED = ["modelled by hand (tied by correspondence): Ks0Compiler._compile_normalized_problem, _reduce_possible_initial_states_to_basis, "
            "_get_relevance_relation, _deduplicate_possible_initial_states, _enumerate_hidden_assignments/_assign_oneof_choice, plan back conversion "
            "of merge actions, merge-target collection of _prepare_normalized_problem, DisjunctiveConditionsRemover's split of a disjunctive "
            "precondition into variants (abstractly: normD)",
            "relevance fixpoint: computed with fuel (2n)^2+1 and re-checked for closure by the model (fallback: total relation); the driver reports "
            "the check ('fuel-ok'), the correspondence requires it to be T on every case",
            "modelled not verified: QuantifiersRemover, Grounder, DisjunctiveConditionsRemover on goals / effect conditions / unclean conjunctions "
            "(covered by the end-to-end oracle only), UPSequentialSimulator on the compiled problem (C01), Python set/dict/frozenset semantics"]
BUDGET_S = {"quick": 40, "thorough": 420}
KIND = CompilationKind.CONFORMANT_TO_CLASSICAL
BFS_CAP = 4000


def B(b):
    return "T" if b else "F"


# ------------------------------------------------------------------------------------------------
# payload access
# ------------------------------------------------------------------------------------------------

def sec(payload, key):
    for s in payload[1:]:
        if isinstance(s, list) and s and s[0] == key:
            return s[1:]
    raise KeyError(key)


def is_clean(conj):
    atoms = [l[0] for l in conj]
    return len(set(atoms)) == len(atoms)


def clean_conj(d):
    return len(d) == 1 and is_clean(d[0])


def clean_pre(d):
    """one clean conjunction, or >= 2 pairwise different non-empty clean conjunctions (mirrors Drv/C30.lean cleanPre)"""
    if clean_conj(d):
        return True
    if len(d) < 2 or not all(c and is_clean(c) for c in d):
        return False
    sets = [frozenset(tuple(l) for l in c) for c in d]
    return len(set(sets)) == len(sets)


def is_normal(payload):
    """answered structurally by the model: goal / effect conditions in the compiler's normal form, preconditions possibly
    proper disjunctions of clean conjunctions (split into variants by the preceding compiler; modelled by `normD`)"""
    if payload[0] != "ground":
        return False
    if not clean_conj(sec(payload, "goal")[0]):
        return False
    for a in sec(payload, "actions"):
        if not clean_pre(a[1][1]):
            return False
        if not all(clean_conj(e[0]) for e in a[2][1:]):
            return False
    return True


def has_disjunctive_pre_or_goal(payload):
    """cause predicate of finding D-C30-disjunctive: some precondition or the goal is a proper disjunction
    (ground form), resp. contains `or` / `exists` (lifted form)"""
    if payload[0] == "ground":
        if len(sec(payload, "goal")[0]) >= 2:
            return True
        return any(len(a[1][1]) >= 2 for a in sec(payload, "actions"))

    def disj(e, positive=True):
        k = e[0]
        if k == "lit":
            return False
        if k == "not":
            return disj(e[1], not positive)
        if k in ("and", "or"):
            if (k == "or") == positive and len(e) > 2:
                return True
            return any(disj(x, positive) for x in e[1:])
        if k in ("exists", "forall"):
            if (k == "exists") == positive:
                return True
            return disj(e[2], positive)
        return False
    for a in sec(payload, "actions"):
        if any(disj(e) for e in a[2][1:]):
            return True
    return any(disj(e) for e in sec(payload, "goals"))


# ------------------------------------------------------------------------------------------------
# building the real problem
# ------------------------------------------------------------------------------------------------

class Built:
    pass


def build_ground(payload):
    env = get_environment()     # the global one: DisjunctiveConditionsRemover builds its fake-goal fluent there
    env.credits_stream = None
    em = env.expression_manager
    atoms = sec(payload, "atoms")
    init = sec(payload, "init")[0]
    contingent = init[0] == "contingent"
    P = (ContingentProblem if contingent else Problem)("p", env)
    fl = {}
    for a in atoms:
        fl[a] = Fluent(a, env.type_manager.BoolType(), environment=env)
        P.add_fluent(fl[a], default_initial_value=False)

    def lit(l):
        f = em.FluentExp(fl[l[0]])
        return f if l[1] == "T" else em.Not(f)

    def conj(c):
        return em.And([lit(l) for l in c])        # And([]) = TRUE, And([x]) = x

    def dnf(d):
        return em.Or([conj(c) for c in d])        # Or([x]) = x

    acts = {}
    for a in sec(payload, "actions"):
        name, pre, effs = a[0], a[1][1], a[2][1:]
        act = InstantaneousAction(name, _env=env)
        if len(pre) == 1:
            for l in pre[0]:
                act.add_precondition(lit(l))
        else:
            act.add_precondition(dnf(pre))
        for e in effs:
            act.add_effect(em.FluentExp(fl[e[1]]), e[2] == "T", dnf(e[0]))
        P.add_action(act)
        acts[name] = act
    g = sec(payload, "goal")[0]
    if len(g) == 1:
        for l in g[0]:
            P.add_goal(lit(l))
    else:
        P.add_goal(dnf(g))
    b = Built()
    b.env, b.problem, b.atoms, b.fl, b.acts = env, P, atoms, fl, acts
    b.atom_exp = {a: em.FluentExp(fl[a]) for a in atoms}
    b.ground_actions = [(name, ()) for name in acts]
    tv = lambda x: em.TRUE() if x else em.FALSE()
    if contingent:
        known = [x == "T" for x in init[1][1:]]
        hidden = set()
        for c in init[2][1:]:
            if c[0] == "unknown":
                hidden.add(c[1])
            else:
                hidden |= set(l[0] for l in c[1:])
        for a, v in zip(atoms, known):
            if a not in hidden:
                P.set_initial_value(b.atom_exp[a], v)
        for c in init[2][1:]:
            if c[0] == "oneof":
                P.add_oneof_initial_constraint([lit(l) for l in c[1:]])
            elif c[0] == "or":
                P.add_or_initial_constraint([lit(l) for l in c[1:]])
            else:
                P.add_unknown_initial_constraint(b.atom_exp[c[1]])
        b.states = None
    else:
        b.states = tuple(UPState({b.atom_exp[a]: tv(x == "T") for a, x in zip(atoms, v)}, P) for v in init[1:])
    return b


def build_lifted(payload):
    env = get_environment()     # the global one: DisjunctiveConditionsRemover builds its fake-goal fluent there
    env.credits_stream = None
    em = env.expression_manager
    tm = env.type_manager
    T = tm.UserType("T")
    P = Problem("p", env)
    objs = {o: Object(o, T, env) for o in sec(payload, "objs")}
    P.add_objects(list(objs.values()))
    fl = {}
    for name, ar in sec(payload, "fluents"):
        sig = {f"a{i}": T for i in range(int(ar))}
        fl[name] = Fluent(name, tm.BoolType(), environment=env, **sig)
        P.add_fluent(fl[name], default_initial_value=False)

    def mk(e, scope):
        k = e[0]
        if k == "lit":
            f = fl[e[2]](*[scope[a] if a in scope else em.ObjectExp(objs[a]) for a in e[3:]])
            return f if e[1] == "T" else em.Not(f)
        if k == "and":
            return em.And([mk(x, scope) for x in e[1:]])
        if k == "or":
            return em.Or([mk(x, scope) for x in e[1:]])
        if k == "not":
            return em.Not(mk(e[1], scope))
        if k in ("exists", "forall"):
            v = Variable(e[1], T, env)
            body = mk(e[2], dict(scope, **{e[1]: em.VariableExp(v)}))
            return em.Exists(body, v) if k == "exists" else em.Forall(body, v)
        raise ValueError(e)

    acts = {}
    b = Built()
    b.ground_actions = []
    for a in sec(payload, "actions"):
        name, params, pre, effs = a[0], a[1][1:], a[2][1:], a[3][1:]
        act = InstantaneousAction(name, _env=env, **{p: T for p in params})
        scope = {p: em.ParameterExp(act.parameter(p)) for p in params}
        for c in pre:
            act.add_precondition(mk(c, scope))
        for e in effs:
            vs = [Variable(v, T, env) for v in e[1][1:]]
            sc = dict(scope, **{v.name: em.VariableExp(v) for v in vs})
            target = fl[e[3][0]](*[sc[x] if x in sc else em.ObjectExp(objs[x]) for x in e[3][1:]])
            act.add_effect(target, e[4] == "T", mk(e[2], sc), forall=tuple(vs))
        P.add_action(act)
        acts[name] = act
        for combo in itertools.product(list(objs), repeat=len(params)):
            b.ground_actions.append((name, combo))
    for g in sec(payload, "goals"):
        P.add_goal(mk(g, {}))
    b.env, b.problem, b.fl, b.acts, b.objs = env, P, fl, acts, objs
    ground = []
    for name, ar in sec(payload, "fluents"):
        for combo in itertools.product(list(objs), repeat=int(ar)):
            ground.append((name,) + combo)
    b.atoms = ground
    b.atom_exp = {g: fl[g[0]](*[em.ObjectExp(objs[o]) for o in g[1:]]) for g in ground}
    tv = lambda x: em.TRUE() if x else em.FALSE()
    sts = []
    for s in sec(payload, "init")[0][1:]:
        true = set(tuple(x) for x in s)
        sts.append(UPState({b.atom_exp[g]: tv(g in true) for g in ground}, P))
    b.states = tuple(sts)
    return b


def build(payload):
    return build_ground(payload) if payload[0] == "ground" else build_lifted(payload)


# ------------------------------------------------------------------------------------------------
# running the real compiler; canonical form of what it returns
# ------------------------------------------------------------------------------------------------

def parse_kname(name):
    """K_{not_}?<fluent>_<tag> -> (fluent, positive?, tag)   (atom names have no '_' and do not start with 'not')"""
    assert name.startswith("K_"), name
    body, tag = name[2:].rsplit("_", 1)
    pos = True
    if body.startswith("not_"):
        pos, body = False, body[4:]
    return [body, B(pos), "e" if tag == "empty" else tag[1:]]


def klit(e):
    if e.is_not():
        return [parse_kname(e.arg(0).fluent().name), "F"]
    return [parse_kname(e.fluent().name), "T"]


def cond_lits(c):
    if c.is_true():
        return []
    if c.is_and():
        return [klit(x) for x in c.args]
    return [klit(c)]


class Run:
    """one compilation of one case by the real compiler (with or without the basis reduction)"""

    def __init__(self, b, reduce=True):
        self.b = b
        self.error = None
        orig = Ks0Compiler.__dict__["_reduce_possible_initial_states_to_basis"]
        try:
            if not reduce:
                Ks0Compiler._reduce_possible_initial_states_to_basis = classmethod(lambda cls, p, pp, s: s)
            comp = Ks0Compiler(possible_initial_states=b.states)
            self.res = comp.compile(b.problem, KIND)
        except UPUsageError as e:
            msg = str(e)
            self.message = msg[:160]
            if "non-empty" in msg or "found no initial state" in msg:
                self.error = "no-initial-state"
            else:
                self.error = "usage"
            return
        finally:
            Ks0Compiler._reduce_possible_initial_states_to_basis = orig
        self.cp = self.res.problem
        self.sim = UPSequentialSimulator(self.cp, error_on_failed_checks=False)
        self.kexps = [e for f in self.cp.fluents for e in get_all_fluent_exp(self.cp, f)]
        self.back = {}
        for a in self.cp.actions:
            bp = self.res.plan_back_conversion(SequentialPlan([ActionInstance(a, ())], b.env))
            if len(bp.actions) == 0:
                self.back[a.name] = None
            else:
                ai = bp.actions[0]
                self.back[a.name] = (ai.action.name, tuple(str(p) for p in ai.actual_parameters))

    def step_name(self, a):
        """canonical name of a compiled action: the original ground action, or the merged literal"""
        o = self.back[a.name]
        if o is not None:
            return o[0] if not o[1] else [o[0]] + list(o[1])
        if a.name.startswith("merge_") and len(a.effects) == 1:
            k = parse_kname(a.effects[0].fluent.fluent().name)
            return ["m", k[0], k[1]]
        return ["aux", a.name]

    def valid_plans(self, bound):
        """all executable action sequences of the compiled problem up to `bound` (real simulator);
        returns (number of executable sequences, list of valid ones as lists of compiled actions)"""
        out, count = [], 0
        acts = list(self.cp.actions)

        def dfs(state, pre, depth):
            nonlocal count
            count += 1
            if self.sim.is_goal(state):
                out.append(list(pre))
            if depth == 0:
                return
            for a in acts:
                nxt = self.sim.apply(state, a, ())
                if nxt is not None:
                    pre.append(a)
                    dfs(nxt, pre, depth - 1)
                    pre.pop()
        dfs(self.sim.get_initial_state(), [], bound)
        return count, out

    def map_back(self, plan_actions):
        bp = self.res.plan_back_conversion(SequentialPlan([ActionInstance(a, ()) for a in plan_actions], self.b.env))
        return [(ai.action.name, tuple(str(p) for p in ai.actual_parameters)) for ai in bp.actions]

    def state_key(self, state):
        return tuple(state.get_value(e).bool_constant_value() for e in self.kexps)

    def has_counterpart(self, plan):
        """is there a valid compiled plan that maps back to `plan` (list of (name, params))?
        First with every applicable auxiliary (merge / fake-goal) action applied eagerly; if that fails, by exhaustive
        search over the compiled states reachable while following `plan`.  Returns True / False / None (cap hit)."""
        aux = [a for a in self.cp.actions if self.back[a.name] is None]
        by_orig = {}
        for a in self.cp.actions:
            if self.back[a.name] is not None:
                by_orig.setdefault(self.back[a.name], []).append(a)

        def saturate(state):
            changed = True
            while changed:
                changed = False
                for a in aux:
                    nxt = self.sim.apply(state, a, ())
                    if nxt is not None and self.state_key(nxt) != self.state_key(state):
                        state, changed = nxt, True
            return state

        def greedy(state, i):
            state = saturate(state)
            if i == len(plan):
                return self.sim.is_goal(state)
            for a in by_orig.get(plan[i], []):
                nxt = self.sim.apply(state, a, ())
                if nxt is not None and greedy(nxt, i + 1):
                    return True
            return False
        if greedy(self.sim.get_initial_state(), 0):
            return True
        # exhaustive: nodes (compiled state, position in plan)
        init = self.sim.get_initial_state()
        seen = {(self.state_key(init), 0)}
        todo = [(init, 0)]
        while todo:
            state, i = todo.pop()
            if i == len(plan) and self.sim.is_goal(state):
                return True
            succ = [(a, i) for a in aux]
            if i < len(plan):
                succ += [(a, i + 1) for a in by_orig.get(plan[i], [])]
            for a, j in succ:
                nxt = self.sim.apply(state, a, ())
                if nxt is None:
                    continue
                k = (self.state_key(nxt), j)
                if k not in seen:
                    if len(seen) >= BFS_CAP:
                        return None
                    seen.add(k)
                    todo.append((nxt, j))
        return False


# ------------------------------------------------------------------------------------------------
# reference belief-space semantics of the ORIGINAL problem (independent of the compiler)
# ------------------------------------------------------------------------------------------------

class Belief:
    """possible initial states + exhaustive belief-space search of the original problem.
    Ground cases: own Boolean semantics read off the payload (conditions in the pre-state, add wins over delete);
    every plan it accepts/rejects on behalf of the oracle is re-judged with the real simulator (`judge`)."""

    def __init__(self, payload, b, states_vecs):
        self.payload, self.b = payload, b
        self.ground = payload[0] == "ground"
        self.init = states_vecs        # list of dict atom -> bool
        if self.ground:
            self.acts = {}
            for a in sec(payload, "actions"):
                self.acts[(a[0], ())] = (a[1][1], [(e[0], e[1], e[2] == "T") for e in a[2][1:]])
            self.goal = sec(payload, "goal")[0]
        else:
            self.sim = UPSequentialSimulator(b.problem, error_on_failed_checks=False)

    # --- own semantics (ground) ---
    @staticmethod
    def _dnf(d, s):
        return any(all(s[l[0]] == (l[1] == "T") for l in c) for c in d)

    def _apply(self, s, act):
        pre, effs = self.acts[act]
        if not self._dnf(pre, s):
            return None
        adds = set(x for c, x, v in effs if v and self._dnf(c, s))
        dels = set(x for c, x, v in effs if not v and self._dnf(c, s))
        return {x: (True if x in adds else False if x in dels else s[x]) for x in s}

    # --- real simulator (lifted) ---
    def _up_state(self, s):
        em = self.b.env.expression_manager
        return UPState({self.b.atom_exp[a]: (em.TRUE() if v else em.FALSE()) for a, v in s.items()}, self.b.problem)

    def _apply_up(self, st, act):
        a = self.b.acts[act[0]]
        params = tuple(self.b.objs[o] for o in act[1]) if act[1] else ()
        return self.sim.apply(st, a, params)

    def conformant_plans(self, bound):
        """all plans (lists of (name, params)) of length <= bound that are executable from every possible initial
        state and reach the goals from each; also the number of commonly executable sequences"""
        out, count = [], 0
        actions = self.b.ground_actions
        if self.ground:
            start = [dict(s) for s in self.init]
            app = self._apply
            goal = lambda s: self._dnf(self.goal, s)
        else:
            start = [self._up_state(s) for s in self.init]
            app = self._apply_up
            goal = self.sim.is_goal

        def dfs(belief, pre, depth):
            nonlocal count
            count += 1
            if all(goal(s) for s in belief):
                out.append(list(pre))
            if depth == 0:
                return
            for act in actions:
                nxt = []
                for s in belief:
                    n = app(s, act)
                    if n is None:
                        nxt = None
                        break
                    nxt.append(n)
                if nxt is not None:
                    pre.append(act)
                    dfs(nxt, pre, depth - 1)
                    pre.pop()
        dfs(start, [], bound)
        return count, out

    def judge(self, plan):
        """is `plan` (list of (name, params-as-strings)) conformant?  Real simulator on the original problem from every
        possible initial state; None if conformant, else a description"""
        sim = getattr(self, "sim", None) or UPSequentialSimulator(self.b.problem, error_on_failed_checks=False)
        self.sim = sim
        for idx, s in enumerate(self.init):
            st = self._up_state(s)
            for k, (name, params) in enumerate(plan):
                a = self.b.problem.action(name)
                ps = tuple(self.b.problem.object(o) for o in params)
                st = sim.apply(st, a, ps)
                if st is None:
                    return f"step {k} ({name}) not applicable from possible initial state {idx}"
            if not sim.is_goal(st):
                return f"goals not reached from possible initial state {idx}"
        return None


def possible_states(payload, b):
    """the possible initial states the property quantifies over, as dicts atom -> bool.
    Explicit: as given.  Contingent: every assignment to the hidden atoms satisfying all constraints (brute force
    over the constraint text: oneof = exactly one literal holds, or = at least one, unknown = unconstrained)."""
    if payload[0] == "lifted":
        out = []
        for s in sec(payload, "init")[0][1:]:
            true = set(tuple(x) for x in s)
            out.append({g: (g in true) for g in b.atoms})
        return out
    init = sec(payload, "init")[0]
    atoms = b.atoms
    if init[0] == "states":
        return [{a: x == "T" for a, x in zip(atoms, v)} for v in init[1:]]
    known = {a: x == "T" for a, x in zip(atoms, init[1][1:])}
    cons = init[2][1:]
    hidden = []
    for a in atoms:
        if any((c[0] == "unknown" and c[1] == a) or (c[0] != "unknown" and any(l[0] == a for l in c[1:])) for c in cons):
            hidden.append(a)
    out = []
    for vals in itertools.product((False, True), repeat=len(hidden)):
        s = dict(known)
        s.update(zip(hidden, vals))
        ok = True
        for c in cons:
            if c[0] == "unknown":
                continue
            n = sum(1 for l in c[1:] if s[l[0]] == (l[1] == "T"))
            if (c[0] == "oneof" and n != 1) or (c[0] == "or" and n < 1):
                ok = False
                break
        if ok:
            out.append(s)
    return out


# ------------------------------------------------------------------------------------------------
# per-case analysis (shared by impl / oracle / stats; one-entry cache)
# ------------------------------------------------------------------------------------------------

_cache = {}


def analyse(payload):
    import sexp
    key = sexp.dumps(payload)
    if key in _cache:
        return _cache[key]
    _cache.clear()
    A = Built()
    A.b = build(payload)
    A.lk, A.lc = (int(x) for x in sec(payload, "bounds"))
    A.run = Run(A.b, reduce=True)
    A.states = possible_states(payload, A.b)
    A.belief = Belief(payload, A.b, A.states)
    _cache[key] = A
    return A


def vec(atoms, s):
    return [B(s[a]) for a in atoms]


def impl(payload):
    A = analyse(payload)
    if not is_normal(payload):
        return "oracle-only"
    r, b = A.run, A.b
    if r.error:
        return ["error", r.error]
    # possible initial states as the compiler enumerates them
    if b.states is None:
        _, sts = Ks0Compiler._conformant_problem_from_contingent(b.problem)
    else:
        sts = b.states
    states = [[B(s.get_value(b.atom_exp[a]).bool_constant_value()) for a in b.atoms] for s in sts]
    cp = r.cp
    # tag states (basis) read off the compiled initial state
    init_true = []
    for f in cp.fluents:
        v = cp.initial_value(f())
        if v.bool_constant_value():
            init_true.append(parse_kname(f.name))
    ntags = len(set(k[2] for k in (parse_kname(f.name) for f in cp.fluents))) - 1
    basis = []
    for i in range(ntags):
        basis.append([B([a, "T", str(i)] in init_true) for a in b.atoms])
    # relevance relation (internal, named in the property's anchors)
    comp = Ks0Compiler(possible_initial_states=b.states)
    prob = b.problem
    if isinstance(prob, ContingentProblem):
        prob, _ = Ks0Compiler._conformant_problem_from_contingent(prob)
    norm, _ = comp._normalize_problem(prob)
    prep = comp._prepare_normalized_problem(norm)
    rel = comp._get_relevance_relation(prep, b.env.expression_manager)

    def plit(e):
        return [e.arg(0).fluent().name, "F"] if e.is_not() else [e.fluent().name, "T"]
    relm = {tuple(plit(k)): sorted(tuple(plit(t)) for t in ts) for k, ts in rel.items()}
    U = [x for a in b.atoms for x in ((a, "T"), (a, "F"))]
    rel_out = [[list(l), [list(t) for t in U if t in relm.get(l, [])]] for l in U]
    acts = []
    for a in cp.actions:
        effs = [[cond_lits(e.condition), parse_kname(e.fluent.fluent().name), B(e.value.bool_constant_value())] for e in a.effects]
        acts.append([r.step_name(a), ["pre"] + [klit(p) for p in a.preconditions], ["effs"] + effs])
    nk, kv = r.valid_plans(A.lk)
    nc, cv = A.belief.conformant_plans(A.lc)
    return [["states"] + states, ["basis"] + basis, ["rel"] + rel_out, ["fuel-ok", "T"],
            ["init"] + init_true, ["actions"] + acts, ["goals"] + [klit(g) for g in cp.goals],
            ["kplans", str(nk)] + [[r.step_name(a) for a in p] for p in kv],
            ["cplans", str(nc)] + [[n for n, _ in p] for p in cv]]


def _canon(ans):
    """order-insensitive parts are sorted before comparing (sets on the Python side)"""
    import sexp
    if not isinstance(ans, list) or not ans or not isinstance(ans[0], list):
        return ans
    out = []
    for s in ans:
        if s[0] in ("init", "goals"):
            out.append([s[0]] + sorted(s[1:], key=sexp.dumps))
        elif s[0] in ("kplans", "cplans"):
            out.append([s[0], s[1]] + sorted(s[2:], key=sexp.dumps))
        else:
            out.append(s)
    return out


def compare(model_ans, impl_ans):
    return _canon(model_ans) == _canon(impl_ans)


def nontrivial(payload, ans):
    A = analyse(payload)
    if A.run.error or len(A.states) < 2:
        return False
    if isinstance(ans, list):
        d = {s[0]: s[1:] for s in ans}
        return len(d["kplans"]) > 1 or len(d["cplans"]) > 1
    info = oracle_info(payload)
    return info.get("valid", 0) > 0 or info.get("conformant", 0) > 0


_info = {}


def oracle_info(payload):
    import sexp
    k = sexp.dumps(payload)
    if k not in _info:
        oracle(payload)
    return _info.get(k, {})


def stats(payload, ans):
    A = analyse(payload)
    t = [payload[0] + ("-normal" if is_normal(payload) else "-rich")]
    if is_normal(payload) and has_disjunctive_pre_or_goal(payload):
        t.append("modelled-with-disjunctive-precondition")
    if payload[0] == "ground" and sec(payload, "init")[0][0] == "contingent":
        t.append("contingent")
    if A.run.error:
        return t + ["error:" + A.run.error]
    t.append(f"states={min(len(A.states), 5)}")
    ntags = len(set(f.name.rsplit('_', 1)[1] for f in A.run.cp.fluents)) - 1
    if ntags < len(set(tuple(sorted(s.items())) for s in A.states)):
        t.append("basis-dropped-a-state")
    info = oracle_info(payload)
    if info.get("valid", 0) > 0:
        t.append("some-valid-compiled-plan")
    if info.get("conformant", 0) > 0:
        t.append("some-conformant-plan")
    if info.get("inconclusive"):
        t.append("completeness-search-capped")
    if has_disjunctive_pre_or_goal(payload):
        t.append("disjunctive-pre-or-goal")
    return t


# ------------------------------------------------------------------------------------------------
# the property itself, on the real code
# ------------------------------------------------------------------------------------------------

def oracle(payload):
    import sexp
    key = sexp.dumps(payload)
    A = analyse(payload)
    info = _info.setdefault(key, {})
    if len(_info) > 50:
        for k in list(_info)[:-10]:
            del _info[k]
    r = A.run
    if r.error:
        # a refusal is no compiled problem: soundness is vacuous; completeness fails iff a conformant plan exists.
        # (No possible initial state at all: the documented precondition of the compiler, nothing to demand.)
        if r.error == "no-initial-state" and len(A.states) == 0:
            return None
        if len(A.states) == 0:
            return f"compiler refused ({r.error}) although there is no possible initial state to complain about"
        _, conformant = A.belief.conformant_plans(A.lc)
        info["conformant"] = len(conformant)
        if conformant:
            return (f"complete: compiler refused the problem ({r.error}: {r.message}) although the conformant plan "
                    f"{[n for n, _ in conformant[0]]} exists")
        return None
    if len(A.states) == 0:
        return "compiled although the constraints admit no initial state"
    runs = [("reduced", r), ("unreduced", Run(A.b, reduce=False))]
    if runs[1][1].error:
        return f"compilation without the basis reduction fails: {runs[1][1].error}"
    nc, conformant = A.belief.conformant_plans(A.lc)
    info["conformant"] = len(conformant)
    # the reference search and the real simulator must agree on what is conformant (sanity of the judge)
    for p in conformant:
        why = A.belief.judge([(n, ps) for n, ps in p])
        if why:
            return f"oracle-internal: reference search accepts {p} but the real simulator says: {why}"
    counterpart = {}
    for label, run in runs:
        # soundness: every valid compiled plan maps back to a conformant plan
        nk, valid = run.valid_plans(A.lk)
        if label == "reduced":
            info["valid"] = len(valid)
        seen = set()
        for p in valid:
            back = run.map_back(p)
            kb = tuple(back)
            if kb in seen:
                continue
            seen.add(kb)
            why = A.belief.judge(back)
            if why:
                return (f"sound[{label}]: valid compiled plan {[a.name for a in p]} maps back to "
                        f"{[n for n, _ in back]} which is not conformant: {why}")
        # completeness: every conformant plan has a compiled counterpart
        cps = []
        for p in conformant:
            h = run.has_counterpart([(n, tuple(ps)) for n, ps in p])
            if h is None:
                info["inconclusive"] = True
            cps.append(h)
        counterpart[label] = cps
    for p, h in zip(conformant, counterpart["reduced"]):
        if h is False:
            return f"complete: conformant plan {[n for n, _ in p]} exists but the compiled problem has no valid plan mapping back to it"
    for p, h in zip(conformant, counterpart["unreduced"]):
        if h is False:
            return f"complete[unreduced]: conformant plan {[n for n, _ in p]} has no compiled counterpart without the basis reduction"
    return None


def known_cause(payload):
    if not has_disjunctive_pre_or_goal(payload):
        return None
    v = oracle(payload)
    if v and v.startswith("complete"):
        return "D-C30-disjunctive"
    return None


# ------------------------------------------------------------------------------------------------
# generators
# ------------------------------------------------------------------------------------------------

ATOMS = ["p", "q", "r", "t", "u"]
ACT_NAMES = ["a", "b", "c", "merge_p", "K_p_empty", "act_0"]


def g_conj(rng, atoms, kmax, clean=True):
    k = rng.choice(range(kmax + 1))
    if clean:
        xs = rng.sample(atoms, min(k, len(atoms)))
    else:
        xs = [rng.choice(atoms) for _ in range(k)]
    return [[x, rng.choice("TF")] for x in xs]


def g_dnf(rng, atoms, kmax, rich):
    if rich and rng.random() < 0.45:
        n = rng.choice([2, 2, 3])
        return [g_conj(rng, atoms, max(1, kmax), clean=rng.random() < 0.85) or [[rng.choice(atoms), rng.choice("TF")]]
                for _ in range(n)]
    return [g_conj(rng, atoms, kmax, clean=not (rich and rng.random() < 0.15))]


def g_states(rng, atoms, goal_atoms):
    r = rng.random()
    n = rng.choice([1, 2, 2, 3, 3, 4])
    if r < 0.08:
        return []
    sts = [[rng.choice("TF") for _ in atoms] for _ in range(n)]
    if r < 0.35 and n >= 2:
        # states that differ from the first one on a single atom (dominated / duplicate candidates)
        for i in range(1, n):
            sts[i] = list(sts[0])
            if rng.random() < 0.8:
                j = rng.randrange(len(atoms))
                sts[i][j] = "T" if sts[i][j] == "F" else "F"
    if rng.random() < 0.7:
        for s in sts:                      # goals rarely true at the start
            for j, a in enumerate(atoms):
                if a in goal_atoms and rng.random() < 0.8:
                    s[j] = "F"
    return sts


def g_contingent(rng, atoms):
    known = [rng.choice("TF") for _ in atoms]
    cons = []
    for _ in range(rng.choice([1, 1, 2, 3])):
        k = rng.random()
        if k < 0.4:
            xs = rng.sample(atoms, min(len(atoms), rng.choice([1, 2, 2, 3])))
            g = [[x, "T" if rng.random() < 0.8 else "F"] for x in xs]
            if rng.random() < 0.08:
                g.append(list(rng.choice(g)))          # repeated literal: never "exactly one"
            cons.append(["oneof"] + g)
        elif k < 0.7:
            xs = [rng.choice(atoms) for _ in range(rng.choice([1, 2, 2, 3]))]
            cons.append(["or"] + [[x, "T" if rng.random() < 0.7 else "F"] for x in xs])
        else:
            cons.append(["unknown", rng.choice(atoms)])
    return ["contingent", ["known"] + known, ["cons"] + cons]


def g_ground(rng, tier, rich, contingent):
    atoms = ATOMS[:rng.choice([2, 3, 3, 4])]
    if rng.random() < 0.3:
        atoms = rng.sample(ATOMS, len(atoms))
    names = rng.sample(ACT_NAMES[:3], rng.choice([1, 2, 2, 3]))
    if rng.random() < 0.1:
        names[0] = rng.choice(ACT_NAMES[3:])
    goal = g_dnf(rng, atoms, 2, rich == "all")
    if rng.random() < 0.85 and not any(goal):
        goal = [[[rng.choice(atoms), "T"]]]
    goal_atoms = set(l[0] for c in goal for l in c)
    acts = []
    for n in names:
        pre = g_dnf(rng, atoms, rng.choice([0, 1, 1, 2]), rich == "all")
        if rich == "pre" and rng.random() < 0.6:
            # proper disjunction of pairwise different non-empty clean conjunctions
            cands = []
            for _ in range(rng.choice([2, 2, 3])):
                c = g_conj(rng, atoms, 2) or [[rng.choice(atoms), rng.choice("TF")]]
                if not any(set(map(tuple, c)) == set(map(tuple, d)) for d in cands):
                    cands.append(c)
            pre = cands
        targets = rng.sample(atoms, min(len(atoms), rng.choice([1, 1, 2, 3])))
        if goal_atoms and rng.random() < 0.5:
            ga = rng.choice(sorted(goal_atoms))
            if ga not in targets:
                targets[0] = ga
        effs = []
        for x in targets:
            others = [a for a in atoms if a != x] or atoms
            cond = g_dnf(rng, others if rng.random() < 0.8 else atoms, rng.choice([0, 1, 1, 2]), rich == "all")
            v = "T" if (x in goal_atoms and rng.random() < 0.7) else rng.choice("TF")
            effs.append([cond, x, v])
        acts.append([n, ["pre", pre], ["effs"] + effs])
    init = g_contingent(rng, atoms) if contingent else ["states"] + g_states(rng, atoms, goal_atoms)
    lk, lc = (3, 2) if tier == "quick" else (4, 3)
    return ["ground", ["atoms"] + atoms, ["actions"] + acts, ["goal", goal], ["init", init], ["bounds", str(lk), str(lc)]]


L_OBJS = ["o1", "o2"]
L_FLUENTS = [["p", "1"], ["q", "1"], ["r", "0"], ["g", "0"]]


def g_lexpr(rng, scope, depth):
    """Boolean expression over the lifted vocabulary; `scope` = usable parameter / variable names"""
    def arg():
        return rng.choice(scope) if scope and rng.random() < 0.7 else rng.choice(L_OBJS)

    def lit():
        f = rng.choice(L_FLUENTS)
        return ["lit", "T" if rng.random() < 0.65 else "F", f[0]] + [arg() for _ in range(int(f[1]))]
    k = rng.random()
    if depth == 0 or k < 0.35:
        return lit()
    if k < 0.5:
        return ["and", g_lexpr(rng, scope, depth - 1), g_lexpr(rng, scope, depth - 1)]
    if k < 0.65:
        return ["or", g_lexpr(rng, scope, depth - 1), g_lexpr(rng, scope, depth - 1)]
    if k < 0.72:
        return ["not", g_lexpr(rng, scope, depth - 1)]
    v = "y" if "y" not in scope else "z"
    if v in scope:
        return lit()
    return [rng.choice(["exists", "forall"]), v, g_lexpr(rng, scope + [v], depth - 1)]


def g_lifted(rng, tier):
    acts = []
    for n in rng.sample(["a", "b", "c"], rng.choice([1, 2, 2])):
        params = ["x"] if rng.random() < 0.6 else []
        pre = [g_lexpr(rng, params, rng.choice([0, 1, 1, 2])) for _ in range(rng.choice([0, 1, 1, 2]))]
        effs = []
        for f in rng.sample(L_FLUENTS, rng.choice([1, 1, 2])):
            vs, args = [], []
            if f[1] == "1":
                k = rng.random()
                if k < 0.4:
                    vs, args = ["w"], ["w"]
                elif k < 0.75 and params:
                    args = ["x"]
                else:
                    args = [rng.choice(L_OBJS)]
            cond = g_lexpr(rng, params + vs, rng.choice([0, 1, 1])) if rng.random() < 0.65 else ["and"]
            v = "T" if (f[0] == "g" and rng.random() < 0.8) else rng.choice("TF")
            effs.append(["eff", ["vars"] + vs, cond, [f[0]] + args, v])
        acts.append([n, ["params"] + params, ["pre"] + pre, ["effs"] + effs])
    goals = [["lit", "T", "g"]] if rng.random() < 0.6 else [g_lexpr(rng, [], rng.choice([0, 1, 2]))]
    ground = [["p", "o1"], ["p", "o2"], ["q", "o1"], ["q", "o2"], ["r"], ["g"]]
    sts = []
    for _ in range(rng.choice([1, 2, 2, 3])):
        sts.append([x for x in ground if x != ["g"] and rng.random() < 0.5])
    lk, lc = (3, 2) if tier == "quick" else (4, 2)
    return ["lifted", ["objs"] + L_OBJS, ["fluents"] + L_FLUENTS, ["actions"] + acts, ["goals"] + goals,
            ["init", ["states"] + sts], ["bounds", str(lk), str(lc)]]


def cases(rng, tier):
    n = 380 if tier == "quick" else 6000
    for i in range(n):
        k = rng.random()
        if k < 0.5:
            yield g_ground(rng, tier, rich=False, contingent=False)
        elif k < 0.68:
            yield g_ground(rng, tier, rich=False, contingent=True)
        elif k < 0.76:
            yield g_ground(rng, tier, rich="pre", contingent=rng.random() < 0.25)
        elif k < 0.88:
            yield g_ground(rng, tier, rich="all", contingent=rng.random() < 0.25)
        else:
            yield g_lifted(rng, tier)


def search(rng, tier):
    while True:
        k = rng.random()
        if k < 0.45:
            yield g_ground(rng, "quick", rich=False, contingent=rng.random() < 0.3)
        elif k < 0.8:
            yield g_ground(rng, "quick", rich=rng.choice(["pre", "all"]), contingent=rng.random() < 0.2)
        else:
            yield g_lifted(rng, "quick")


def shrink(payload):
    import copy

    def put(idx_path, value):
        p = copy.deepcopy(payload)
        cur = p
        for i in idx_path[:-1]:
            cur = cur[i]
        if value is None:
            del cur[idx_path[-1]]
        else:
            cur[idx_path[-1]] = value
        return p
    ia = next(i for i, s in enumerate(payload) if isinstance(s, list) and s[0] == "actions")
    acts = payload[ia][1:]
    for j in range(len(acts)):
        yield put([ia, j + 1], None)
    ii = next(i for i, s in enumerate(payload) if isinstance(s, list) and s[0] == "init")
    init = payload[ii][1]
    if init[0] == "states":
        for j in range(1, len(init)):
            yield put([ii, 1, j], None)
    else:
        for j in range(1, len(init[2])):
            yield put([ii, 1, 2, j], None)
    if payload[0] == "ground":
        for j, a in enumerate(acts):
            for e in range(1, len(a[2])):
                if len(a[2]) > 2:
                    yield put([ia, j + 1, 2, e], None)
            dn = [([ia, j + 1, 1, 1], a[1][1])] + [([ia, j + 1, 2, e, 0], a[2][e][0]) for e in range(1, len(a[2]))]
            for path, d in dn:
                for c in range(len(d)):
                    if len(d) > 1:
                        yield put(path + [c], None)
                    for l in range(len(d[c])):
                        yield put(path + [c, l], None)
        ig = next(i for i, s in enumerate(payload) if isinstance(s, list) and s[0] == "goal")
        d = payload[ig][1]
        for c in range(len(d)):
            if len(d) > 1:
                yield put([ig, 1, c], None)
            for l in range(len(d[c])):
                yield put([ig, 1, c, l], None)
    else:
        for j, a in enumerate(acts):
            for e in range(1, len(a[2])):
                yield put([ia, j + 1, 2, e], None)
            for e in range(1, len(a[3])):
                if len(a[3]) > 2:
                    yield put([ia, j + 1, 3, e], None)
                yield put([ia, j + 1, 3, e, 2], ["and"])
        ig = next(i for i, s in enumerate(payload) if isinstance(s, list) and s[0] == "goals")
        for e in range(1, len(payload[ig])):
            if len(payload[ig]) > 2:
                yield put([ig, e], None)


MANIFEST = {
    "level_text": ("Lean 4 theorems (Props/C30.lean) about an executable model of the K_S0 translation (Core/KS0.lean) against a "
                   "belief-space semantics (Spec/Conformant.lean): tracking invariant by induction over plans, soundness and "
                   "completeness of the translation for every normal-form problem and every list of tag states, exactness of the "
                   "enumeration of possible initial states from oneof/or/unknown constraints, and preservation of conformance by "
                   "de-duplication and by the basis reduction. The model is tied to ks0_compiler.py by a differential correspondence "
                   "check (possible states, basis, relevance relation, compiled problem, valid compiled plans and conformant plans up "
                   "to a bound) and the property is evaluated end-to-end on the real code (all compiled plans up to length 3/4 mapped "
                   "back and judged by an independent belief-space executor; exhaustive belief-space search of the original; with and "
                   "without the reduction), including disjunctive, quantified and lifted problems that the model does not cover."),
    "level_note": ("Trusted: Lean kernel; axioms propext, Classical.choice, Quot.sound; the correspondence harness. Modelled not verified: "
                   "the normalisers run before the translation (QuantifiersRemover, DisjunctiveConditionsRemover, Grounder) — covered by "
                   "the end-to-end oracle only; the sequential simulator used to execute compiled plans (C01)."),
    "technique": "Lean 4 proof over an executable model + model/code correspondence + end-to-end property oracle",
    "design_ref": "DESIGN.md §5 C30",
}
