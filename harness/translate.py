#!/usr/bin/env python3
"""Source -> Lean translator (DESIGN 2.3 (T)).

Parses /repo's working tree with `ast` (the code is never imported here) and regenerates
lean/UPVerif/Gen/*.lean.  Only a restricted Python subset is accepted; anything outside it raises
TranslationBroken(file, line, why), which callers treat as a broken tie (failing-input search, then
report), never as a pass.
"""
import ast
import os
import sys

REPO = os.environ.get("UPVERIF_REPO", "/repo")
HERE = os.path.dirname(os.path.abspath(__file__))
GEN = os.path.join(os.environ.get("UPVERIF_LEAN") or os.path.join(HERE, "..", "lean"), "UPVerif", "Gen")


class TranslationBroken(Exception):
    def __init__(self, file, line, why):
        super().__init__(f"TRANSLATION-BROKEN {file}:{line} {why}")
        self.file, self.line, self.why = file, line, why


def _parse(rel):
    path = os.path.join(REPO, rel)
    with open(path) as f:
        return ast.parse(f.read(), filename=path), rel


def _lean_str(s):
    return '"' + s.replace("\\", "\\\\").replace('"', '\\"') + '"'


def _lean_list(items):
    return "[" + ", ".join(items) + "]"


def _const_str(node, rel):
    if isinstance(node, ast.Constant) and isinstance(node.value, str):
        return node.value
    raise TranslationBroken(rel, getattr(node, "lineno", 0), "expected string literal")


def _str_set(node, rel):
    """{"A", "B"} or ["A","B"] literal -> list of str"""
    if isinstance(node, (ast.Set, ast.List, ast.Tuple)):
        return [_const_str(e, rel) for e in node.elts]
    raise TranslationBroken(rel, getattr(node, "lineno", 0), "expected set/list literal of strings")


def _find_assign(tree, name, rel):
    for n in tree.body:
        if isinstance(n, ast.Assign) and len(n.targets) == 1 and isinstance(n.targets[0], ast.Name) and n.targets[0].id == name:
            return n.value
        if isinstance(n, ast.AnnAssign) and isinstance(n.target, ast.Name) and n.target.id == name and n.value is not None:
            return n.value
    raise TranslationBroken(rel, 0, f"top-level assignment to {name} not found")


def _find_func(tree, name, rel):
    for n in tree.body:
        if isinstance(n, ast.FunctionDef) and n.name == name:
            return n
    raise TranslationBroken(rel, 0, f"function {name} not found")


# ---------------------------------------------------------------------------------------------
# Features / versions / upgrade functions
# ---------------------------------------------------------------------------------------------

def _upgrade_rules(fn, rel):
    """Accepts exactly:
         out = inp.copy()
         (if "X" in inp [and ...]: (nested ifs | out.update({...}) | out.add("..")) )*
         out.difference_update({...})?
         return out
       or  `return inp.copy()`.
       All conditions must be positive membership tests on the *input* set.
    """
    if len(fn.args.args) != 1:
        raise TranslationBroken(rel, fn.lineno, "upgrade function must take one argument")
    inp = fn.args.args[0].arg
    body = [s for s in fn.body if not (isinstance(s, ast.Expr) and isinstance(s.value, ast.Constant))]
    rules, removes = [], []
    out = None

    def is_copy(e):
        return (isinstance(e, ast.Call) and isinstance(e.func, ast.Attribute) and e.func.attr == "copy"
                and isinstance(e.func.value, ast.Name) and e.func.value.id == inp and not e.args)

    def cond_feats(test):
        if isinstance(test, ast.BoolOp) and isinstance(test.op, ast.And):
            r = []
            for v in test.values:
                r += cond_feats(v)
            return r
        if (isinstance(test, ast.Compare) and len(test.ops) == 1 and isinstance(test.ops[0], ast.In)
                and isinstance(test.comparators[0], ast.Name) and test.comparators[0].id == inp):
            return [_const_str(test.left, rel)]
        raise TranslationBroken(rel, test.lineno, "condition is not a positive membership test on the input set")

    def walk(stmts, conds):
        for s in stmts:
            if isinstance(s, ast.If):
                if s.orelse:
                    raise TranslationBroken(rel, s.lineno, "else branch in upgrade function")
                walk(s.body, conds + cond_feats(s.test))
            elif (isinstance(s, ast.Expr) and isinstance(s.value, ast.Call)
                  and isinstance(s.value.func, ast.Attribute)
                  and isinstance(s.value.func.value, ast.Name) and s.value.func.value.id == out):
                m = s.value.func.attr
                if m == "update" and len(s.value.args) == 1:
                    rules.append((conds, _str_set(s.value.args[0], rel)))
                elif m == "add" and len(s.value.args) == 1:
                    rules.append((conds, [_const_str(s.value.args[0], rel)]))
                elif m == "difference_update" and len(s.value.args) == 1 and not conds:
                    removes.extend(_str_set(s.value.args[0], rel))
                elif m in ("discard", "remove") and len(s.value.args) == 1 and not conds:
                    removes.append(_const_str(s.value.args[0], rel))
                else:
                    raise TranslationBroken(rel, s.lineno, f"unsupported call .{m} in upgrade function")
            else:
                raise TranslationBroken(rel, s.lineno, "unsupported statement in upgrade function")

    if len(body) == 1 and isinstance(body[0], ast.Return) and is_copy(body[0].value):
        return [], []
    if not (isinstance(body[0], ast.Assign) and isinstance(body[0].targets[0], ast.Name) and is_copy(body[0].value)):
        raise TranslationBroken(rel, body[0].lineno, "upgrade function must start with `out = inp.copy()`")
    out = body[0].targets[0].id
    if not (isinstance(body[-1], ast.Return) and isinstance(body[-1].value, ast.Name) and body[-1].value.id == out):
        raise TranslationBroken(rel, body[-1].lineno, "upgrade function must end with `return out`")
    # removals must come last so that "rules then removal" is the right reading
    seen_removal = False
    for s in body[1:-1]:
        is_rem = (isinstance(s, ast.Expr) and isinstance(s.value, ast.Call) and isinstance(s.value.func, ast.Attribute)
                  and s.value.func.attr in ("difference_update", "discard", "remove"))
        if seen_removal and not is_rem:
            raise TranslationBroken(rel, s.lineno, "addition after removal in upgrade function")
        seen_removal = seen_removal or is_rem
    walk(body[1:-1], [])
    return rules, removes


def gen_features():
    pk, pk_rel = _parse("unified_planning/model/problem_kind.py")
    pv, pv_rel = _parse("unified_planning/model/problem_kind_versioning.py")
    feats = _find_assign(pk, "FEATURES", pk_rel)
    if not isinstance(feats, ast.Dict):
        raise TranslationBroken(pk_rel, feats.lineno, "FEATURES is not a dict literal")
    groups = []
    for k, v in zip(feats.keys, feats.values):
        groups.append((_const_str(k, pk_rel), _str_set(v, pk_rel)))
    all_features = []
    for _, fl in groups:
        for f in fl:
            if f not in all_features:
                all_features.append(f)
    vers = _find_assign(pv, "FEATURES_VERSIONS", pv_rel)
    if not isinstance(vers, ast.Dict):
        raise TranslationBroken(pv_rel, vers.lineno, "FEATURES_VERSIONS is not a dict literal")
    versions = []
    for k, v in zip(vers.keys, vers.values):
        if not (isinstance(v, ast.Tuple) and len(v.elts) == 2 and isinstance(v.elts[0], ast.Constant)
                and isinstance(v.elts[0].value, int) and isinstance(v.elts[1], ast.Constant)
                and (v.elts[1].value is None or isinstance(v.elts[1].value, int))):
            raise TranslationBroken(pv_rel, v.lineno, "version entry is not (int, int|None)")
        versions.append((_const_str(k, pv_rel), v.elts[0].value, v.elts[1].value))
    latest = _find_assign(pv, "LATEST_PROBLEM_KIND_VERSION", pv_rel)
    if not (isinstance(latest, ast.Constant) and isinstance(latest.value, int)):
        raise TranslationBroken(pv_rel, latest.lineno, "LATEST_PROBLEM_KIND_VERSION is not an int literal")
    latest = latest.value
    umap = _find_assign(pv, "upgrade_functions_map", pv_rel)
    if not isinstance(umap, ast.Dict):
        raise TranslationBroken(pv_rel, umap.lineno, "upgrade_functions_map is not a dict literal")
    by_step = {}
    for k, v in zip(umap.keys, umap.values):
        if not (isinstance(k, ast.Tuple) and len(k.elts) == 2 and all(isinstance(e, ast.Constant) for e in k.elts)
                and isinstance(v, ast.Name)):
            raise TranslationBroken(pv_rel, k.lineno, "upgrade_functions_map entry shape")
        a, b = k.elts[0].value, k.elts[1].value
        if b != a + 1:
            raise TranslationBroken(pv_rel, k.lineno, "upgrade step is not (v, v+1)")
        by_step[a] = _upgrade_rules(_find_func(pv, v.id, pv_rel), pv_rel)
    upgrades = []
    for v in range(1, latest):
        if v not in by_step:
            raise TranslationBroken(pv_rel, umap.lineno, f"no upgrade function for ({v},{v+1})")
        upgrades.append(by_step[v])

    # also check that equalize_versions / get_valid_features still have the expected *shape*
    # (they are modelled by hand in Core/Kind.lean and tied by correspondence; here only existence)
    _find_func(pv, "equalize_versions", pv_rel)
    _find_func(pk, "get_valid_features", pk_rel)

    L = []
    L.append("/- GENERATED by harness/translate.py from /repo — do not edit. -/")
    L.append("import UPVerif.Core.Kind")
    L.append("namespace UPVerif.Gen")
    L.append("open UPVerif.Kind")
    L.append("")
    L.append("def featureGroups : List (String × List String) := [")
    L.append(",\n".join(f"  ({_lean_str(g)}, {_lean_list([_lean_str(f) for f in fl])})" for g, fl in groups))
    L.append("]")
    L.append("")
    L.append("def tables : Tables where")
    L.append("  all := " + _lean_list([_lean_str(f) for f in all_features]))
    L.append("  versions := " + _lean_list(
        [f"({_lean_str(f)}, {a}, {'none' if d is None else f'some {d}'})" for f, a, d in versions]))
    L.append(f"  latest := {latest}")
    ups = []
    for rules, removes in upgrades:
        rs = _lean_list(["{ conds := " + _lean_list([_lean_str(c) for c in cs]) + ", adds := "
                         + _lean_list([_lean_str(a) for a in ad]) + " }" for cs, ad in rules])
        ups.append("{ rules := " + rs + ", removes := " + _lean_list([_lean_str(r) for r in removes]) + " }")
    L.append("  upgrades := " + _lean_list(ups))
    L.append("")
    L.append("end UPVerif.Gen")
    return "\n".join(L) + "\n"


GENERATORS = {
    "Features": gen_features,
}

# per-property translators live in harness/translate_<X>.py and expose GENERATORS = {name: fn};
# they are merged here so that `GEN = ["Name"]` in a property module just works
import glob as _glob
import importlib.util as _ilu
for _p in sorted(_glob.glob(os.path.join(HERE, "translate_*.py"))):
    _spec = _ilu.spec_from_file_location(os.path.basename(_p)[:-3], _p)
    _m = _ilu.module_from_spec(_spec)
    sys.modules[_spec.name] = _m
    _spec.loader.exec_module(_m)
    GENERATORS.update(getattr(_m, "GENERATORS", {}))


def write_if_changed(path, text):
    try:
        with open(path) as f:
            if f.read() == text:
                return False
    except FileNotFoundError:
        pass
    os.makedirs(os.path.dirname(path), exist_ok=True)
    with open(path, "w") as f:
        f.write(text)
    return True


def run(names=None):
    """Regenerate the named Gen files (all when None). Returns list of (name, changed)."""
    out = []
    for name, fn in GENERATORS.items():
        if names is not None and name not in names:
            continue
        text = fn()
        out.append((name, write_if_changed(os.path.join(GEN, name + ".lean"), text)))
    return out


if __name__ == "__main__":
    try:
        for name, changed in run(sys.argv[1:] or None):
            print(f"gen {name}: {'rewritten' if changed else 'unchanged'}")
    except TranslationBroken as e:
        print(str(e))
        sys.exit(3)
