"""Translator for C38: keyword sets, INITIAL_LETTER maps and regular-expression character classes of the
PDDL and ANML writers -> lean/UPVerif/Gen/Keywords.lean (a value of type `UPVerif.Mangle.Tables`).

Same rules as harness/translate.py: the source is parsed with `ast`, never imported; only the shapes
listed below are accepted, anything else raises TranslationBroken (a broken tie, never a pass).

Accepted shapes
  * `NAME = {"kw", ...}` at module level (string literals only);
  * `INITIAL_LETTER: Dict[type, str] = {ClassName: "c", ...}` (bare names -> one-character strings);
  * in `_get_pddl_name` / `_get_anml_valid_name`: exactly one `re.compile(r"^[C]+.*")`, exactly one
    `re.sub("[^C]", "_", name)`, exactly one `INITIAL_LETTER.get(type(item), "c")`;
  * in `_is_valid_anml_name`: exactly one `re.compile(r"^[C1][C2]*")` whose result is used by exactly one
    `re.fullmatch(regex, name)` (a prefix `re.match` is NOT accepted: it lets `a-b` through);
  * `PDDLWriter.__init__` must COPY the general keyword set (`set(GENERAL_PDDL_KEYWORDS)`,
    `GENERAL_PDDL_KEYWORDS.copy()` or `GENERAL_PDDL_KEYWORDS | ...`): a bare alias makes `|=` grow the
    module-level set, so the names of one writer would depend on the writers built before it.
  * every other statement of `PDDLWriter.__init__` that touches `self.pddl_keywords` must be a top-level
    `if COND: self.pddl_keywords |= TABLE` (no else) with TABLE one of the five optional tables and COND in
        COND ::= len(self.problem.ATTR) > 0            ATTR in processes, events, trajectory_constraints,
                                                                timed_effects, timed_goals
               | any(map(lambda x: isinstance(x, CLS), self.problem.actions))
               | isinstance(self.problem, CLS)
               | COND or COND
    (CLS a bare name or a dotted name, of which the last component is kept).  The conditions are emitted as
    `pddlSelect : List (KwCond × KwTable)` — WHICH table applies is therefore regenerated from the source like the
    tables themselves.  Conditions on `self.problem_kind` (or anything else) are refused: the kind of a problem
    with `discrete_time` has DISCRETE_TIME instead of CONTINUOUS_TIME, a kind-based condition is easy to get wrong
    and the model has no kind.
  * ma_pddl_writer.py: `MA_PDDL_KEYWORDS = GENERAL_PDDL_KEYWORDS.union(T1).union(T2)…` and
    `self.pddl_keywords = MA_PDDL_KEYWORDS` as the only statement of class MAPDDLWriter that touches the set
    (-> `maSelect : List KwTable`).
  * `pddlWritten`: every `:word` that occurs in a string literal of pddl_writer.py outside docstrings (the section
    heads and requirement flags the writer can emit).
  A character class `C` is a sequence of single characters and `x-y` ranges over ASCII letters, digits,
  `_` and a final/initial `-`; it is expanded to the explicit list of its characters.
"""
import ast
import os

from translate import TranslationBroken, _parse, _find_assign, _find_func, _str_set, _const_str

PDDL = "unified_planning/io/pddl_writer.py"
ANML = "unified_planning/io/anml_writer.py"
MAPDDL = "unified_planning/io/ma_pddl_writer.py"


def _chars(s):
    return "[" + ", ".join(_lean_char(c) for c in s) + "]"


def _lean_char(c):
    if c == "'":
        return "'\\''"
    if c == "\\":
        return "'\\\\'"
    if not (32 <= ord(c) < 127):
        raise TranslationBroken("?", 0, f"non-printable or non-ASCII character {c!r} in a table")
    return f"'{c}'"


def _names(strs):
    return "[" + ",\n    ".join(_chars(s) for s in strs) + "]"


def _expand_class(body, rel, line):
    """'a-zA-Z0-9_-' -> list of characters"""
    out, i = [], 0
    ok = set("abcdefghijklmnopqrstuvwxyzABCDEFGHIJKLMNOPQRSTUVWXYZ0123456789_")
    while i < len(body):
        c = body[i]
        if i + 2 < len(body) and body[i + 1] == "-":
            lo, hi = c, body[i + 2]
            if lo not in ok or hi not in ok or lo == "_" or hi == "_" or ord(lo) > ord(hi):
                raise TranslationBroken(rel, line, f"unsupported range {lo}-{hi} in character class")
            if not ((lo.islower() and hi.islower()) or (lo.isupper() and hi.isupper()) or (lo.isdigit() and hi.isdigit())):
                raise TranslationBroken(rel, line, f"range {lo}-{hi} mixes character kinds")
            out += [chr(k) for k in range(ord(lo), ord(hi) + 1)]
            i += 3
        elif c in ok or (c == "-" and (i == 0 or i == len(body) - 1)):
            out.append(c)
            i += 1
        else:
            raise TranslationBroken(rel, line, f"unsupported character {c!r} in character class")
    res = []
    for c in out:
        if c not in res:
            res.append(c)
    return res


def _calls(fn, modname, attr):
    """all calls `modname.attr(...)` inside fn"""
    out = []
    for n in ast.walk(fn):
        if (isinstance(n, ast.Call) and isinstance(n.func, ast.Attribute) and n.func.attr == attr
                and isinstance(n.func.value, ast.Name) and n.func.value.id == modname):
            out.append(n)
    return out


def _one(lst, rel, fn, what):
    if len(lst) != 1:
        raise TranslationBroken(rel, fn.lineno, f"expected exactly one {what} in {fn.name}, found {len(lst)}")
    return lst[0]


def _start_class(fn, rel):
    c = _one(_calls(fn, "re", "compile"), rel, fn, "re.compile")
    pat = _const_str(c.args[0], rel)
    if not (pat.startswith("^[") and pat.endswith("]+.*") and "]" not in pat[2:-4] and "[" not in pat[2:-4]):
        raise TranslationBroken(rel, c.lineno, f"start pattern {pat!r} is not ^[C]+.*")
    # the compiled regex must be used by exactly one re.match(regex, name) compared with None
    ms = _calls(fn, "re", "match")
    _one(ms, rel, fn, "re.match")
    return _expand_class(pat[2:-4], rel, c.lineno)


def _keep_class(fn, rel):
    c = _one(_calls(fn, "re", "sub"), rel, fn, "re.sub")
    if len(c.args) != 3:
        raise TranslationBroken(rel, c.lineno, "re.sub must have three arguments")
    pat, repl = _const_str(c.args[0], rel), _const_str(c.args[1], rel)
    if repl != "_":
        raise TranslationBroken(rel, c.lineno, f"re.sub replacement is {repl!r}, the model writes '_'")
    if not (pat.startswith("[^") and pat.endswith("]") and "]" not in pat[2:-1] and "[" not in pat[2:-1]):
        raise TranslationBroken(rel, c.lineno, f"substitution pattern {pat!r} is not [^C]")
    return _expand_class(pat[2:-1], rel, c.lineno)


def _default_letter(fn, rel):
    gs = [n for n in ast.walk(fn) if isinstance(n, ast.Call) and isinstance(n.func, ast.Attribute)
          and n.func.attr == "get" and isinstance(n.func.value, ast.Name) and n.func.value.id == "INITIAL_LETTER"]
    g = _one(gs, rel, fn, "INITIAL_LETTER.get")
    a = g.args
    if not (len(a) == 2 and isinstance(a[0], ast.Call) and isinstance(a[0].func, ast.Name) and a[0].func.id == "type"):
        raise TranslationBroken(rel, g.lineno, "INITIAL_LETTER.get is not .get(type(item), default)")
    d = _const_str(a[1], rel)
    if len(d) != 1:
        raise TranslationBroken(rel, g.lineno, "default initial letter is not one character")
    return d


def _initial(tree, rel):
    v = _find_assign(tree, "INITIAL_LETTER", rel)
    if not isinstance(v, ast.Dict):
        raise TranslationBroken(rel, v.lineno, "INITIAL_LETTER is not a dict literal")
    out = []
    for k, val in zip(v.keys, v.values):
        if not isinstance(k, ast.Name):
            raise TranslationBroken(rel, v.lineno, "INITIAL_LETTER key is not a bare class name")
        s = _const_str(val, rel)
        if len(s) != 1:
            raise TranslationBroken(rel, val.lineno, "initial letter is not one character")
        out.append((k.id, s))
    return out


def _kwset(tree, name, rel):
    v = _find_assign(tree, name, rel)
    if not isinstance(v, ast.Set):
        raise TranslationBroken(rel, getattr(v, "lineno", 0), f"{name} is not a set literal")
    return sorted(_str_set(v, rel))


TABLES = {"PDDL_PLUS_KEYWORDS": ".plus", "PDDL3_KEYWORDS": ".pddl3", "TEMPORAL_PDDL_KEYWORDS": ".temporal",
          "CONTINGENT_PDDL_KEYWORDS": ".contingent", "HDDL_KEYWORDS": ".hddl"}
LEN_ATTRS = {"processes": ".processes", "events": ".events", "trajectory_constraints": ".trajectoryConstraints",
             "timed_effects": ".timedEffects", "timed_goals": ".timedGoals"}


def _is_self_problem(n):
    return isinstance(n, ast.Attribute) and n.attr == "problem" and isinstance(n.value, ast.Name) and n.value.id == "self"


def _last_name(n, rel):
    """`C` or `a.b.C` -> 'C'"""
    if isinstance(n, ast.Name):
        return n.id
    if isinstance(n, ast.Attribute):
        m = n
        while isinstance(m, ast.Attribute):
            m = m.value
        if isinstance(m, ast.Name):
            return n.attr
    raise TranslationBroken(rel, getattr(n, "lineno", 0), "class in isinstance is not a (dotted) name")


def _cls_name(s):
    return _chars(s)


def _kwcond(n, rel):
    """one condition of PDDLWriter.__init__ -> Lean term of type KwCond"""
    if isinstance(n, ast.BoolOp) and isinstance(n.op, ast.Or):
        parts = [_kwcond(v, rel) for v in n.values]
        out = parts[-1]
        for p_ in reversed(parts[:-1]):
            out = f"(.or {p_} {out})"
        return out
    # len(self.problem.ATTR) > 0
    if (isinstance(n, ast.Compare) and len(n.ops) == 1 and isinstance(n.ops[0], ast.Gt)
            and isinstance(n.comparators[0], ast.Constant) and n.comparators[0].value == 0
            and type(n.comparators[0].value) is int
            and isinstance(n.left, ast.Call) and isinstance(n.left.func, ast.Name) and n.left.func.id == "len"
            and len(n.left.args) == 1 and not n.left.keywords):
        a = n.left.args[0]
        if isinstance(a, ast.Attribute) and _is_self_problem(a.value) and a.attr in LEN_ATTRS:
            return f"(.lenPos {LEN_ATTRS[a.attr]})"
        raise TranslationBroken(rel, n.lineno, "len(...) > 0 of something that is not a known attribute of self.problem")
    if isinstance(n, ast.Call) and isinstance(n.func, ast.Name) and not n.keywords:
        # isinstance(self.problem, CLS)
        if n.func.id == "isinstance" and len(n.args) == 2 and _is_self_problem(n.args[0]):
            return f"(.problemIs {_cls_name(_last_name(n.args[1], rel))})"
        # any(map(lambda x: isinstance(x, CLS), self.problem.actions))
        if n.func.id == "any" and len(n.args) == 1:
            m = n.args[0]
            if (isinstance(m, ast.Call) and isinstance(m.func, ast.Name) and m.func.id == "map" and len(m.args) == 2
                    and not m.keywords and isinstance(m.args[0], ast.Lambda)
                    and isinstance(m.args[1], ast.Attribute) and m.args[1].attr == "actions"
                    and _is_self_problem(m.args[1].value)):
                lam = m.args[0]
                la = lam.args
                if (len(la.args) == 1 and not la.posonlyargs and not la.kwonlyargs and la.vararg is None
                        and la.kwarg is None and not la.defaults):
                    x, b = la.args[0].arg, lam.body
                    if (isinstance(b, ast.Call) and isinstance(b.func, ast.Name) and b.func.id == "isinstance"
                            and len(b.args) == 2 and not b.keywords and isinstance(b.args[0], ast.Name)
                            and b.args[0].id == x):
                        return f"(.anyActionIs {_cls_name(_last_name(b.args[1], rel))})"
    raise TranslationBroken(rel, getattr(n, "lineno", 0),
                            "keyword-table condition outside the accepted language (len(self.problem.X) > 0, "
                            "any(map(lambda a: isinstance(a, C), self.problem.actions)), isinstance(self.problem, C), or): "
                            + ast.unparse(n)[:120])


def _touches_keywords(n):
    return any(isinstance(m, ast.Attribute) and m.attr == "pddl_keywords" for m in ast.walk(n))


def _class_init(tree, cname, rel):
    cls = [n for n in tree.body if isinstance(n, ast.ClassDef) and n.name == cname]
    if not cls:
        raise TranslationBroken(rel, 0, f"class {cname} not found")
    init = [n for n in cls[0].body if isinstance(n, ast.FunctionDef) and n.name == "__init__"]
    if not init:
        raise TranslationBroken(rel, cls[0].lineno, f"{cname}.__init__ not found")
    return cls[0], init[0]


def _select(tree, rel):
    """PDDLWriter.__init__ -> [(cond, table)] in source order"""
    cls, init = _class_init(tree, "PDDLWriter", rel)
    out, started = [], False
    for st in init.body:
        if not _touches_keywords(st):
            continue
        if isinstance(st, ast.Assign) and len(st.targets) == 1 and isinstance(st.targets[0], ast.Attribute) \
                and st.targets[0].attr == "pddl_keywords" and not started:
            val = st.value
            if isinstance(val, ast.Name):
                raise TranslationBroken(rel, st.lineno, "self.pddl_keywords aliases the module-level keyword set "
                                        "(later `|=` mutates it for every future writer)")
            base = None
            if isinstance(val, ast.Call) and isinstance(val.func, ast.Name) and val.func.id == "set" and len(val.args) == 1 \
                    and isinstance(val.args[0], ast.Name):
                base = val.args[0].id
            elif isinstance(val, ast.Call) and isinstance(val.func, ast.Attribute) and val.func.attr == "copy" \
                    and isinstance(val.func.value, ast.Name) and not val.args:
                base = val.func.value.id
            if base != "GENERAL_PDDL_KEYWORDS":
                raise TranslationBroken(rel, st.lineno, "self.pddl_keywords is not initialised with a copy of GENERAL_PDDL_KEYWORDS")
            started = True
            continue
        if started and isinstance(st, ast.If) and not st.orelse and len(st.body) == 1 and isinstance(st.body[0], ast.AugAssign):
            au = st.body[0]
            if (isinstance(au.target, ast.Attribute) and au.target.attr == "pddl_keywords" and isinstance(au.op, ast.BitOr)
                    and isinstance(au.value, ast.Name) and au.value.id in TABLES and not _touches_keywords(st.test)):
                out.append((_kwcond(st.test, rel), TABLES[au.value.id]))
                continue
        raise TranslationBroken(rel, st.lineno, "unsupported statement on self.pddl_keywords in PDDLWriter.__init__ "
                                "(want `if COND: self.pddl_keywords |= TABLE`)")
    if not started:
        raise TranslationBroken(rel, init.lineno, "PDDLWriter.__init__ does not initialise self.pddl_keywords")
    # nothing else in the class may assign the set
    for fn in cls.body:
        if isinstance(fn, ast.FunctionDef) and fn.name != "__init__":
            for n in ast.walk(fn):
                tgt = n.targets[0] if isinstance(n, ast.Assign) and len(n.targets) == 1 else \
                    n.target if isinstance(n, (ast.AugAssign, ast.AnnAssign)) else None
                if isinstance(tgt, ast.Attribute) and tgt.attr == "pddl_keywords":
                    raise TranslationBroken(rel, n.lineno, f"PDDLWriter.{fn.name} changes self.pddl_keywords")
    return out


def _ma_select(tree, rel):
    """ma_pddl_writer.py: MA_PDDL_KEYWORDS = GENERAL_PDDL_KEYWORDS.union(T1).union(T2)… taken unconditionally"""
    v = _find_assign(tree, "MA_PDDL_KEYWORDS", rel)
    tabs = []
    while isinstance(v, ast.Call) and isinstance(v.func, ast.Attribute) and v.func.attr == "union" and len(v.args) == 1 \
            and not v.keywords and isinstance(v.args[0], ast.Name) and v.args[0].id in TABLES:
        tabs.append(TABLES[v.args[0].id])
        v = v.func.value
    if not (isinstance(v, ast.Name) and v.id == "GENERAL_PDDL_KEYWORDS"):
        raise TranslationBroken(rel, getattr(v, "lineno", 0), "MA_PDDL_KEYWORDS is not GENERAL_PDDL_KEYWORDS.union(T1).union(T2)…")
    tabs.reverse()
    # the tables must be the ones of pddl_writer.py
    imported = set()
    for n in tree.body:
        if isinstance(n, ast.ImportFrom) and n.module == "unified_planning.io.pddl_writer":
            imported |= {a.name for a in n.names if a.asname is None}
    for n in tree.body:
        if isinstance(n, ast.Assign):
            for t in n.targets:
                if isinstance(t, ast.Name) and (t.id in TABLES or t.id == "GENERAL_PDDL_KEYWORDS"):
                    raise TranslationBroken(rel, n.lineno, f"ma_pddl_writer redefines {t.id}")
    for nme in ["GENERAL_PDDL_KEYWORDS"] + [k for k, c in TABLES.items() if c in tabs]:
        if nme not in imported:
            raise TranslationBroken(rel, 0, f"ma_pddl_writer does not import {nme} from pddl_writer")
    cls, init = _class_init(tree, "MAPDDLWriter", rel)
    hits = []
    for n in ast.walk(cls):
        tgt = n.targets[0] if isinstance(n, ast.Assign) and len(n.targets) == 1 else \
            n.target if isinstance(n, (ast.AugAssign, ast.AnnAssign)) else None
        if isinstance(tgt, ast.Attribute) and tgt.attr == "pddl_keywords":
            hits.append(n)
    if not (len(hits) == 1 and isinstance(hits[0], ast.Assign) and hits[0] in init.body
            and isinstance(hits[0].value, ast.Name) and hits[0].value.id == "MA_PDDL_KEYWORDS"):
        raise TranslationBroken(rel, init.lineno, "MAPDDLWriter must set self.pddl_keywords = MA_PDDL_KEYWORDS once, "
                                "unconditionally, in __init__ and never update it")
    return tabs


def _written_words(tree, rel):
    """every `:word` in a string literal of the module that is not a docstring"""
    import re as _re
    doc = set()
    for n in ast.walk(tree):
        if isinstance(n, (ast.Module, ast.ClassDef, ast.FunctionDef, ast.AsyncFunctionDef)) and n.body \
                and isinstance(n.body[0], ast.Expr) and isinstance(n.body[0].value, ast.Constant) \
                and isinstance(n.body[0].value.value, str):
            doc.add(id(n.body[0].value))
    words = set()
    for n in ast.walk(tree):
        if isinstance(n, ast.Constant) and isinstance(n.value, str) and id(n) not in doc:
            for m in _re.finditer(r"(?<![0-9A-Za-z_]):([a-z][a-z0-9-]*)", n.value):
                words.add(m.group(1))
    if not words:
        raise TranslationBroken(rel, 0, "no `:word` literal found in the writer")
    return sorted(words)


def _valid_classes(fn, rel):
    c = _one(_calls(fn, "re", "compile"), rel, fn, "re.compile")
    pat = _const_str(c.args[0], rel)
    if _calls(fn, "re", "match") or _calls(fn, "re", "search"):
        raise TranslationBroken(rel, fn.lineno, f"{fn.name} tests a prefix (re.match/re.search), not the whole name")
    _one(_calls(fn, "re", "fullmatch"), rel, fn, "re.fullmatch")
    core = pat[1:] if pat.startswith("^") else pat
    if core.endswith("$"):
        core = core[:-1]
    # [C1][C2]*
    if not (core.startswith("[") and core.endswith("]*") and core.count("[") == 2 and core.count("]") == 2 and "][" in core):
        raise TranslationBroken(rel, c.lineno, f"validity pattern {pat!r} is not [C1][C2]*")
    a, b = core[1:-2].split("][")
    return _expand_class(a, rel, c.lineno), _expand_class(b, rel, c.lineno)


def gen_keywords():
    pt, prel = _parse(PDDL)
    at, arel = _parse(ANML)
    general = _kwset(pt, "GENERAL_PDDL_KEYWORDS", prel)
    plus = _kwset(pt, "PDDL_PLUS_KEYWORDS", prel)
    pddl3 = _kwset(pt, "PDDL3_KEYWORDS", prel)
    temporal = _kwset(pt, "TEMPORAL_PDDL_KEYWORDS", prel)
    contingent = _kwset(pt, "CONTINGENT_PDDL_KEYWORDS", prel)
    hddl = _kwset(pt, "HDDL_KEYWORDS", prel)
    select = _select(pt, prel)
    mt, mrel = _parse(MAPDDL)
    ma_select = _ma_select(mt, mrel)
    written = _written_words(pt, prel)
    pfn = _find_func(pt, "_get_pddl_name", prel)
    p_initial, p_default = _initial(pt, prel), _default_letter(pfn, prel)
    p_start, p_keep = _start_class(pfn, prel), _keep_class(pfn, prel)
    _find_func(pt, "_get_pddl_name", prel)
    anml_kw = _kwset(at, "ANML_KEYWORDS", arel)
    afn = _find_func(at, "_get_anml_valid_name", arel)
    a_initial, a_default = _initial(at, arel), _default_letter(afn, arel)
    a_start, a_keep = _start_class(afn, arel), _keep_class(afn, arel)
    a_first, a_rest = _valid_classes(_find_func(at, "_is_valid_anml_name", arel), arel)
    _find_func(at, "_get_anml_name", arel)

    def initial(tbl):
        return "[" + ", ".join(f"({_chars(k)}, {_lean_char(v)})" for k, v in tbl) + "]"

    L = ["/- GENERATED by harness/translate_C38.py from /repo — do not edit. -/",
         "import UPVerif.Core.MangleSelect",
         "namespace UPVerif.Gen",
         "open UPVerif.Mangle",
         "",
         "def mangleTables : Tables where",
         f"  pddlGeneral := {_names(general)}",
         f"  pddlPlus := {_names(plus)}",
         f"  pddl3 := {_names(pddl3)}",
         f"  pddlTemporal := {_names(temporal)}",
         f"  pddlContingent := {_names(contingent)}",
         f"  pddlHddl := {_names(hddl)}",
         f"  pddlInitial := {initial(p_initial)}",
         f"  pddlDefault := {_lean_char(p_default)}",
         f"  pddlStart := {_chars(p_start)}",
         f"  pddlKeep := {_chars(p_keep)}",
         f"  anmlKw := {_names(anml_kw)}",
         f"  anmlInitial := {initial(a_initial)}",
         f"  anmlDefault := {_lean_char(a_default)}",
         f"  anmlStart := {_chars(a_start)}",
         f"  anmlKeep := {_chars(a_keep)}",
         f"  anmlFirst := {_chars(a_first)}",
         f"  anmlRest := {_chars(a_rest)}",
         "",
         "/-- `PDDLWriter.__init__`: the `if COND: self.pddl_keywords |= TABLE` statements, in source order -/",
         "def pddlSelect : List (KwCond × KwTable) :=",
         "  [" + ",\n   ".join(f"({c}, {t})" for c, t in select) + "]",
         "",
         "/-- ma_pddl_writer.py `MA_PDDL_KEYWORDS`: the tables united with the general one -/",
         "def maSelect : List KwTable := [" + ", ".join(ma_select) + "]",
         "",
         "/-- every `:word` in a (non-docstring) string literal of pddl_writer.py -/",
         f"def pddlWritten : List Name :=\n  {_names(written)}",
         "",
         "end UPVerif.Gen"]
    return "\n".join(L) + "\n"


GENERATORS = {"Keywords": gen_keywords}
