"""Translator for C38: keyword sets, INITIAL_LETTER maps and regular-expression character classes of the
PDDL and ANML writers -> lean/UPVerif/Gen/Keywords.lean (a value of type `UPVerif.Mangle.Tables`).

Same rules as harness/translate.py: the source is parsed with `ast`, never imported; only the shapes
listed below are accepted, anything else raises TranslationBroken (a broken tie, never a pass).

Accepted shapes
  * `NAME = {"kw", ...}` at module level (string literals only);
  * `INITIAL_LETTER: Dict[type, str] = {ClassName: "c", ...}` (bare names -> one-character strings);
  * in `_get_pddl_name` / `_get_anml_valid_name`: exactly one `re.compile(r"^[C]+.*")`, exactly one
    `re.sub("[^C]", "_", name)`, exactly one `INITIAL_LETTER.get(type(item), "c")`;
  * in `_is_valid_anml_name`: exactly one `re.compile(r"^[C1][C2]*")` whose result is used by exactly one
    `re.fullmatch(regex, name)` (a prefix `re.match` is NOT accepted: it lets `a-b` through);
  * `PDDLWriter.__init__` must COPY the general keyword set (`set(GENERAL_PDDL_KEYWORDS)`,
    `GENERAL_PDDL_KEYWORDS.copy()` or `GENERAL_PDDL_KEYWORDS | ...`): a bare alias makes `|=` grow the
    module-level set, so the names of one writer would depend on the writers built before it.
  A character class `C` is a sequence of single characters and `x-y` ranges over ASCII letters, digits,
  `_` and a final/initial `-`; it is expanded to the explicit list of its characters.
"""
import ast
import os

from translate import TranslationBroken, _parse, _find_assign, _find_func, _str_set, _const_str

PDDL = "unified_planning/io/pddl_writer.py"
ANML = "unified_planning/io/anml_writer.py"


def _chars(s):
    return "[" + ", ".join(_lean_char(c) for c in s) + "]"


def _lean_char(c):
    if c == "'":
        return "'\\''"
    if c == "\\":
        return "'\\\\'"
    if not (32 <= ord(c) < 127):
        raise TranslationBroken("?", 0, f"non-printable or non-ASCII character {c!r} in a table")
    return f"'{c}'"


def _names(strs):
    return "[" + ",\n    ".join(_chars(s) for s in strs) + "]"


def _expand_class(body, rel, line):
    """'a-zA-Z0-9_-' -> list of characters"""
    out, i = [], 0
    ok = set("abcdefghijklmnopqrstuvwxyzABCDEFGHIJKLMNOPQRSTUVWXYZ0123456789_")
    while i < len(body):
        c = body[i]
        if i + 2 < len(body) and body[i + 1] == "-":
            lo, hi = c, body[i + 2]
            if lo not in ok or hi not in ok or lo == "_" or hi == "_" or ord(lo) > ord(hi):
                raise TranslationBroken(rel, line, f"unsupported range {lo}-{hi} in character class")
            if not ((lo.islower() and hi.islower()) or (lo.isupper() and hi.isupper()) or (lo.isdigit() and hi.isdigit())):
                raise TranslationBroken(rel, line, f"range {lo}-{hi} mixes character kinds")
            out += [chr(k) for k in range(ord(lo), ord(hi) + 1)]
            i += 3
        elif c in ok or (c == "-" and (i == 0 or i == len(body) - 1)):
            out.append(c)
            i += 1
        else:
            raise TranslationBroken(rel, line, f"unsupported character {c!r} in character class")
    res = []
    for c in out:
        if c not in res:
            res.append(c)
    return res


def _calls(fn, modname, attr):
    """all calls `modname.attr(...)` inside fn"""
    out = []
    for n in ast.walk(fn):
        if (isinstance(n, ast.Call) and isinstance(n.func, ast.Attribute) and n.func.attr == attr
                and isinstance(n.func.value, ast.Name) and n.func.value.id == modname):
            out.append(n)
    return out


def _one(lst, rel, fn, what):
    if len(lst) != 1:
        raise TranslationBroken(rel, fn.lineno, f"expected exactly one {what} in {fn.name}, found {len(lst)}")
    return lst[0]


def _start_class(fn, rel):
    c = _one(_calls(fn, "re", "compile"), rel, fn, "re.compile")
    pat = _const_str(c.args[0], rel)
    if not (pat.startswith("^[") and pat.endswith("]+.*") and "]" not in pat[2:-4] and "[" not in pat[2:-4]):
        raise TranslationBroken(rel, c.lineno, f"start pattern {pat!r} is not ^[C]+.*")
    # the compiled regex must be used by exactly one re.match(regex, name) compared with None
    ms = _calls(fn, "re", "match")
    _one(ms, rel, fn, "re.match")
    return _expand_class(pat[2:-4], rel, c.lineno)


def _keep_class(fn, rel):
    c = _one(_calls(fn, "re", "sub"), rel, fn, "re.sub")
    if len(c.args) != 3:
        raise TranslationBroken(rel, c.lineno, "re.sub must have three arguments")
    pat, repl = _const_str(c.args[0], rel), _const_str(c.args[1], rel)
    if repl != "_":
        raise TranslationBroken(rel, c.lineno, f"re.sub replacement is {repl!r}, the model writes '_'")
    if not (pat.startswith("[^") and pat.endswith("]") and "]" not in pat[2:-1] and "[" not in pat[2:-1]):
        raise TranslationBroken(rel, c.lineno, f"substitution pattern {pat!r} is not [^C]")
    return _expand_class(pat[2:-1], rel, c.lineno)


def _default_letter(fn, rel):
    gs = [n for n in ast.walk(fn) if isinstance(n, ast.Call) and isinstance(n.func, ast.Attribute)
          and n.func.attr == "get" and isinstance(n.func.value, ast.Name) and n.func.value.id == "INITIAL_LETTER"]
    g = _one(gs, rel, fn, "INITIAL_LETTER.get")
    a = g.args
    if not (len(a) == 2 and isinstance(a[0], ast.Call) and isinstance(a[0].func, ast.Name) and a[0].func.id == "type"):
        raise TranslationBroken(rel, g.lineno, "INITIAL_LETTER.get is not .get(type(item), default)")
    d = _const_str(a[1], rel)
    if len(d) != 1:
        raise TranslationBroken(rel, g.lineno, "default initial letter is not one character")
    return d


def _initial(tree, rel):
    v = _find_assign(tree, "INITIAL_LETTER", rel)
    if not isinstance(v, ast.Dict):
        raise TranslationBroken(rel, v.lineno, "INITIAL_LETTER is not a dict literal")
    out = []
    for k, val in zip(v.keys, v.values):
        if not isinstance(k, ast.Name):
            raise TranslationBroken(rel, v.lineno, "INITIAL_LETTER key is not a bare class name")
        s = _const_str(val, rel)
        if len(s) != 1:
            raise TranslationBroken(rel, val.lineno, "initial letter is not one character")
        out.append((k.id, s))
    return out


def _kwset(tree, name, rel):
    v = _find_assign(tree, name, rel)
    if not isinstance(v, ast.Set):
        raise TranslationBroken(rel, getattr(v, "lineno", 0), f"{name} is not a set literal")
    return sorted(_str_set(v, rel))


def _check_keyword_copy(tree, rel):
    cls = [n for n in tree.body if isinstance(n, ast.ClassDef) and n.name == "PDDLWriter"]
    if not cls:
        raise TranslationBroken(rel, 0, "class PDDLWriter not found")
    init = [n for n in cls[0].body if isinstance(n, ast.FunctionDef) and n.name == "__init__"]
    if not init:
        raise TranslationBroken(rel, cls[0].lineno, "PDDLWriter.__init__ not found")
    order = []
    for n in ast.walk(init[0]):
        tgt = None
        if isinstance(n, ast.Assign) and len(n.targets) == 1:
            tgt, val = n.targets[0], n.value
        elif isinstance(n, ast.AugAssign):
            tgt, val = n.target, n.value
        if tgt is None or not (isinstance(tgt, ast.Attribute) and tgt.attr == "pddl_keywords"):
            continue
        if isinstance(n, ast.Assign):
            if isinstance(val, ast.Name):
                raise TranslationBroken(rel, n.lineno, "self.pddl_keywords aliases the module-level keyword set "
                                        "(later `|=` mutates it for every future writer)")
            base = None
            if isinstance(val, ast.Call) and isinstance(val.func, ast.Name) and val.func.id == "set" and len(val.args) == 1 \
                    and isinstance(val.args[0], ast.Name):
                base = val.args[0].id
            elif isinstance(val, ast.Call) and isinstance(val.func, ast.Attribute) and val.func.attr == "copy" \
                    and isinstance(val.func.value, ast.Name):
                base = val.func.value.id
            if base != "GENERAL_PDDL_KEYWORDS":
                raise TranslationBroken(rel, n.lineno, "self.pddl_keywords is not initialised with a copy of GENERAL_PDDL_KEYWORDS")
        else:
            if not (isinstance(n.op, ast.BitOr) and isinstance(val, ast.Name)):
                raise TranslationBroken(rel, n.lineno, "unsupported update of self.pddl_keywords")
            order.append((n.lineno, val.id))
    got = [x for _, x in sorted(order)]
    want = ["PDDL_PLUS_KEYWORDS", "PDDL3_KEYWORDS", "TEMPORAL_PDDL_KEYWORDS", "CONTINGENT_PDDL_KEYWORDS"]
    if got != want:
        raise TranslationBroken(rel, init[0].lineno, f"keyword unions are {got}, the model has {want}")


def _valid_classes(fn, rel):
    c = _one(_calls(fn, "re", "compile"), rel, fn, "re.compile")
    pat = _const_str(c.args[0], rel)
    if _calls(fn, "re", "match") or _calls(fn, "re", "search"):
        raise TranslationBroken(rel, fn.lineno, f"{fn.name} tests a prefix (re.match/re.search), not the whole name")
    _one(_calls(fn, "re", "fullmatch"), rel, fn, "re.fullmatch")
    core = pat[1:] if pat.startswith("^") else pat
    if core.endswith("$"):
        core = core[:-1]
    # [C1][C2]*
    if not (core.startswith("[") and core.endswith("]*") and core.count("[") == 2 and core.count("]") == 2 and "][" in core):
        raise TranslationBroken(rel, c.lineno, f"validity pattern {pat!r} is not [C1][C2]*")
    a, b = core[1:-2].split("][")
    return _expand_class(a, rel, c.lineno), _expand_class(b, rel, c.lineno)


def gen_keywords():
    pt, prel = _parse(PDDL)
    at, arel = _parse(ANML)
    general = _kwset(pt, "GENERAL_PDDL_KEYWORDS", prel)
    plus = _kwset(pt, "PDDL_PLUS_KEYWORDS", prel)
    pddl3 = _kwset(pt, "PDDL3_KEYWORDS", prel)
    temporal = _kwset(pt, "TEMPORAL_PDDL_KEYWORDS", prel)
    contingent = _kwset(pt, "CONTINGENT_PDDL_KEYWORDS", prel)
    _check_keyword_copy(pt, prel)
    pfn = _find_func(pt, "_get_pddl_name", prel)
    p_initial, p_default = _initial(pt, prel), _default_letter(pfn, prel)
    p_start, p_keep = _start_class(pfn, prel), _keep_class(pfn, prel)
    _find_func(pt, "_get_pddl_name", prel)
    anml_kw = _kwset(at, "ANML_KEYWORDS", arel)
    afn = _find_func(at, "_get_anml_valid_name", arel)
    a_initial, a_default = _initial(at, arel), _default_letter(afn, arel)
    a_start, a_keep = _start_class(afn, arel), _keep_class(afn, arel)
    a_first, a_rest = _valid_classes(_find_func(at, "_is_valid_anml_name", arel), arel)
    _find_func(at, "_get_anml_name", arel)

    def initial(tbl):
        return "[" + ", ".join(f"({_chars(k)}, {_lean_char(v)})" for k, v in tbl) + "]"

    L = ["/- GENERATED by harness/translate_C38.py from /repo — do not edit. -/",
         "import UPVerif.Core.Mangle",
         "namespace UPVerif.Gen",
         "open UPVerif.Mangle",
         "",
         "def mangleTables : Tables where",
         f"  pddlGeneral := {_names(general)}",
         f"  pddlPlus := {_names(plus)}",
         f"  pddl3 := {_names(pddl3)}",
         f"  pddlTemporal := {_names(temporal)}",
         f"  pddlContingent := {_names(contingent)}",
         f"  pddlInitial := {initial(p_initial)}",
         f"  pddlDefault := {_lean_char(p_default)}",
         f"  pddlStart := {_chars(p_start)}",
         f"  pddlKeep := {_chars(p_keep)}",
         f"  anmlKw := {_names(anml_kw)}",
         f"  anmlInitial := {initial(a_initial)}",
         f"  anmlDefault := {_lean_char(a_default)}",
         f"  anmlStart := {_chars(a_start)}",
         f"  anmlKeep := {_chars(a_keep)}",
         f"  anmlFirst := {_chars(a_first)}",
         f"  anmlRest := {_chars(a_rest)}",
         "",
         "end UPVerif.Gen"]
    return "\n".join(L) + "\n"


GENERATORS = {"Keywords": gen_keywords}
