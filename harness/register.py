#!/usr/bin/env python3
"""register a finished property: adds Drv handler + imports to lean/Driver.lean and lean/UPVerif.lean
usage: harness/register.py Cxx module1 module2 ...   (modules without the UPVerif. prefix; Drv.Cxx must be among them)"""
import sys
pid, mods = sys.argv[1], sys.argv[2:]
p = '/verif/lean/UPVerif.lean'
s = open(p).read()
for m in mods:
    line = f'import UPVerif.{m}\n'
    if line not in s:
        s += line
open(p, 'w').write(s)
p = '/verif/lean/Driver.lean'
s = open(p).read()
imp = f'import UPVerif.Drv.{pid}\n'
if imp not in s:
    s = s.replace('import UPVerif.Drv.Den\n', 'import UPVerif.Drv.Den\n' + imp)
    s = s.replace('  ("ECHO", Drv.Den.handleEcho),', f'  ("{pid}", Drv.{pid}.handle),\n  ("ECHO", Drv.Den.handleEcho),')
open(p, 'w').write(s)
print("registered", pid)
