"""Shared helpers of the model-building properties C22 (clone) and C23 (type-correct stores).

  apply_op(ctx, problem, op)   one public building call on a REAL problem -> "ok" | error class
  dump_problem(problem)        canonical s-expression of everything a Problem stores, bookkeeping included
                               (same layout as `dump` in lean/UPVerif/Drv/C22.lean)
  type_correct(problem)        the C23 invariant evaluated on a real problem
  run_real(case)               the whole history on real objects -> answer of the line protocol
  HistGen(rng)                 seeded generator of histories (valid and malformed operations)

Wire format: see lean/UPVerif/Drv/C22.lean.  Harness code (trusted base of the correspondence check).
"""
import warnings
from collections import OrderedDict
from fractions import Fraction

warnings.simplefilter("ignore")
import unified_planning as up
from unified_planning.exceptions import (UPConflictingEffectsException, UPExpressionDefinitionError,
                                         UPProblemDefinitionError, UPTypeError, UPUnboundedVariablesError,
                                         UPUsageError, UPValueError)
from unified_planning.model import InstantaneousAction, Problem
from unified_planning.model.metrics import (MaximizeExpressionOnFinalState, MinimizeActionCosts,
                                            MinimizeExpressionOnFinalState, MinimizeSequentialPlanLength,
                                            Oversubscription)
from unified_planning.model.timing import TimeInterval, Timepoint, TimepointKind, Timing

import sexp
import upp
import upx
from upx import Ctx, enc_expr, enc_ty, q2s

B = sexp.B

CLASSES = [(UPTypeError, "type"), (UPUsageError, "usage"), (UPConflictingEffectsException, "conflict"),
           (UPProblemDefinitionError, "problem-def"), (UPUnboundedVariablesError, "unbounded"),
           (UPExpressionDefinitionError, "expr-def"), (UPValueError, "value"), (AssertionError, "assert")]


def classify(exc):
    for cls, name in CLASSES:
        if isinstance(exc, cls):
            return name
    return "other:" + type(exc).__name__


# ----------------------------------------------------------------------------------------------
# wire format <-> real objects
# ----------------------------------------------------------------------------------------------

TP = {"gs": TimepointKind.GLOBAL_START, "ge": TimepointKind.GLOBAL_END, "s": TimepointKind.START, "e": TimepointKind.END}
TP_INV = {v: k for k, v in TP.items()}


def mk_timing(s):
    q = Fraction(s[1])
    return Timing(q.numerator if q.denominator == 1 else q, Timepoint(TP[s[0]]))


def enc_timing(t):
    return [TP_INV[t.timepoint.kind], q2s(t.delay)]


def mk_interval(s):
    return TimeInterval(mk_timing(s[1]), mk_timing(s[2]), s[3] == "T", s[4] == "T")


def enc_interval(i):
    return ["iv", enc_timing(i.lower), enc_timing(i.upper), B(i.is_left_open()), B(i.is_right_open())]


def mk_metric(ctx, P, m):
    if m[0] == "min-action-costs":
        acts = [P.action(a) for a, _ in m[1]]          # UPValueError if the action is not in the problem
        costs = OrderedDict((act, ctx.expr(e)) for act, (_, e) in zip(acts, m[1]))
        return MinimizeActionCosts(costs, None if m[2] == "_" else ctx.expr(m[2]), ctx.env)
    if m[0] == "min-length":
        return MinimizeSequentialPlanLength(ctx.env)
    if m[0] == "min-final":
        return MinimizeExpressionOnFinalState(ctx.expr(m[1]), ctx.env)
    if m[0] == "max-final":
        return MaximizeExpressionOnFinalState(ctx.expr(m[1]), ctx.env)
    if m[0] == "oversub":
        return Oversubscription(OrderedDict((ctx.expr(g), Fraction(w)) for g, w in m[1]), ctx.env)
    raise ValueError(m)


def enc_metric(m):
    if isinstance(m, MinimizeActionCosts):
        return ["min-action-costs", [[a.name, enc_expr(c)] for a, c in m.costs.items()],
                "_" if m.default is None else enc_expr(m.default)]
    if isinstance(m, MinimizeSequentialPlanLength):
        return ["min-length"]
    if isinstance(m, MinimizeExpressionOnFinalState):
        return ["min-final", enc_expr(m.expression)]
    if isinstance(m, MaximizeExpressionOnFinalState):
        return ["max-final", enc_expr(m.expression)]
    if isinstance(m, Oversubscription):
        return ["oversub", [[enc_expr(g), q2s(Fraction(w))] for g, w in m.goals.items()]]
    return ["other-metric", type(m).__name__]


def _do(ctx, P, op):
    h = op[0]
    if h == "add-fluent":
        fl = ctx.fluent(op[1])
        if op[2] == "_":
            P.add_fluent(fl)
        else:
            P.add_fluent(fl, default_initial_value=ctx.expr(op[2]))
    elif h == "add-object":
        P.add_object(ctx.obj(op[1], op[2]))
    elif h == "set-init":
        P.set_initial_value(ctx.expr(op[1]), ctx.expr(op[2]))
    elif h == "add-action":
        P.add_action(InstantaneousAction(op[1], OrderedDict((pn, ctx.ty(pt)) for pn, pt in op[2]), ctx.env))
    elif h == "act-pre":
        a = P.action(op[1])
        a.add_precondition(ctx.expr(op[2]))
    elif h == "act-eff":
        a = P.action(op[1])
        fn = {"assign": a.add_effect, "increase": a.add_increase_effect, "decrease": a.add_decrease_effect}[op[2]]
        fn(ctx.expr(op[3]), ctx.expr(op[4]), ctx.expr(op[5]), forall=tuple(ctx.var(n, t) for n, t in op[6]))
    elif h == "add-goal":
        P.add_goal(ctx.expr(op[1]))
    elif h == "add-traj":
        P.add_trajectory_constraint(ctx.expr(op[1]))
    elif h == "timed-eff":
        fn = {"assign": P.add_timed_effect, "increase": P.add_increase_effect, "decrease": P.add_decrease_effect}[op[2]]
        fn(mk_timing(op[1]), ctx.expr(op[3]), ctx.expr(op[4]), ctx.expr(op[5]),
           forall=tuple(ctx.var(n, t) for n, t in op[6]))
    elif h == "timed-goal":
        P.add_timed_goal(mk_interval(op[1]), ctx.expr(op[2]))
    elif h == "add-metric":
        P.add_quality_metric(mk_metric(ctx, P, op[1]))
    elif h == "set-epsilon":
        P.epsilon = None if op[1] == "_" else Fraction(op[1])
    elif h == "set-discrete":
        P.discrete_time = op[1] == "T"
    elif h == "set-overlap":
        P.self_overlapping = op[1] == "T"
    else:
        raise ValueError(f"unknown op {op}")


def apply_op(ctx, P, op):
    """one building call on the real object; the arguments are built inside the guarded region, as a
    user's `problem.set_initial_value(f(a), v)` would"""
    try:
        _do(ctx, P, op)
        return "ok"
    except Exception as e:   # noqa: BLE001 - the class IS the observation
        return classify(e)


def enc_effect(e):
    return upp.enc_effect(e)


def _pairs(d):
    return [[enc_expr(k), enc_expr(v)] for k, v in d.items()]


def _sorted(l):
    return sorted(l, key=sexp.dumps)


def dump_action(a):
    return ["act", a.name, [[p.name, enc_ty(p.type)] for p in a.parameters],
            ["pre"] + [enc_expr(c) for c in a.preconditions], ["effs"] + [enc_effect(e) for e in a.effects],
            ["asg"] + _pairs(a._fluents_assigned), ["incdec"] + _sorted([enc_expr(f) for f in a._fluents_inc_dec])]


def dump_problem(P):
    return ["st", P.name,
            ["types"] + [t.name for t in P.user_types],
            ["objects"] + [[o.name, o.type.name] for o in P.all_objects],
            ["fluents"] + [[f.name, enc_ty(f.type), [enc_ty(p.type) for p in f.signature]] for f in P.fluents],
            ["fdef"] + [[[f.name, enc_ty(f.type), [enc_ty(p.type) for p in f.signature]], enc_expr(v)]
                        for f, v in P.fluents_defaults.items()],
            ["idef"] + [[enc_ty(t), enc_expr(v)] for t, v in P.initial_defaults.items()],
            ["init"] + _pairs(P.explicit_initial_values),
            ["actions"] + [dump_action(a) for a in P.actions],
            ["goals"] + [enc_expr(g) for g in P.goals],
            ["traj"] + [enc_expr(t) for t in P.trajectory_constraints],
            ["metrics"] + [enc_metric(m) for m in P.quality_metrics],
            ["teff"] + [[enc_timing(t)] + [enc_effect(e) for e in el] for t, el in P.timed_effects.items()],
            ["tgoals"] + [[enc_interval(i)] + [enc_expr(g) for g in gl] for i, gl in P.timed_goals.items()],
            ["tasg"] + _sorted([[enc_timing(t)] + _pairs(d) for t, d in P._fluents_assigned.items() if d]),
            ["tincdec"] + _sorted([[enc_timing(t)] + _sorted([enc_expr(f) for f in fs])
                                   for t, fs in P._fluents_inc_dec.items() if fs]),
            ["time", "_" if P.epsilon is None else q2s(P.epsilon), B(P.discrete_time), B(P.self_overlapping)]]


def stored_values(P):
    """(target type, stored value, must_be_constant, where) for every value the problem stores"""
    out = []
    for f, v in P.explicit_initial_values.items():
        out.append((f.type, v, True, f"initial value of {f}"))
    for f, v in P.fluents_defaults.items():
        out.append((f.type, v, True, f"default of fluent {f.name}"))
    for t, v in P.initial_defaults.items():
        out.append((t, v, True, f"default of type {t}"))
    for a in P.actions:
        if isinstance(a, InstantaneousAction):
            for e in a.effects:
                out.append((e.fluent.type, e.value, False, f"effect of {a.name} on {e.fluent}"))
        else:
            for el in a.effects.values():
                for e in el:
                    out.append((e.fluent.type, e.value, False, f"effect of {a.name} on {e.fluent}"))
    for t, el in P.timed_effects.items():
        for e in el:
            out.append((e.fluent.type, e.value, False, f"timed effect on {e.fluent}"))
    return out


def indep_compatible(ty, vty):
    """type compatibility re-stated independently of unified_planning.model.types.is_compatible_type (the oracle must
    not trust the function under test): equal types; user types: the value's type is the target or a descendant;
    numbers: int->int, real->real, int->real only, and the two intervals overlap (a missing bound = unbounded)."""
    from fractions import Fraction
    if ty == vty:
        return True
    if ty.is_user_type() and vty.is_user_type():
        t = vty
        while t is not None:
            if t == ty:
                return True
            t = t.father
        return False
    num = lambda t: t.is_int_type() or t.is_real_type()
    if not (num(ty) and num(vty)):
        return False
    if ty.is_int_type() and not vty.is_int_type():
        return False
    lo = lambda t: None if t.lower_bound is None else Fraction(t.lower_bound)
    hi = lambda t: None if t.upper_bound is None else Fraction(t.upper_bound)
    if hi(vty) is not None and lo(ty) is not None and hi(vty) < lo(ty):
        return False
    if lo(vty) is not None and hi(ty) is not None and lo(vty) > hi(ty):
        return False
    return True


def type_violation(P):
    """None if every stored value is type-compatible with its target (and every initial value constant),
    else a description of the first offender — the C23 invariant on a real problem"""
    for ty, v, must_const, where in stored_values(P):
        if must_const and not v.is_constant():
            return f"{where}: {v} is not a constant"
        if not indep_compatible(ty, v.type):
            return f"{where}: {v} of type {v.type} is not compatible with {ty}"
    return None


# ----------------------------------------------------------------------------------------------
# running a history on the real code
# ----------------------------------------------------------------------------------------------

def case_parts(case):
    _, env, new, pre, post = case
    return env, new, pre[1:], post[1:]


def new_ctx(env):
    types = [(n, None if f == "_" else f) for n, f in env[1][1:]]
    ctx = Ctx(types)
    ctx.env.error_used_name = env[2][1] == "T"
    return ctx


def new_problem(ctx, new):
    defaults = OrderedDict((ctx.ty(t), ctx.expr(e)) for t, e in new[2])
    return Problem(new[1], ctx.env, initial_defaults=defaults)


def safe_eq(a, b):
    """(EQ, KEQ): `a == b` and `a.kind == b.kind` of the real objects"""
    try:
        keq = B(a.kind == b.kind)
    except Exception as e:   # noqa: BLE001
        keq = "raise:" + type(e).__name__
    try:
        eq = B(a == b)
    except Exception as e:   # noqa: BLE001
        eq = "raise:" + type(e).__name__
    return eq, keq


def run_real(case):
    env, new, pre, post = case_parts(case)
    ctx = new_ctx(env)
    try:
        P = new_problem(ctx, new)
    except Exception as e:   # noqa: BLE001
        return ["ctor-error", classify(e)]
    pre_cls = [apply_op(ctx, P, op) for op in pre]
    try:
        C = P.clone()
    except Exception as e:   # noqa: BLE001
        return [["pre"] + pre_cls, ["clone", classify(e)]]
    eq, keq = safe_eq(C, P)
    out_clone = ["clone", "ok", eq, keq]
    res = []
    for it in post:
        h = it[0]
        if h == "both":
            cp, cc = apply_op(ctx, P, it[1]), apply_op(ctx, C, it[1])
            eq, keq = safe_eq(P, C)
            res.append(["both", cp, cc, eq, keq])
        elif h == "left":
            before = dump_problem(C)
            cp = apply_op(ctx, P, it[1])
            eq, keq = safe_eq(P, C)
            res.append(["left", cp, eq, B(dump_problem(C) == before), keq])
        elif h == "right":
            before = dump_problem(P)
            cc = apply_op(ctx, C, it[1])
            eq, keq = safe_eq(P, C)
            res.append(["right", cc, eq, B(dump_problem(P) == before), keq])
        elif h == "reclone":
            try:
                C = P.clone()
                eq, keq = safe_eq(C, P)
                res.append(["reclone", "ok", eq, keq])
            except Exception as e:   # noqa: BLE001
                res.append(["reclone", classify(e)])
        else:
            raise ValueError(it)
    return [["pre"] + pre_cls, out_clone, ["post"] + res, ["final", dump_problem(P), dump_problem(C)],
            ["tc", B(type_violation(P) is None), B(type_violation(C) is None)]]


_EQ_POS = {"clone": 2, "both": 3, "left": 2, "right": 2, "reclone": 2}


def _fix(r, m):
    """real record (trailing KEQ) -> model layout.  The real `==` also compares `kind` (someone else's
    property): where the real kinds differ and the real `==` is False there is nothing to compare, so the
    model's EQ is taken over; in every other situation the real EQ stands and must equal the model's."""
    if not isinstance(r, list) or len(r) < 3 or r[0] not in _EQ_POS:
        return r
    keq, body = r[-1], list(r[:-1])
    pos = _EQ_POS[body[0]]
    if keq == "F" and body[pos] == "F" and isinstance(m, list) and len(m) > pos:
        body[pos] = m[pos]
    return body


def compare_hist(model, impl):
    if not isinstance(impl, list) or not isinstance(model, list) or (impl and impl[0] == "ctor-error"):
        return model == impl
    if len(impl) != len(model):
        return False
    out = []
    for part, mpart in zip(impl, model):
        if isinstance(part, list) and part and part[0] == "clone":
            out.append(_fix(part, mpart))
        elif isinstance(part, list) and part and part[0] == "post":
            ms = mpart[1:] if isinstance(mpart, list) else []
            out.append(["post"] + [_fix(r, ms[i] if i < len(ms) else None) for i, r in enumerate(part[1:])])
        else:
            out.append(part)
    return out == model


# ----------------------------------------------------------------------------------------------
# environment tables (type checker / simplifier results the model takes as parameters)
# ----------------------------------------------------------------------------------------------

LEAF = ("b", "i", "r", "o", "p", "v", "fl")


def op_exprs(op):
    h = op[0]
    if h == "add-fluent":
        return [] if op[2] == "_" else [op[2]]
    if h == "set-init":
        return [op[2]]
    if h in ("act-pre",):
        return [op[2]]
    if h == "act-eff":
        return [op[4], op[5]]
    if h in ("add-goal", "add-traj"):
        return [op[1]]
    if h == "timed-eff":
        return [op[4], op[5]]
    if h == "timed-goal":
        return [op[2]]
    if h == "add-metric":
        m = op[1]
        if m[0] == "min-action-costs":
            return [e for _, e in m[1]] + ([] if m[2] == "_" else [m[2]])
        if m[0] in ("min-final", "max-final"):
            return [m[1]]
        if m[0] == "oversub":
            return [g for g, _ in m[1]]
    return []


def tables(ctx, exprs, trajs):
    """[tytab, simp]: types of the non-leaf expressions (real type checker) and simplifications of the
    trajectory constraints (real simplifier).  Raises if an expression cannot be built: generator bug."""
    tytab, seen = [], set()
    for e in exprs:
        k = sexp.dumps(e)
        if k in seen or e[0] in LEAF:
            continue
        seen.add(k)
        tytab.append([e, enc_ty(ctx.expr(e).type)])
    simp, seen = [], set()
    for e in trajs:
        k = sexp.dumps(e)
        if k in seen:
            continue
        seen.add(k)
        simp.append([e, enc_expr(ctx.expr(e).simplify())])
    return ["tytab"] + tytab, ["simp"] + simp


# ----------------------------------------------------------------------------------------------
# generator of histories
# ----------------------------------------------------------------------------------------------

U = lambda n: ["user", n]   # noqa: E731
INT, REAL = ["int", "_", "_"], ["real", "_", "_"]


def const_divisors(e):
    if not isinstance(e, list) or not e:
        return True
    if e[0] == "div":
        d = e[2]
        if not (isinstance(d, list) and d[0] in ("i", "r") and Fraction(d[1]) != 0):
            return False
    if e[0] in ("fl", "ifun"):
        return all(const_divisors(a) for a in e[2:])
    if e[0] in ("exists", "forall"):
        return const_divisors(e[2])
    if e[0] in ("b", "i", "r", "o", "p", "v"):
        return True
    return all(const_divisors(a) for a in e[1:])


class HistGen:
    """Histories over the universe of upp.ProblemGen (types T > S, U; objects t1 s1 s2 u1; ten fluents) extended with
    types W < T, V < W, fresh fluents n0..n6, fresh objects and actions.  `pre` = the generated problem as a call
    sequence, `post` = random building calls, ~30% of them malformed (ill-typed values, arity errors, non-constant
    initial values, conflicting effects, name clashes, unbound variables, missing actions)."""
    TYPES = [["T", "_"], ["S", "T"], ["U", "_"], ["W", "T"], ["V", "W"]]
    NEW_FLUENTS = [["n0", "bool", []], ["n1", ["int", "0", "10"], []], ["n2", REAL, [U("S")]], ["n3", U("S"), []],
                   ["n4", "bool", [U("W")]], ["n5", INT, [U("V")]], ["n6", ["real", "0", "1"], []],
                   # names that clash with other categories
                   ["t1", "bool", []], ["a0", INT, []], ["T", "bool", []], ["W", "bool", []], ["x", "bool", []]]
    TIMINGS = [["gs", "0"], ["gs", "5"], ["gs", "5"], ["gs", "7/2"], ["gs", "10"]]

    def __init__(self, rng, malformed=0.3, ctor_bad=0.04):
        self.rng, self.malformed, self.ctor_bad = rng, malformed, ctor_bad

    # -- one case -----------------------------------------------------------------------------------
    def case(self, n_post, single_sided=0.08, reclone=0.05):
        r = self.rng
        self.pg = upp.ProblemGen(r, metrics=True)
        self.ctx = Ctx([(n, None if f == "_" else f) for n, f in self.TYPES])
        self.exprs, self.trajs = [], []
        self.past_effs = []          # (target, kind, fluent, value): unconditional numeric/object effects so far
        self.fluents = {}            # name -> ref of fluents added so far (attempted)
        self.objects = {}            # name -> type of objects added so far
        self.actions = {}            # name -> params
        self.fresh = 0
        eun = r.random() < 0.8
        new = ["new", "p", self.initial_defaults()]
        pre = self.problem_ops(self.pg.problem())
        for _ in range(r.choice([0, 2, 4, 6])):      # the problem was edited further before it is cloned
            op = self.random_op()
            if op is not None:
                pre.append(op)
        post = []
        while len(post) < n_post:
            k = r.random()
            if k < reclone:
                post.append(["reclone"])
                continue
            op = self.random_op()
            if op is None:
                continue
            if k < reclone + single_sided:
                post += [["left", op], ["right", op]] if r.random() < 0.5 else [["right", op], ["left", op]]
            else:
                post.append(["both", op])
        for it in [["x", o] for o in pre] + post:
            if len(it) > 1:
                self.note(it[1])
        tytab, simp = tables(self.ctx, self.exprs + [e for _, e in new[2]], self.trajs)
        env = ["env", ["types"] + self.TYPES, ["eun", B(eun)], tytab, simp]
        return ["hist", env, new, ["pre"] + pre, ["post"] + post]

    def note(self, op):
        self.exprs += op_exprs(op)
        if op[0] == "add-traj":
            self.trajs.append(op[1])

    def ok(self, *exprs):
        """can these expressions be built by the real constructors (the typed grammar is not perfect); divisors must be
        non-zero constants (Problem.kind simplifies with static fluents replaced by their values and can divide by 0)"""
        try:
            for e in exprs:
                if not const_divisors(e):
                    return False
                n = self.ctx.expr(e)
                if e[0] not in LEAF:
                    enc_ty(n.type)
            return True
        except Exception:   # noqa: BLE001
            return False

    # -- constructor --------------------------------------------------------------------------------
    def initial_defaults(self):
        r = self.rng
        k = r.random()
        if k < self.ctor_bad:
            return [r.choice([["bool", ["i", "5"]], [["int", "0", "4"], ["i", "7"]], [U("S"), ["o", "u1", "U"]],
                              ["bool", ["fl", ["b0", "bool", []]]], [REAL, ["b", "T"]]])]
        if k < 0.5:
            return []
        pool = [["bool", ["b", "F"]], [INT, ["i", "0"]], [REAL, ["r", "1/2"]], [REAL, ["i", "2"]],
                [["int", "0", "4"], ["i", "3"]], [U("T"), ["o", "s1", "S"]], [["real", "0", "5/2"], ["i", "1"]]]
        return [p for p in pool if r.random() < 0.35]

    # -- the generated problem as calls -----------------------------------------------------------
    def problem_ops(self, ps):
        ops = []
        for n, t in upp.get(ps, "objects"):
            ops.append(["add-object", n, t])
            self.objects[n] = t
        for ref, d in upp.get(ps, "fluents"):
            ops.append(["add-fluent", ref, d])
            self.fluents[ref[0]] = ref
        for f, v in upp.get(ps, "init"):
            ops.append(["set-init", f, v])
        for a in upp.get(ps, "actions"):
            _, name, params, pre, effs = a
            ops.append(["add-action", name, params])
            self.actions[name] = params
            for c in pre[1:]:
                if self.ok(c):
                    ops.append(["act-pre", name, c])
            for e in effs[1:]:
                if self.ok(e[2], e[3], e[4]):
                    ops.append(["act-eff", name, e[1], e[2], e[3], e[4], e[5]])
                    if not e[5]:
                        self.remember(name, e[1], e[2], e[3], e[4])
        for g in upp.get(ps, "goals"):
            if self.ok(g):
                ops.append(["add-goal", g])
        for t in upp.get(ps, "traj"):
            ops.append(["add-traj", t])
        for m in upp.get(ps, "metrics"):
            if all(self.ok(e) for e in op_exprs(["add-metric", m])):
                ops.append(["add-metric", m])
        return ops

    # -- random calls -------------------------------------------------------------------------------
    def obj(self, tyname):
        is_sub = {"T": ("T", "S", "W", "V"), "S": ("S",), "U": ("U",), "W": ("W", "V"), "V": ("V",)}[tyname]
        cands = [["o", n, t] for n, t in self.objects.items() if t in is_sub]
        return self.rng.choice(cands) if cands else None

    def ground(self, ref):
        args = []
        for t in ref[2]:
            o = self.obj(t[1])
            if o is None:
                return None
            args.append(o)
        return ["fl", ref] + args

    def const_of(self, ty):
        r = self.rng
        if ty == "bool":
            return ["b", r.choice("TF")]
        if ty[0] == "int":
            lo = int(ty[1]) if ty[1] != "_" else -2
            hi = int(ty[2]) if ty[2] != "_" else 12
            return ["i", str(r.randint(lo, hi))]
        if ty[0] == "real":
            lo = Fraction(ty[1]) if ty[1] != "_" else Fraction(-1)
            hi = Fraction(ty[2]) if ty[2] != "_" else Fraction(3)
            q = lo + (hi - lo) * Fraction(r.randint(0, 4), 4)
            return ["i", str(q.numerator)] if q.denominator == 1 and r.random() < 0.7 else ["r", q2s(q)]
        return self.obj(ty[1])

    def wrong_const(self, ty):
        """a constant whose type is NOT compatible with ty"""
        r = self.rng
        if ty == "bool":
            return r.choice([["i", "5"], ["r", "1/2"], ["o", "t1", "T"]])
        if ty[0] == "int":
            c = [["b", "T"], ["r", "1/2"], ["o", "s1", "S"]]
            if ty[1] != "_":
                c.append(["i", str(int(ty[1]) - 3)])
            if ty[2] != "_":
                c.append(["i", str(int(ty[2]) + 1)])
            return r.choice(c)
        if ty[0] == "real":
            c = [["b", "F"], ["o", "u1", "U"]]
            if ty[1] != "_":
                c.append(["r", q2s(Fraction(ty[1]) - Fraction(1, 3))])
            if ty[2] != "_":
                c.append(["i", str(int(Fraction(ty[2])) + 2)])
            return r.choice(c)
        other = {"T": ["u1"], "S": ["u1", "t1"], "U": ["t1", "s1"], "W": ["t1", "u1"], "V": ["s1", "u1"]}[ty[1]]
        n = r.choice(other)
        return r.choice([["o", n, self.objects.get(n, "T")], ["i", "1"], ["b", "T"]])

    def nonconst_of(self, ty, params=()):
        """a well-typed NON-constant expression of (a type compatible with) ty"""
        r = self.rng
        pg = self.pg
        if ty == "bool":
            return pg.cond(list(params), (), 1)
        if ty[0] == "int":
            return r.choice([["fl", pg.FL["x"]], ["plus", ["fl", pg.FL["x"]], ["i", "1"]], ["fl", pg.FL["xb"]]])
        if ty[0] == "real":
            return r.choice([["fl", pg.FL["z"]], ["div", ["fl", pg.FL["x"]], ["i", "2"]], ["fl", pg.FL["x"]]])
        if ty[1] in ("T",):
            return ["fl", pg.FL["at"]]
        return None

    def some_fluent(self):
        return self.rng.choice(list(self.fluents.values()))

    def mal(self):
        return self.rng.random() < self.malformed

    def random_op(self):
        r = self.rng
        kind = r.choice(["add-fluent", "add-object", "set-init", "set-init", "add-action", "act-pre", "act-eff",
                         "act-eff", "act-eff", "add-goal", "add-traj", "timed-eff", "timed-eff", "timed-goal",
                         "add-metric", "time"])
        op = getattr(self, "op_" + kind.replace("-", "_"))()
        if op is None:
            return None
        if not self.ok(*[e for e in op_exprs(op)]):
            return None
        return op

    def op_add_fluent(self):
        r = self.rng
        ref = r.choice(self.NEW_FLUENTS)
        if r.random() < 0.15:
            ref = self.some_fluent()       # duplicate
        k = r.random()
        if self.mal():
            d = self.wrong_const(ref[1]) if k < 0.6 else (self.nonconst_of(ref[1]) or self.wrong_const(ref[1]))
        elif k < 0.45:
            d = "_"
        else:
            d = self.const_of(ref[1]) or "_"
        if ref[0] not in self.objects and ref[0] not in self.actions and ref[0] not in ("T", "W"):
            self.fluents.setdefault(ref[0], ref)
        return ["add-fluent", ref, d]

    def op_add_object(self):
        r = self.rng
        if r.random() < 0.2:
            name = r.choice(list(self.objects) + list(self.fluents) + list(self.actions) + ["T"])
        else:
            self.fresh += 1
            name = f"o{self.fresh}"
        ty = r.choice(["T", "S", "S", "U", "W", "V"])
        if name not in self.objects and name not in self.fluents and name not in self.actions and name != "T":
            self.objects[name] = ty
        return ["add-object", name, ty]

    def op_set_init(self):
        r = self.rng
        ref = self.some_fluent()
        f = self.ground(ref)
        if f is None:
            return None
        v = self.const_of(ref[1])
        if v is None:
            return None
        if self.mal():
            k = r.random()
            if k < 0.3:
                v = self.wrong_const(ref[1])
            elif k < 0.55:
                v = self.nonconst_of(ref[1]) or self.wrong_const(ref[1])
            elif k < 0.7 and ref[2]:
                f = ["fl", ref] + f[2:-1]                       # too few arguments
            elif k < 0.8:
                f = f + [["o", "t1", "T"]]                       # too many arguments
            elif k < 0.9 and ref[2] and ref[2][0] == U("T"):
                f = ["fl", ref, ["fl", self.pg.FL["at"]]] + f[3:]   # non-constant argument
            else:
                f = self.const_of(ref[1])                        # not a fluent expression at all
        return ["set-init", f, v]

    def op_add_action(self):
        r = self.rng
        if r.random() < 0.2:
            name = r.choice(list(self.objects) + list(self.fluents) + list(self.actions))
        else:
            self.fresh += 1
            name = f"b{self.fresh}"
        params = [[f"p{j}", r.choice([U("T"), U("S"), U("S"), U("U"), U("W"), U("V"), "bool", ["int", "0", "3"]])]
                  for j in range(r.choice([0, 1, 1, 2]))]
        if name not in self.objects and name not in self.fluents and name not in self.actions:
            self.actions[name] = params
        return ["add-action", name, params]

    def some_action(self):
        r = self.rng
        if not self.actions or r.random() < 0.05:
            return "nosuch", []
        n = r.choice(list(self.actions))
        return n, [p for p in self.actions[n] if p[1][0] == "user" and p[1][1] in ("T", "S", "U")]

    def op_act_pre(self):
        r = self.rng
        name, params = self.some_action()
        k = r.random()
        if k < 0.08:
            c = ["b", "T"]
        elif self.mal():
            c = r.choice([self.pg.num(params, (), 1),                                   # not Boolean
                          ["fl", self.pg.FL["bq"], ["v", "w", U("T")]],                    # unbound variable
                          ["fl", self.pg.FL["at"]]])
        else:
            c = self.pg.cond(params, (), r.choice([1, 2]))
        return ["act-pre", name, c]

    def effect_parts(self, params):
        """(kind, fluent, value, cond, forall) — valid most of the time"""
        r = self.rng
        e = self.pg.effect(params)
        kind, f, v, c, vs = e[1], e[2], e[3], e[4], e[5]
        ref = f[1]
        if self.mal():
            k = r.random()
            if k < 0.3:
                v = self.wrong_const(ref[1])
            elif k < 0.4:
                kind = r.choice(["increase", "decrease"])        # possibly on a non-numeric fluent
            elif k < 0.5 and ref[2] and ref[2][0] == U("T"):
                f = ["fl", ref, ["fl", self.pg.FL["at"]]] + f[3:]   # fluent nested in the arguments
            elif k < 0.6:
                c = r.choice([["fl", self.pg.FL["x"]], ["i", "1"]])  # non-Boolean condition
            elif k < 0.7:
                vs = []                                            # variables left unbound (if any)
                if ref[2] and ref[2][0] == U("T"):
                    f = ["fl", ref, ["v", "w", U("T")]] + f[3:]
            elif k < 0.8 and ref[2]:
                f = ["fl", ref] + f[2:-1]                          # arity
            elif k < 0.9:
                f = r.choice([["b", "T"], ["i", "3"], ["plus", ["fl", self.pg.FL["x"]], ["i", "1"]]])  # not a fluent
            else:
                vs = vs + vs + [["unused", U("S")]]               # duplicated / unused quantified variables
        return kind, f, v, c, vs

    def remember(self, target, kind, f, v, c):
        if c == ["b", "T"] and f[0] == "fl" and f[1][1] != "bool":
            self.past_effs.append((target, kind, f, v))

    def rival(self, want_timed):
        """an effect aimed at the bookkeeping left by an earlier unconditional effect on the same action / timing:
        the other kind (conflict), another value (conflict) or the very same assignment (accepted)"""
        r = self.rng
        cands = [e for e in self.past_effs if isinstance(e[0], list) == want_timed]
        if not cands or r.random() > 0.3:
            return None
        target, kind, f, v = r.choice(cands)
        ty = f[1][1]
        k = r.random()
        if kind == "assign":
            if k < 0.4 and ty[0] in ("int", "real"):
                return target, r.choice(["increase", "decrease"]), f, ["i", "1"]
            if k < 0.7:
                return target, "assign", f, v
            return target, "assign", f, self.const_of(ty) or v
        return target, "assign", f, self.const_of(ty) or ["i", "1"]

    def op_act_eff(self):
        rv = self.rival(False)
        if rv is not None:
            name, kind, f, v = rv
            return ["act-eff", name, kind, f, v, ["b", "T"], []]
        name, params = self.some_action()
        kind, f, v, c, vs = self.effect_parts(params)
        self.remember(name, kind, f, v, c)
        return ["act-eff", name, kind, f, v, c, vs]

    def op_add_goal(self):
        r = self.rng
        k = r.random()
        if k < 0.08:
            g = ["b", "T"]
        elif self.mal():
            g = r.choice([self.pg.num([], (), 1), ["fl", self.pg.FL["at"]], ["i", "0"]])
        else:
            g = self.pg.cond([], (), r.choice([1, 2]))
        return ["add-goal", g]

    def op_add_traj(self):
        r = self.rng
        c = lambda: self.pg.cond([], (), 1)   # noqa: E731
        atom = lambda: r.choice([["always", c()], ["sometime", c()], ["at-most-once", c()],   # noqa: E731
                                 ["sometime-before", c(), c()], ["sometime-after", c(), c()]])
        k = r.random()
        if self.mal():
            t = r.choice([c(), ["and", atom(), c()], ["not", atom()]])
        elif k < 0.6:
            t = atom()
        elif k < 0.8:
            t = ["and", atom(), atom()]
        else:
            t = ["forall", [["k", U("S")]], ["always", ["le", ["fl", self.pg.FL["xq"], ["v", "k", U("S")]], ["i", "2"]]]]
        return ["add-traj", t]

    def op_timed_eff(self):
        r = self.rng
        rv = self.rival(True)
        if rv is not None:
            t, kind, f, v = rv
            return ["timed-eff", t, kind, f, v, ["b", "T"], []]
        kind, f, v, c, vs = self.effect_parts([])
        t = r.choice(self.TIMINGS)
        if r.random() < 0.12:
            t = r.choice([["ge", "0"], ["e", "0"], ["ge", "-2"], ["s", "1"]])
        self.remember(t, kind, f, v, c)
        return ["timed-eff", t, kind, f, v, c, vs]

    def op_timed_goal(self):
        r = self.rng
        lo, hi = sorted([r.choice([0, 2, 5, 10]), r.choice([0, 2, 5, 10])])
        iv = ["iv", ["gs", str(lo)], ["gs", str(hi)], B(r.random() < 0.2), B(r.random() < 0.2)]
        k = r.random()
        if k < 0.15:
            iv = ["iv", ["gs", str(lo)], ["ge", "0"], "F", "F"]
        elif k < 0.25:
            iv = ["iv", ["gs", str(lo)], ["ge", "-3"], "F", "F"]       # end - k: rejected
        g = self.pg.cond([], (), 1) if not self.mal() else r.choice([["i", "1"], self.pg.num([], (), 1)])
        return ["timed-goal", iv, g]

    def op_add_metric(self):
        r = self.rng
        k = r.random()
        bad = self.mal()
        if k < 0.35:
            names = [a for a in self.actions if r.random() < 0.6][:3]
            if r.random() < 0.08:
                names.append("nosuch")
            costs = [[a, r.choice([["i", "1"], ["i", "3"], ["r", "1/2"], ["plus", ["fl", self.pg.FL["xb"]], ["i", "1"]]])]
                     for a in names]
            if bad and costs:
                costs[-1][1] = r.choice([["b", "T"], ["fl", self.pg.FL["b0"]], ["o", "t1", "T"]])
            d = r.choice(["_", ["i", "1"], ["i", "0"], ["r", "3/2"]])
            if bad and not costs:
                d = ["b", "F"]
            return ["add-metric", ["min-action-costs", costs, d]]
        if k < 0.45:
            return ["add-metric", ["min-length"]]
        if k < 0.7:
            e = self.pg.num([], (), 1) if not bad else self.pg.cond([], (), 1)
            return ["add-metric", [r.choice(["min-final", "max-final"]), e]]
        goals, seen = [], set()
        for _ in range(r.choice([1, 2, 3])):
            g = self.pg.cond([], (), 1) if not bad else r.choice([self.pg.num([], (), 1), self.pg.cond([], (), 1)])
            if sexp.dumps(g) not in seen:
                seen.add(sexp.dumps(g))
                goals.append([g, r.choice(["1", "2", "5/2", "3"])])
        return ["add-metric", ["oversub", goals]]

    def op_time(self):
        r = self.rng
        k = r.random()
        if k < 0.4:
            return ["set-epsilon", r.choice(["1/100", "1", "_", "0", "-1/2"])]
        if k < 0.7:
            return ["set-discrete", r.choice("TF")]
        return ["set-overlap", r.choice("TF")]


# ----------------------------------------------------------------------------------------------
# shrinking
# ----------------------------------------------------------------------------------------------

def pair_span(post, i):
    """[lo, hi) of the items to drop together with post[i]: a single-sided call goes with its twin"""
    it = post[i]
    if it[0] in ("left", "right"):
        for j in (i - 1, i + 1):
            if 1 <= j < len(post) and post[j][0] in ("left", "right") and post[j][0] != it[0] and post[j][1] == it[1]:
                return min(i, j), max(i, j) + 1
    return i, i + 1


def shrink_hist(case):
    """drop one post item / one pre op (tables are supersets, so they stay valid)"""
    _, env, new, pre, post = case
    for i in range(len(post) - 1, 0, -1):
        lo, hi = pair_span(post, i)
        yield ["hist", env, new, pre, post[:lo] + post[hi:]]
    for i in range(len(pre) - 1, 0, -1):
        yield ["hist", env, new, pre[:i] + pre[i + 1:], post]
    if new[2]:
        yield ["hist", env, ["new", new[1], []], pre, post]
